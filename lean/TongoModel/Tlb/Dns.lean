import TongoModel.Tlb.Dec
/-! # DNS records (tlb/dns.go): hand-written DECODERS only (the library has no encoder for them)

`decDnsText` / `decDnsRecord` model `DNSText.UnmarshalTLB` (`readChunks`) and `DNSRecord.UnmarshalTLB`
(`readDnsAdnlAddress`, `readDNSSmcAddress`). The schema side (block.tlb, TEP-81) is `specDnsText`:

    text$_ chunks:(## 8) rest:(TextChunks chunks) = Text;
    text_chunk$_ {n:#} len:(## 8) data:(bits (len * 8)) next:(TextChunkRef n) = TextChunks (n + 1);
    text_chunk_empty$_ = TextChunks 0;
    chunk_ref$_ {n:#} ref:^(TextChunks (n + 1)) = TextChunkRef (n + 1);
    chunk_ref_empty$_ = TextChunkRef 0;

and `C04.dnsText_decodes_spec` says the decoder returns the concatenation of the chunks of every cell the schema
prescribes. Both are executed by the driver (`tlb.dns`, `tlb.dnstext`, `tlb.dnsspec`) against the Go code and against
the harness's own schema-based cell builder. Values are dumped like the Go struct (`harness/tlbx/val.go`). -/
namespace Tongo.Tlb.Dns
open Tongo Tongo.Bits Tongo.Tlb

/-- readChunks(c, chunksQty): a length byte, that many bytes, and (unless it is the last chunk) the next reference -/
def decChunks : Nat → Slice → Outcome (List UInt8 × Slice)
  | 0, s => .ok ([], s)
  | q + 1, s => do
    let (ln, s) ← s.readUint 8
    let (data, s) ← s.readBytes ln
    if q + 1 > 1 then do
      let (next, s) ← s.nextRef
      let (rest, _) ← decChunks q (Slice.ofCell next)
      pure (data ++ rest, s)
    else pure (data, s)

/-- DNSText.UnmarshalTLB -/
def decDnsText (s : Slice) : Outcome (List UInt8 × Slice) := do
  let (q, s) ← s.readUint 8
  decChunks q s

/-- the cells of `TextChunks (n + 1)` for a non-empty list of chunks (bits, refs of the first cell) -/
def specChunks : List (List UInt8) → List Bool × List Cell
  | [] => ([], [])
  | [c] => (natToBits 8 c.length ++ bytesToBits c, [])
  | c :: rest =>
    let r := specChunks rest
    (natToBits 8 c.length ++ bytesToBits c, [Cell.mk 0 0 r.1 r.2])

/-- `Text`: the number of chunks, then the chunks -/
def specDnsText (chunks : List (List UInt8)) : List Bool × List Cell :=
  let r := specChunks chunks
  (natToBits 8 chunks.length ++ r.1, r.2)

def s_http : List UInt8 := [104, 116, 116, 112]
def s_seqno : List UInt8 := [115, 101, 113, 110, 111]
def s_pubkey : List UInt8 := [112, 117, 98, 107, 101, 121]
def s_wallet : List UInt8 := [119, 97, 108, 108, 101, 116]

/-- proto_list_nil$0 / proto_list_next$1 head:Protocol tail:ProtoList; proto_http#4854 (others are skipped) -/
def decProtoList : Nat → Slice → List Val → Outcome (List Val × Slice)
  | 0, _, _ => .err "fuel"
  | fuel + 1, s, acc => do
    let (next, s) ← s.readBit
    if next then do
      let (t, s) ← s.readUint 16
      decProtoList fuel s (if t = 0x4854 then acc ++ [.bytes s_http] else acc)
    else pure (acc, s)

/-- cap_list_nil$0 / cap_list_next$1 head:SmcCapability tail:SmcCapList; the capability is decoded by the reflection
decoder (first matching tag in declaration order: #5371, #71f4, #2177, #ff name:Text) -/
def decCapList : Nat → Slice → List Val → List Val → Outcome (List Val × List Val × Slice)
  | 0, _, _, _ => .err "fuel"
  | fuel + 1, s, names, ifaces => do
    let (next, s) ← s.readBit
    if next then
      if s.isLibrary then .err "library cell decoding is not configured properly"
      else if 16 ≤ s.bits.length ∧ bitsToNat (s.bits.take 16) = 0x5371 then
        decCapList fuel { s with bits := s.bits.drop 16 } names (ifaces ++ [.bytes s_seqno])
      else if 16 ≤ s.bits.length ∧ bitsToNat (s.bits.take 16) = 0x71f4 then
        decCapList fuel { s with bits := s.bits.drop 16 } names (ifaces ++ [.bytes s_pubkey])
      else if 16 ≤ s.bits.length ∧ bitsToNat (s.bits.take 16) = 0x2177 then
        decCapList fuel { s with bits := s.bits.drop 16 } names (ifaces ++ [.bytes s_wallet])
      else if 8 ≤ s.bits.length ∧ bitsToNat (s.bits.take 8) = 0xff then do
        let (name, s) ← decDnsText { s with bits := s.bits.drop 8 }
        decCapList fuel s (names ++ [.bytes name]) ifaces
      else .err "can not decode sumtype"
    else pure (names, ifaces, s)

/-- DNSRecord.UnmarshalTLB through `tlb.Unmarshal` (no library resolver) -/
def decDnsRecord (s : Slice) : Outcome Val :=
  if s.isLibrary then .err "library cell decoding is not configured properly"
  else do
    let (t, s1) ← s.readUint 16
    if t = 0x1eda then do
      let (text, _) ← decDnsText s1
      pure (Val.ctor "DNSText" (.bytes text))
    else if t = 0xba93 then do
      let (a, _) ← Prim.decMsgAddress s1
      pure (Val.ctor "DNSNextResolver" a)
    else if t = 0xad01 then do
      let (addr, s2) ← s1.readBytes 32
      let (flags, s3) ← s2.readUint 8
      if flags > 2 then .err "invalid dns_adnl_address flags"
      else if flags > 0 then do
        let (protos, _) ← decProtoList (s3.bits.length + 1) s3 []
        pure (Val.ctor "DNSAdnlAddress" (Val.list [.bytes addr, Val.list protos]))
      else pure (Val.ctor "DNSAdnlAddress" (Val.list [.bytes addr, .nil]))
    else if t = 0x9fd3 then do
      let (a, s2) ← Prim.decMsgAddress s1
      let (flags, s3) ← s2.readUint 8
      if flags > 2 then .err "invalid smc_addr flags"
      else if flags > 0 then do
        let (names, ifaces, _) ← decCapList (s3.bits.length + 1) s3 [] []
        pure (Val.ctor "DNSSmcAddress" (Val.list [a, Val.list [Val.list names, Val.list ifaces]]))
      else pure (Val.ctor "DNSSmcAddress" (Val.list [a, Val.list [.nil, .nil]]))
    else if t = 0x7473 then do
      let (addr, _) ← s1.readBytes 32
      pure (Val.ctor "DNSStorageAddress" (.bytes addr))
    else pure (Val.ctor "NotStandard" (Val.some (.cell s.toCell)))

end Tongo.Tlb.Dns
