import TongoModel.Tlb.BlockTlb
/-! The decidable matcher between a regenerated Go type descriptor (`Ty`, translator X1) and a transcribed schema
(`SType`): same field order BY NAME (the Go field at each position carries the schema's field name, modulo
snake_case/CamelCase and a small alias table), same widths, same constructor tags (the bits `ParseTag` yields equal the bits written in
the schema), references in the same places. `TongoProofs/C04.lean` proves once that a match implies
`encode = specChunk` for every value; `impl_eq_spec_<S>` is then the decided match of `desc_<S>` with the schema. -/
namespace Tongo.Tlb.Spec
open Tongo Tongo.Tlb Tongo.Bits

def agreePrim (p : Prim) (S : SType) : Bool :=
  match p, S with
  | .grams, .varUint n => n == 16
  | .varUint n, .varUint m => n == m && 1 ≤ n && n ≤ 32
  | .bigUint n, .nat m => n == m && 1 ≤ n
  | .bigInt n, .int m => n == m && 1 ≤ n
  | .unary, .unary => true
  | .any, .any => true
  | .anycast, .anycast => true
  | .msgAddress, .msgAddress => true
  | .payloadV1toV4, .payloadList => true
  | .w5Actions, .outList => true
  | .accountStatus, .enum cs =>
    cs == [(Prim.s_uninit, [false, false]), (Prim.s_frozen, [false, true]), (Prim.s_active, [true, false]),
      (Prim.s_nonexist, [true, true])]
  | .accStatusChange, .enum cs =>
    cs == [(Prim.s_acst_unchanged, [false]), (Prim.s_acst_frozen, [true, false]), (Prim.s_acst_deleted, [true, true])]
  | .computeSkipReason, .enum cs =>
    cs == [(Prim.s_cskip_no_state, [false, false]), (Prim.s_cskip_bad_state, [false, true]),
      (Prim.s_cskip_no_gas, [true, false]), (Prim.s_cskip_suspended, [true, true, false])]
  | _, _ => false

def tagAgrees (tg : Tag) (bits : List Bool) : Bool := tg.ok && natToBits tg.len tg.val == bits

def _root_.Tongo.Tlb.Ty.isCell : Ty → Bool
  | .cell => true
  | _ => false

/-- a Magic field against the tag the schema gives to the (single) constructor -/
def magicAgree (ft : FieldTag) (t : Ty) (s : SType) : Bool :=
  match ft, t, s with
  | .plain, .magic (some g), .tag bits => tagAgrees g bits
  | _, _, _ => false

mutual
def agreeb (env : Env) (senv : SEnv) : Nat → Ty → SType → Bool
  | 0, _, _ => false
  | f + 1, T, S =>
    match T with
    | .uint n => (match S with
      | .nat m => n == m && n ≤ 64
      | _ => false)
    | .int n => (match S with
      | .int m => n == m && 1 ≤ n && n ≤ 64
      | _ => false)
    | .bool => (match S with
      | .bool => true
      | _ => false)
    | .bytes k => (match S with
      | .bits m => k * 8 == m
      | _ => false)
    | .ptr _ t => (match S with
      | .goPtr s => agreeb env senv f t s
      | _ => false)
    | .struct fs => (match S with
      | .seq sfs => agreeFields env senv f fs sfs
      | _ => false)
    | .sum cs => (match S with
      | .sum scs => agreeCtors env senv f cs scs
      | _ => false)
    | .named id => (match S with
      | .named n => (match env id, senv n with
        | some t, some s => agreeb env senv f t s
        | _, _ => false)
      | _ => false)
    | .maybe t => (match S with
      | .maybe s => agreeb env senv f t s
      | _ => false)
    | .either l r => (match S with
      | .either sl sr => agreeb env senv f l sl && agreeb env senv f r sr
      | _ => false)
    | .eitherRef t => (match S with
      | .either sl sr => agreeb env senv f t sl && agreeRef env senv f t sr
      | _ => false)
    | .refT t => agreeRef env senv f t S
    | .prim p => agreePrim p S
    | .highload => (match S with
      | .highloadDict => true
      | _ => false)
    | .chain e => (match S with
      | .chainOf s => agreeb env senv f e s
      | _ => false)
    | .dictE k t => (match S with
      | .hashmapE n sk st => keyWidth k == some n && agreeb env senv f k sk && agreeb env senv f t st
      | _ => false)
    | _ => false
/-- the content `t` of a referenced cell against `^S` / `^Cell` -/
def agreeRef (env : Env) (senv : SEnv) : Nat → Ty → SType → Bool
  | 0, _, _ => false
  | f + 1, t, S =>
    match S with
    | .ref s => agreeb env senv f t s
    | .cellRef => t.isCell
    | _ => false
def agreeField (env : Env) (senv : SEnv) : Nat → FieldTag → Ty → SType → Bool
  | 0, _, _, _ => false
  | f + 1, ft, t, s =>
    if t.isMagic then magicAgree ft t s
    else match ft with
      | .plain => agreeb env senv f t s
      | .ref => agreeRef env senv f t s
      | .maybe => (match t with
        | .ptr _ t' => (match s with
          | .maybe s' => agreeb env senv f t' s'
          | _ => false)
        | _ => false)
      | .maybeRef => (match t with
        | .ptr _ t' => (match s with
          | .maybe sm => agreeRef env senv f t' sm
          | _ => false)
        | _ => false)
      | .bad => false
def agreeFields (env : Env) (senv : SEnv) : Nat → Fields → SFields → Bool
  | 0, _, _ => false
  | _ + 1, .nil, .nil => true
  | f + 1, .cons gn ft t rest, .cons sn s srest =>
    nameAgrees gn sn && agreeField env senv f ft t s && agreeFields env senv f rest srest
  | _ + 1, _, _ => false
def agreeCtors (env : Env) (senv : SEnv) : Nat → Ctors → SCtors → Bool
  | 0, _, _ => false
  | _ + 1, .nil, .nil => true
  | f + 1, .cons name tg t rest, .cons _ bits g s srest =>
    (match tg with
      | some tag => tagAgrees tag bits
      | none => false) && name == g && agreeb env senv f t s && agreeCtors env senv f rest srest
  | _ + 1, _, _ => false
end

def agreeFuel : Nat := 64

/-- the regenerated descriptor implements the transcribed schema -/
def implementsSpec (env : Env) (T : Ty) (S : SType) : Bool := agreeb env senv agreeFuel T S

end Tongo.Tlb.Spec
