import TongoModel.Tlb.Enc
import TongoModel.Tlb.Dec
/-! Decidable well-formedness of type descriptors (`wfb`) and the value domain (`inDom`) under which the round-trip
theorem of TongoProofs/C03.lean holds. Everything here is Bool-valued and structurally recursive so that the
regenerated obligations `wf_<T>` are closed by `decide`.

`wfb` contains: constructor tags parse, fit 64 bits and are pairwise PREFIX-FREE within each sum (decodeSumType takes
the FIRST match in field order, so a shorter overlapping tag at any position shadows or is shadowed); widths within
kind; `maybe`/`maybe^` only on pointers; Magic only as a plainly tagged struct field; types that swallow the rest of
the cell (Any, SnakeData, …) only in tail position; types that are a whole cell (boc.Cell, W5Actions) only directly
under a reference; `named` targets exist; no unmodelled custom codec. -/
namespace Tongo.Tlb
open Tongo

def envOfList (l : List Ty) : Env := fun id => l[id]?

/-- `a` is a prefix of `b` as bit strings (tags are compared on their written bits) -/
def Tag.isPrefix (a b : Tag) : Bool :=
  a.len ≤ b.len && (b.val / 2 ^ (b.len - a.len) == a.val)

def Tag.ok (t : Tag) : Bool := t.len ≤ 64 && t.val < 2 ^ t.len

def Ctors.tags : Ctors → List (Option Tag)
  | .nil => []
  | .cons _ tg _ rest => tg :: rest.tags

/-- no tag of the list is a prefix of `t` and `t` is a prefix of none -/
def tagFreeOf (t : Tag) : List Tag → Bool
  | [] => true
  | u :: us => !t.isPrefix u && !u.isPrefix t && tagFreeOf t us

def prefixFree : List Tag → Bool
  | [] => true
  | t :: ts => tagFreeOf t ts && prefixFree ts

/-- hand-written codecs that read everything that is left in the cell: only allowed in tail position -/
def Prim.greedy : Prim → Bool
  | .any | .snake | .bytesSnake | .text | .payloadV1toV4 => true
  | _ => false

/-- a whole-cell type: only allowed as the direct content of a reference -/
def Ty.whole : Ty → Bool
  | .cell => true
  | .prim .w5Actions => true
  | .ptr _ .cell => true
  | .ptr _ (.prim .w5Actions) => true
  | _ => false

mutual
/-- may a value of the type swallow the rest of the cell? (`true` when the fuel runs out: conservative) -/
def greedyb (env : Env) : Nat → Ty → Bool
  | 0, _ => true
  | fuel + 1, T =>
    match T with
    | .ptr _ t => greedyb env fuel t
    | .struct fs => greedyFields env fuel fs
    | .sum cs => greedyCtors env fuel cs
    | .named id => match env id with
      | some t => greedyb env fuel t
      | none => true
    | .maybe t => greedyb env fuel t
    | .either l r => greedyb env fuel l || greedyb env fuel r
    | .eitherRef t => greedyb env fuel t
    | .prim p => p.greedy
    | .cell | .opaque _ | .vmStack _ | .dict _ _ | .chain _ | .dictAug _ _ _ | .custom _ _ _ | .binTree _ => true
    | _ => false
def greedyFields (env : Env) : Nat → Fields → Bool
  | 0, _ => true
  | _ + 1, .nil => false
  | fuel + 1, .cons _ ft t rest =>
    (match ft with
      | .plain | .maybe => greedyb env fuel t
      | _ => false) || greedyFields env fuel rest
def greedyCtors (env : Env) : Nat → Ctors → Bool
  | 0, _ => true
  | _ + 1, .nil => false
  | fuel + 1, .cons _ _ t rest => greedyb env fuel t || greedyCtors env fuel rest
end

def greedyFuel : Nat := 48

def Fields.isNil : Fields → Bool
  | .nil => true
  | _ => false

def Ty.isPtr : Ty → Bool
  | .ptr _ _ => true
  | _ => false
def Ty.isMagic : Ty → Bool
  | .magic _ => true
  | _ => false

/-- hand-written codecs whose round-trip lemma (`CodecOK`) is proved in TongoProofs/Lemmas/TlbPrims.lean; the types
that contain one of the others are pinned as not covered by the generic theorem (harness/tlbx/nonwf.go) -/
def Prim.proved : Prim → Bool
  | .unary | .any | .varUint _ | .bigUint _ | .bigInt _ | .grams | .signedCoins | .fixedText | .anycast
  | .msgAddress | .accountStatus | .accStatusChange | .computeSkipReason | .vmCellSlice | .payloadV1toV4
  | .snake | .bytesSnake | .text | .addrWc => true
  | _ => false

def Prim.wf : Prim → Bool
  | .varUint n => 1 ≤ n && n ≤ 32
  | .bigUint n => 1 ≤ n && n ≤ 1023
  | .bigInt n => 1 ≤ n && n ≤ 1023
  | _ => true

/-- well-formedness of the content of a referenced cell, given the inline verdict -/
def wfRefOf (t : Ty) (inl : Bool) : Bool :=
  match t with
  | .cell => true
  | .ptr _ .cell => true
  | .prim .w5Actions => true
  | .ptr _ (.prim .w5Actions) => true
  | _ => inl

mutual
/-- well-formedness of a type in inline position -/
def wfb (env : Env) : Ty → Bool
  | .uint n => n ≤ 64
  | .int n => 1 ≤ n && n ≤ 64
  | .bool => true
  | .bytes _ => true
  | .cell => false                       -- only as the whole content of a reference (see `wfRefOf`)
  | .ptr _ t => wfb env t
  | .struct fs => wfFields env fs
  | .sum cs =>
    let tags := cs.tags
    tags.all (·.isSome) && (tags.filterMap id).all Tag.ok && prefixFree (tags.filterMap id) && wfCtors env cs
  | .named id => (match env id with
    | some (.struct _) | some (.sum _) => true
    | _ => false)
  | .magic _ => false                    -- only as a plainly tagged struct field (see `wfFields`)
  | .maybe t => wfb env t
  | .either l r => wfb env l && wfb env r
  | .eitherRef t => wfb env t
  | .refT t => wfRefOf t (wfb env t)
  | .prim p => p.wf && p.proved
  | .vmStack _ => false                  -- decode returns the reversed list: see `vmstack_convention`
  | .dictE k t => (keyWidth k).isSome && wfb env k && wfb env t
  | .dict k t => (keyWidth k).isSome && wfb env k && wfb env t
  | .highload => true
  | .dictAugE _ _ _ | .dictAug _ _ _ | .custom _ _ _ | .binTree _ => false   -- decode-side models: no round-trip claim
  | .chain _ => false                    -- takes the next reference if there is one: outside the greedy/non-greedy split
  | .encErr _ => true
  | .opaque _ => false
def wfFields (env : Env) : Fields → Bool
  | .nil => true
  | .cons _ ft t rest =>
    (match ft, t with
      | .plain, .magic (some tg) => tg.ok
      | _, .magic _ => false
      | .plain, t => wfb env t && (!greedyb env greedyFuel t || rest.isNil)
      | .ref, t => wfRefOf t (wfb env t)
      | .maybe, .ptr _ t => wfb env t && (!greedyb env greedyFuel t || rest.isNil)
      | .maybeRef, .ptr m t => wfRefOf (.ptr m t) (wfb env t)
      | _, _ => false) && wfFields env rest
def wfCtors (env : Env) : Ctors → Bool
  | .nil => true
  | .cons _ _ t rest => wfb env t && wfCtors env rest
end

/-- obligation generated per Go type: well formed as the content of a cell (`tlb.Marshal` into a new cell) -/
def wfTop (env : Env) (t : Ty) : Bool := wfRefOf t (wfb env t)

def envOk (env : Env) (l : List Ty) : Bool := l.all fun t => wfTop env t

/-! ### value domain -/
def cellOk : Cell → Bool
  | .mk ty _ bits refs => ty != tyPruned && bits.length ≤ cellBits && refs.length ≤ cellRefs

def anyOk : Cell → Bool
  | .mk ty mask bits refs => ty == 0 && mask == 0 && bits.length ≤ cellBits && refs.length ≤ cellRefs

def Prim.anycastDom : Val → Bool
  | .cons (.int d) (.cons (.int p) .nil) => 1 ≤ d && d ≤ 30 && 0 ≤ p && p < 2 ^ d.toNat
  | _ => false

def Prim.maybeAnycastDom : Val → Bool
  | .none => true
  | .cons a .nil => Prim.anycastDom a
  | _ => false

/-- wallet v1..v4 payload: (^msg, mode) pairs with present message cells and byte-sized modes -/
def Prim.payloadDom : Val → Bool
  | .nil => true
  | .cons (.cons (.cons (.cell c) .nil) (.cons (.int mode) .nil)) rest =>
    cellOk c && 0 ≤ mode && mode < 256 && Prim.payloadDom rest
  | _ => false

/-- wallet v5 out-list: (#, mode, ^msg) triples; the message cell is neither a library nor a pruned-branch cell -/
def Prim.w5Dom : Val → Bool
  | .nil => true
  | .cons (.cons .magic (.cons (.int mode) (.cons (.cons (.cell c) .nil) .nil))) rest =>
    cellOk c && c.ty != tyLibrary && 0 ≤ mode && mode < 256 && Prim.w5Dom rest
  | _ => false

def Prim.inDom (p : Prim) (v : Val) : Bool :=
  match p, v with
  | .unary, .int n => 0 ≤ n
  | .any, .cell c => anyOk c
  | .varUint n, .int i => 0 ≤ i && natBytesLen i.toNat ≤ n - 1
  | .bigUint n, .int i => 0 ≤ i && i < 2 ^ n
  | .bigInt n, .int i => -(2 ^ (n - 1)) ≤ i && i < 2 ^ (n - 1)
  | .addrWc, .cons (.int wc) (.cons (.bytes addr) .nil) => -128 ≤ wc && wc < 128 && addr.length == 32
  | .grams, .int i => 0 ≤ i && i < 2 ^ 64
  | .signedCoins, .int i => -(2 ^ 63) ≤ i && i < 2 ^ 63
  | .snake, .bits _ => true
  | .bytesSnake, .bytes _ => true
  | .text, .bytes bs => Prim.utf8Valid bs
  | .fixedText, .bytes bs => bs.length < 256
  | .anycast, v => Prim.anycastDom v
  | .msgAddress, .cons (.sym "AddrNone") (.cons .nil .nil) => true
  | .msgAddress, .cons (.sym "AddrExtern") (.cons (.cons (.bits bs) .nil) .nil) => bs.length ≤ 511
  | .msgAddress, .cons (.sym "AddrStd") (.cons (.cons a (.cons (.int wc) (.cons (.bytes addr) .nil))) .nil) =>
    Prim.maybeAnycastDom a && -128 ≤ wc && wc < 128 && addr.length == 32
  | .msgAddress, .cons (.sym "AddrVar")
      (.cons (.cons (.cons a (.cons (.int len) (.cons (.int wc) (.cons (.bits bs) .nil)))) .nil) .nil) =>
    Prim.maybeAnycastDom a && len == bs.length && bs.length ≤ 511 && -(2 ^ 31) ≤ wc && wc < 2 ^ 31
  | .accountStatus, .bytes bs =>
    bs == Prim.s_uninit || bs == Prim.s_frozen || bs == Prim.s_active
      || bs == Prim.s_nonexist
  | .accStatusChange, .bytes bs =>
    bs == Prim.s_acst_unchanged || bs == Prim.s_acst_frozen || bs == Prim.s_acst_deleted
  | .computeSkipReason, .bytes bs =>
    bs == Prim.s_cskip_no_state || bs == Prim.s_cskip_bad_state
      || bs == Prim.s_cskip_no_gas || bs == Prim.s_cskip_suspended
  | .payloadV1toV4, v => Prim.valLen v ≤ 4 && Prim.payloadDom v
  | .w5Actions, v => Prim.w5Dom v
  | .vmCellSlice, .cons (.cons (.cell c) .nil) (.cons (.int a) (.cons (.int b) (.cons (.int x) (.cons (.int y) .nil)))) =>
    cellOk c && 0 ≤ a && a ≤ b && 0 ≤ x && x ≤ y
  | _, _ => false

/-- a boc.Cell held through a pointer (`*boc.Cell`) must not be a library cell: the decoder refuses those -/
def ptrCellOk (t : Ty) (x : Val) : Bool :=
  match t, x with
  | .cell, .cell c => c.ty != tyLibrary
  | _, _ => true

def Val.isList : Val → Bool
  | .nil => true
  | .cons _ t => Val.isList t
  | _ => false

/-- the canonical dump of a dictionary: `()` when empty, else `(keys|values)` with non-empty proper lists -/
def dictShapeOk (v : Val) : Bool :=
  match v with
  | .nil => true
  | .cons ks (.cons vs .nil) => Val.isList ks && Val.isList vs && !ks.toList.isEmpty
  | _ => false

/-- strictly ascending in the order of key bits -/
def strictlyAscending : List Hashmap.Key → Bool
  | [] => true
  | k :: rest => rest.all (fun k' => Hashmap.lexLt k k') && strictlyAscending rest

/-- domain of a dictionary value, given the domains and the encoders of its key and value types: as many values as
keys, every key and value in its domain; the keys listed in strictly ascending order of their encoded bits (what the
decoder returns); every value fits a leaf next to a full-width label -/
def dictDom (kw : Option Nat) (kin vin : Val → Bool) (kenc venc : Val → Outcome Builder) (v : Val) : Bool :=
  match dictParts v, kw with
  | some (ks, vs), some n =>
    ks.length == vs.length && dictShapeOk v &&
    ks.all kin && vs.all vin &&
    ks.all (fun kv => match kenc kv with
      | .ok kb => kb.refs.isEmpty
      | _ => false) &&
    (match mapMOutcome (fun kv => (kenc kv).bind fun kb => .ok kb.bits) ks with
      | .ok kbits => kbits.all (·.length == n) && strictlyAscending kbits
      | _ => false) &&
    vs.all (fun x => match venc x with
      | .ok vb => vb.bits.length + n + 2 + Hashmap.minBitsRequired n ≤ 1023 && vb.refs.length ≤ 4
      | _ => false)
  | _, _ => false

def Val.isNil : Val → Bool
  | .nil => true
  | _ => false

mutual
/-- the value is in the domain of the type: it fits the TL-B widths and the Go representation -/
def inDom (env : Env) : Nat → Ty → Val → Bool
  | 0, _, _ => false
  | fuel + 1, T, v =>
    match T with
    | .uint n => (match v with
      | .int i => 0 ≤ i && i < 2 ^ n
      | _ => false)
    | .int n => (match v with
      | .int i => -(2 ^ (n - 1)) ≤ i && i < 2 ^ (n - 1)
      | _ => false)
    | .bool => (match v with
      | .bool _ => true
      | _ => false)
    | .bytes n => (match v with
      | .bytes bs => bs.length == n
      | _ => false)
    | .cell => (match v with
      | .cell c => cellOk c
      | _ => false)
    | .ptr _ t => (match v with
      | .cons x .nil => inDom env fuel t x && ptrCellOk t x
      | _ => false)
    | .struct fs => inDomFields env fuel fs v
    | .sum cs => (match v with
      | .cons (.sym name) (.cons x .nil) =>
        name != "" && (match cs.find name with
          | some (_, t) => inDom env fuel t x
          | none => false)
      | _ => false)
    | .named id => (match env id with
      | some t => inDom env fuel t v
      | none => false)
    | .maybe t => (match v with
      | .none => true
      | .cons x .nil => inDom env fuel t x
      | _ => false)
    | .either l r => (match v with
      | .cons (.sym side) (.cons x .nil) =>
        if side == "R" then inDom env fuel r x else side == "L" && inDom env fuel l x
      | _ => false)
    | .eitherRef t => (match v with
      | .cons (.sym side) (.cons x .nil) => (side == "R" || side == "L") && inDom env fuel t x
      | _ => false)
    | .refT t => inDom env fuel t v
    | .prim p => p.inDom v
    | .dictE k t => dictDom (keyWidth k) (fun x => inDom env fuel k x) (fun x => inDom env fuel t x)
        (fun x => encode env fuel k x Builder.empty) (fun x => encode env fuel t x Builder.empty) v
    | .dict k t => dictDom (keyWidth k) (fun x => inDom env fuel k x) (fun x => inDom env fuel t x)
        (fun x => encode env fuel k x Builder.empty) (fun x => encode env fuel t x Builder.empty) v && !v.isNil
    | .highload => Prim.valLen v ≤ 254 && Prim.payloadDom v && (match hlToDict v with
      | some d => inDom env fuel (.dictE (.uint 16) (.prim .any)) d
      | none => false)
    | .chain e => (match v with
      | .cons x rest => inDom env fuel e x && (rest.isNil || inDom env fuel (.chain e) rest)
      | _ => false)
    | .encErr _ => true
    | _ => false
/-- domain of one struct field (mirrors the fuel use of `encodeField`) -/
def inDomField (env : Env) : Nat → FieldTag → Ty → Val → Bool
  | 0, _, _, _ => false
  | fuel + 1, ft, t, v =>
    match ft, t, v with
    | _, .magic _, .magic => true
    | .maybe, _, .none => true
    | .maybeRef, _, .none => true
    | _, t, v => inDom env fuel t v
def inDomFields (env : Env) : Nat → Fields → Val → Bool
  | 0, _, _ => false
  | _ + 1, .nil, .nil => true
  | fuel + 1, .cons _ ft t rest, .cons v vs => inDomField env fuel ft t v && inDomFields env fuel rest vs
  | _ + 1, _, _ => false
end

end Tongo.Tlb
