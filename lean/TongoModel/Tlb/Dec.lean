import TongoModel.Tlb.Prims
/-! Model of tlb/decoder.go: `decode` (library-cell entry check, parseTag handling incl. pruned-branch shortcut,
UnmarshalerTLB / tagValidator, kinds), `decodeBasicStruct`, `decodeSumType` with `compareWithSumTag` (FIRST match in
field order; not enough bits ⇒ no match) and the generic custom decoders (Maybe, Either, EitherRef, Ref, VmStack).
The decoder is the one built by `tlb.Unmarshal` / `tlb.NewDecoder()` without a library resolver. -/
namespace Tongo.Tlb
open Tongo Tongo.Bits

/-- zero value of a Go type (what a skipped pruned branch or an absent optional leaves behind) -/
def zeroVal (env : Env) : Nat → Ty → Val
  | 0, _ => .nil
  | fuel + 1, T =>
    match T with
    | .uint _ | .int _ => .int 0
    | .magic _ => .magic
    | .bool => .bool false
    | .bytes n => .bytes (List.replicate n 0)
    | .cell => .cell (.mk 0 0 [] [])
    | .ptr _ _ => .none
    | .struct fs => zeroFields env fuel fs
    | .sum _ => Val.ctor "" .nil
    | .named id => match env id with
      | some t => zeroVal env fuel t
      | none => .nil
    | .maybe _ => .none
    | .either l _ => Val.ctor "L" (zeroVal env fuel l)
    | .eitherRef t => Val.ctor "L" (zeroVal env fuel t)
    | .refT t => zeroVal env fuel t
    | .prim p => Prim.zero p
    | .vmStack _ | .dictE _ _ | .dict _ _ | .chain _ | .highload => .nil
    | .dictAug _ _ _ => Val.list [.nil, .nil]
    | .binTree _ => Val.list [.nil]
    | .dictAugE _ _ x => Val.list [.nil, .nil, zeroVal env fuel x]
    | .custom _ body _ => zeroVal env fuel body
    | .encErr _ | .opaque _ => .nil
where zeroFields (env : Env) : Nat → Fields → Val
  | 0, _ => .nil
  | _ + 1, .nil => .nil
  | fuel + 1, .cons _ _ t rest => .cons (zeroVal env fuel t) (zeroFields env fuel rest)

/-- what an absent `maybe` / `maybe^` field leaves behind: the untouched zero value (a nil pointer) -/
def absentVal (env : Env) (fuel : Nat) (T : Ty) : Val :=
  match T with
  | .ptr _ _ => .none
  | _ => zeroVal env fuel T

/-- Magic.ValidateTag (after the `fix:` "Magic.ValidateTag returns the error of the read"): the tag is read and
compared. The number the decoder stores into the field (the tag's value) is not part of the value: the field is dumped
as `#` on both sides (tlb.Transaction's hand decoder, for one, leaves it 0). -/
def decodeMagic (tg : Option Tag) (s : Slice) : Outcome (Val × Slice) :=
  match tg with
  | none => .err "unsupported tag"
  | some t => do
    let (y, s') ← s.readUint t.len
    if t.val ≠ y then .err "magic prefix not found" else .ok (.magic, s')

/-- Magic.ValidateTag as shipped: the error of `ReadUint` was dropped, so a failed read counted as the value 0 and
left the cursor where it was — a tag whose value is 0 (`shardident$00`, `msg_metadata#0`, `#00`, …) accepted a cell
that ends before the tag (witness `magic_orig_defect`). -/
def decodeMagicOrig (tg : Option Tag) (s : Slice) : Outcome (Val × Slice) :=
  match tg with
  | none => .err "unsupported tag"
  | some t =>
    let (y, s') := match s.readUint t.len with
      | .ok r => r
      | _ => (0, s)
    if t.val ≠ y then .err "magic prefix not found" else .ok (.magic, s')

/-- what `decode` does on entry when the current cell is a library cell and no resolver is configured; `viaPtr`:
the Go value is a pointer to the type (always the case for `Unmarshal(c, &x)`) -/
def libraryEntry (T : Ty) (s : Slice) : Outcome (Val × Slice) :=
  match T with
  | .cell => .ok (.cell s.toCell, s)
  | .prim .any => .ok (.cell s.toCell, s)
  | _ => .err "library cell decoding is not configured properly"

/-- decodeSumType + compareWithSumTag: the FIRST constructor in field order whose tag equals the next bits (a tag
longer than what is left does not match); returns the constructor, its payload type and the tag length to skip -/
def selectCtor : Ctors → List Bool → Outcome (String × Ty × Nat)
  | .nil, _ => .err "can not decode sumtype"
  | .cons name tg t rest, bits =>
    match tg with
    | none => .err "invalid tag"
    | some tag =>
      if bits.length < tag.len then selectCtor rest bits
      else if tag.len > 64 then .err "too much bits for uint64"
      else if tag.val = bitsToNat (bits.take tag.len) then .ok (name, t, tag.len)
      else selectCtor rest bits

/-- the value side of C05's codec parameter on the decoder side: `decoder.Unmarshal(leaf, &v)` on what is left of the
leaf cell after the label -/
def valueCodecDec (dec : Slice → Outcome (Val × Slice)) : Hashmap.Codec Val where
  enc _ := .err "decoder only"
  dec bits refs := (dec { bits := bits, refs := refs }).bind fun r => .ok r.1

/-- where the cursor of the current cell stands after Hashmap.UnmarshalTLB: behind the root label and the two
references of a fork, or behind the value of a root leaf (`dec`: the value decoder). -/
def dictRest (n : Nat) (dec : Slice → Outcome (Val × Slice)) (s : Slice) : Slice :=
  match Hashmap.loadLabel n n [] s.bits with
  | .ok (_, pfx, rest) =>
    if pfx.length < n then { s with bits := rest, refs := s.refs.drop 2 }
    else match dec { s with bits := rest } with
      | .ok (_, s') => s'
      | _ => { s with bits := [], refs := [] }
  | _ => { s with bits := [], refs := [] }

/-- HashmapE.UnmarshalTLB: Maybe ^(Hashmap n X); a pruned root decodes as the empty dictionary. `kdec`: the key decoder
on the key bits, `C`: the value codec for C05's tree decoder. -/
def decodeDictE (kw : Option Nat) (kdec : Hashmap.Key → Outcome Val) (C : Hashmap.Codec Val) (s : Slice) :
    Outcome (Val × Slice) := do
  let (ne, s) ← s.readBit
  if !ne then pure (.nil, s)
  else do
    let (r, s) ← s.nextRef
    let rs := Slice.ofCell r
    if rs.isPruned then pure (.nil, s)
    else match kw with
      | none => .err "bad key type"
      | some n => do
        let kvs ← Hashmap.unmarshal C n r
        let ks ← mapMOutcome (fun (kv : Hashmap.Key × Val) => kdec kv.1) kvs
        pure (dictVal ks (kvs.map (·.2)), s)

/-- Hashmap.UnmarshalTLB on the current cell (a pruned cell decodes as the empty map). The type counts as greedy
(`wfb` admits it in the last position only): the round-trip theorem says nothing about what follows it. -/
def decodeDict (kw : Option Nat) (kdec : Hashmap.Key → Outcome Val) (C : Hashmap.Codec Val)
    (vdec : Slice → Outcome (Val × Slice)) (s : Slice) : Outcome (Val × Slice) :=
  if s.isPruned then pure (.nil, s)
  else match kw with
    | none => .err "bad key type"
    | some n => do
      let kvs ← Hashmap.unmarshal C n s.toCell
      let ks ← mapMOutcome (fun (kv : Hashmap.Key × Val) => kdec kv.1) kvs
      pure (dictVal ks (kvs.map (·.2)), dictRest n vdec s)

/-! ### HashmapAug / HashmapAugE (decode side; the trees are C05's `mapInnerAug` / `unmarshalAugE`) -/

def emptied (s : Slice) : Slice := { s with bits := [], refs := [] }

/-- the extra decoder as the dictionary model wants it: the extra and what is left of the cell -/
def skipExtra (xdec : Slice → Outcome (Val × Slice)) : Hashmap.XDec Val := fun bits refs =>
  (xdec { bits := bits, refs := refs }).bind fun r => .ok (r.1, r.2.bits, r.2.refs)

/-- HashmapAugE.UnmarshalTLB = struct { M Maybe ^(HashmapAug n X Y); Extra Y }; dump: (keys|values|extra) (the tree of
inner extras has no accessor) -/
def decodeDictAugE (n : Nat) (kdec : Hashmap.Key → Outcome Val) (C : Hashmap.Codec Val)
    (xdec : Slice → Outcome (Val × Slice)) (s : Slice) : Outcome (Val × Slice) := do
  let (kvs, _, _) ← Hashmap.unmarshalAugE (skipExtra xdec) Val.nil C n s.toCell
  let ks ← mapMOutcome (fun (kv : Hashmap.Key × Val) => kdec kv.1) kvs
  let (ne, s1) ← s.readBit
  let s2 ← if ne then (s1.nextRef).bind fun r => .ok r.2 else .ok s1
  let (xv, s3) ← xdec s2
  pure (Val.list [Val.list ks, Val.list (kvs.map (·.2)), xv], s3)

/-- where the cursor stands after HashmapAug.UnmarshalTLB on the current cell -/
def dictAugRest (n : Nat) (xdec vdec : Slice → Outcome (Val × Slice)) (s : Slice) : Slice :=
  match Hashmap.loadLabel n n [] s.bits with
  | .ok (_, pfx, rest) =>
    if pfx.length < n then
      match xdec { s with bits := rest, refs := s.refs.drop 2 } with
      | .ok (_, s') => s'
      | _ => emptied s
    else match xdec { s with bits := rest } with
      | .ok (_, s1) => (match vdec s1 with
        | .ok (_, s2) => s2
        | _ => emptied s)
      | _ => emptied s
  | _ => emptied s

/-- HashmapAug.UnmarshalTLB on the current cell; dump: (keys|values) (the extras are not observable) -/
def decodeDictAug (n : Nat) (kdec : Hashmap.Key → Outcome Val) (C : Hashmap.Codec Val)
    (xdec vdec : Slice → Outcome (Val × Slice)) (s : Slice) : Outcome (Val × Slice) :=
  if s.isPruned then .ok (Val.list [.nil, .nil], s)
  else do
    let (kvs, _) ← Hashmap.mapInnerAug (skipExtra xdec) Val.nil C n (n + 1) n s.toCell []
    let ks ← mapMOutcome (fun (kv : Hashmap.Key × Val) => kdec kv.1) kvs
    pure (Val.list [Val.list ks, Val.list (kvs.map (·.2))], dictAugRest n xdec vdec s)

/-! ### BinTree -/

/-- decodeRecursiveBinTree: the leaf cells (cursor behind the `bt_leaf$0` bit), left to right -/
def binLeaves : Nat → Slice → Outcome (List Slice)
  | 0, _ => .err "fuel"
  | fuel + 1, s => do
    let (br, s) ← s.readBit
    if !br then pure [s]
    else do
      let (l, s) ← s.nextRef
      let ls ← binLeaves fuel (Slice.ofCell l)
      let (r, _) ← s.nextRef
      let rs ← binLeaves fuel (Slice.ofCell r)
      pure (ls ++ rs)

/-- BinTree.UnmarshalTLB; dump: ((v1|v2|…)) (a struct with the one field Values). The root leaf IS the current cell. -/
def decodeBinTree (fuel : Nat) (tdec : Slice → Outcome (Val × Slice)) (s : Slice) : Outcome (Val × Slice) := do
  let leaves ← binLeaves fuel s
  let vs ← mapMOutcome (fun l => (tdec l).bind fun r => .ok r.1) leaves
  let rest : Slice := match s.readBit with
    | .ok (false, s1) => (match tdec s1 with
      | .ok (_, s2) => s2
      | _ => emptied s)
    | .ok (true, s1) => { s1 with refs := s1.refs.drop 2 }
    | _ => emptied s
  pure (Val.list [Val.list vs], rest)

/-! ### hand-written decoders with flag-dependent layout (tlb/block.go, tlb/proof.go) -/

def Val.nth : Val → Nat → Option Val
  | .cons h _, 0 => Option.some h
  | .cons _ t, n + 1 => Val.nth t n
  | _, _ => Option.none

/-- the component types of a hand decoder are listed as plainly tagged fields -/
def Fields.nthTy : Fields → Nat → Option Ty
  | .cons _ .plain t _, 0 => some t
  | .cons _ _ _ rest, n + 1 => Fields.nthTy rest n
  | _, _ => none

def Ty.auxAt (aux : Ty) (i : Nat) : Outcome Ty :=
  match aux with
  | .struct fs => (match fs.nthTy i with
    | some t => .ok t
    | none => .err "bad descriptor")
  | _ => .err "bad descriptor"

def valBool (v : Option Val) : Outcome Bool :=
  match v with
  | some (.bool b) => .ok b
  | _ => .err "bad descriptor"

def valNat (v : Option Val) : Outcome Nat :=
  match v with
  | some (.int i) => .ok i.toNat
  | _ => .err "bad descriptor"

abbrev DecFn := Ty → Slice → Outcome (Val × Slice)

/-- BlkPrevInfo.UnmarshalTLB(c, isBlks): prev_blk_info$_ prev:ExtBlkRef | prev_blks_info$_ prev1:^ExtBlkRef
prev2:^ExtBlkRef, chosen by the caller's flag -/
def decBlkPrev (dec : DecFn) (ext : Ty) (isBlks : Bool) (c : Slice) : Outcome Val :=
  if isBlks then do
    let (r1, c) ← c.nextRef
    let (p1, _) ← dec ext (Slice.ofCell r1)
    let (r2, _) ← c.nextRef
    let (p2, _) ← dec ext (Slice.ofCell r2)
    pure (Val.ctor "PrevBlksInfo" (Val.some (Val.list [p1, p2])))
  else do
    let (p, _) ← dec ext c
    pure (Val.ctor "PrevBlkInfo" (Val.some (Val.list [p])))

/-- a component present only under a flag, read from the current cell: a pointer, nil when absent -/
def optHere (c : Bool) (dec : DecFn) (T : Ty) (s : Slice) : Outcome (Val × Slice) :=
  if c then (dec T s).bind fun r => .ok (Val.some r.1, r.2) else .ok (Val.none, s)

/-- a component present only under a flag, in the next referenced cell -/
def optRef (c : Bool) (f : Slice → Outcome Val) (s : Slice) : Outcome (Val × Slice) :=
  if c then (s.nextRef).bind fun r => (f (Slice.ofCell r.1)).bind fun v => .ok (Val.some v, r.2)
  else .ok (Val.none, s)

/-- a component present only under a flag, zero when absent -/
def orZero (c : Bool) (dec : DecFn) (zero : Ty → Val) (T : Ty) (s : Slice) : Outcome (Val × Slice) :=
  if c then dec T s else .ok (zero T, s)

def nthOr (v : Val) (i : Nat) : Outcome Val :=
  match v.nth i with
  | some p => .ok p
  | none => .err "bad descriptor"

/-- BlockInfo.UnmarshalTLB. aux = (header struct with the magic and BlockInfoPart | GlobalVersion | BlkMasterInfo |
ExtBlkRef). gen_software:flags . 0?GlobalVersion  master_ref:not_master?^BlkMasterInfo
prev_ref:^(BlkPrevInfo after_merge)  prev_vert_ref:vert_seqno_incr?^(BlkPrevInfo 0) -/
def decBlockInfo (dec : DecFn) (aux : Ty) (s : Slice) : Outcome (Val × Slice) := do
  let hdr ← aux.auxAt 0
  let gv ← aux.auxAt 1
  let bmi ← aux.auxAt 2
  let ext ← aux.auxAt 3
  let (d, s) ← dec hdr s
  let part ← nthOr d 1
  let notMaster ← valBool (part.nth 1)
  let afterMerge ← valBool (part.nth 2)
  let vert ← valBool (part.nth 8)
  let flags ← valNat (part.nth 9)
  let (gs, s) ← optHere (flags % 2 == 1) dec gv s
  let (mr, s) ← optRef notMaster (fun c => (dec bmi c).bind fun r => .ok r.1) s
  let (r, s) ← s.nextRef
  let prev ← decBlkPrev dec ext afterMerge (Slice.ofCell r)
  let (pv, s) ← optRef vert (fun c => decBlkPrev dec ext false c) s
  pure (Val.list [part, gs, mr, prev, pv], s)

def valueFlowV1 : Nat := 0xb8e48dfb
def valueFlowV2 : Nat := 0x3ebf98b7

def decFour (dec : DecFn) (cc : Ty) (g : Slice) : Outcome (Val × Val × Val × Val) := do
  let (a, g) ← dec cc g
  let (b, g) ← dec cc g
  let (c, g) ← dec cc g
  let (d, _) ← dec cc g
  pure (a, b, c, d)

/-- ValueFlow.UnmarshalTLB: value_flow#b8e48dfb (v1) | value_flow_v2#3ebf98b7 (with `burned`); aux = (CurrencyCollection) -/
def decValueFlow (dec : DecFn) (aux : Ty) (s : Slice) : Outcome (Val × Slice) := do
  let cc ← aux.auxAt 0
  let (tag, s) ← s.readUint 32
  if tag ≠ valueFlowV1 ∧ tag ≠ valueFlowV2 then .err "value flow invalid tag"
  else do
    let (g1, s) ← s.nextRef
    let (fees, s) ← dec cc s
    let (a, b, c, d) ← decFour dec cc (Slice.ofCell g1)
    let (burned, s) ← optHere (tag == valueFlowV2) dec cc s
    let (g2, s) ← s.nextRef
    let (e, f, g, h) ← decFour dec cc (Slice.ofCell g2)
    pure (Val.list [.magic, a, b, c, d, fees, burned, e, f, g, h], s)

/-- one side of split_state: a pruned side stays zero -/
def decSide (dec : DecFn) (zero : Ty → Val) (unsplit : Ty) (c : Cell) : Outcome Val :=
  if (Slice.ofCell c).isPruned then .ok (zero unsplit) else (dec unsplit (Slice.ofCell c)).bind fun r => .ok r.1

/-- ShardState.UnmarshalTLB: split_state#5f327da5 left:^ShardStateUnsplit right:^ShardStateUnsplit (a pruned side stays
zero) | shard_state#9023afe2 …; aux = (ShardStateUnsplit | ShardStateUnsplitData) -/
def decShardState (dec : DecFn) (zero : Ty → Val) (aux : Ty) (s : Slice) : Outcome (Val × Slice) := do
  let unsplit ← aux.auxAt 0
  let data ← aux.auxAt 1
  let (tag, s) ← s.readUint 32
  if tag = 0x5f327da5 then do
    let (c1, s) ← s.nextRef
    let l ← decSide dec zero unsplit c1
    let (c2, s) ← s.nextRef
    let r ← decSide dec zero unsplit c2
    pure (Val.ctor "SplitState" (Val.list [l, r]), s)
  else if tag = 0x9023afe2 then do
    let (d, s) ← dec data s
    pure (Val.ctor "UnsplitState" (Val.list [Val.list [.magic, d]]), s)
  else .err "invalid tag"

/-- McStateExtraOther.UnmarshalTLB: flags:(## 16) … block_create_stats:(flags . 0)?BlockCreateStats — tongo tests
`flags == 1`; aux = the six fields -/
def decMcStateExtraOther (dec : DecFn) (zero : Ty → Val) (aux : Ty) (s : Slice) : Outcome (Val × Slice) := do
  let vi ← aux.auxAt 1
  let pb ← aux.auxAt 2
  let akb ← aux.auxAt 3
  let lkb ← aux.auxAt 4
  let bcs ← aux.auxAt 5
  let (flags, s) ← s.readUint 16
  let (a, s) ← dec vi s
  let (b, s) ← dec pb s
  let (c, s) ← dec akb s
  let (d, s) ← dec lkb s
  let (e, s) ← orZero (flags == 1) dec zero bcs s
  pure (Val.list [.int flags, a, b, c, d, e], s)

/-- the optional reference of McBlockExtra: decoded when present, zero otherwise -/
def optRefZero (dec : DecFn) (zero : Ty → Val) (T : Ty) (s : Slice) : Outcome (Val × Slice) :=
  match s.nextRef with
  | .ok (c1, s') => (dec T (Slice.ofCell c1)).bind fun r => .ok (r.1, s')
  | .err _ => .ok (zero T, s)
  | .panic p => .panic p

/-- McBlockExtra.UnmarshalTLB: masterchain_block_extra#cca5 key_block:(## 1) shard_hashes:ShardHashes shard_fees:ShardFees
^[ … ] config:key_block?ConfigParams; the reference is optional for the decoder; aux = the six fields -/
def decMcBlockExtra (dec : DecFn) (zero : Ty → Val) (aux : Ty) (s : Slice) : Outcome (Val × Slice) := do
  let kb ← aux.auxAt 1
  let sh ← aux.auxAt 2
  let sf ← aux.auxAt 3
  let oth ← aux.auxAt 4
  let cfg ← aux.auxAt 5
  let (tag, s) ← s.readUint 16
  if tag ≠ 0xcca5 then .err "invalid tag"
  else do
    let (k, s) ← dec kb s
    let (a, s) ← dec sh s
    let (b, s) ← dec sf s
    let (o, s) ← optRefZero dec zero oth s
    let isKey ← valBool (some k)
    let (c, s) ← orZero isKey dec zero cfg s
    pure (Val.list [.magic, k, a, b, o, c], s)

/-- CryptoSignature.UnmarshalTLB: ed25519_signature#5 R:bits256 s:bits256 | chained_signature#f signed_cert:^SignedCertificate
temp_key_signature:CryptoSignatureSimple; aux = (CryptoSignatureSimpleData | SignedCertificate | CryptoSignatureSimple) -/
def decCryptoSignature (dec : DecFn) (aux : Ty) (s : Slice) : Outcome (Val × Slice) := do
  let data ← aux.auxAt 0
  let cert ← aux.auxAt 1
  let simple ← aux.auxAt 2
  let (tag, s) ← s.readUint 4
  if tag = 0x5 then do
    let (d, s) ← dec data s
    pure (Val.ctor "CryptoSignatureSimple" d, s)
  else if tag = 0xf then do
    let (c1, s) ← s.nextRef
    let (sc, _) ← dec cert (Slice.ofCell c1)
    let (tk, s) ← dec simple s
    pure (Val.ctor "CryptoSignature" (Val.list [Val.some sc, tk]), s)
  else .err "invalid tag"

def decodeCustom (dec : DecFn) (zero : Ty → Val) (id : String) (aux : Ty) (s : Slice) : Outcome (Val × Slice) :=
  if id = "tlb.BlockInfo" then decBlockInfo dec aux s
  else if id = "tlb.ValueFlow" then decValueFlow dec aux s
  else if id = "tlb.ShardState" then decShardState dec zero aux s
  else if id = "tlb.McStateExtraOther" then decMcStateExtraOther dec zero aux s
  else if id = "tlb.McBlockExtra" then decMcBlockExtra dec zero aux s
  else if id = "tlb.CryptoSignature" then decCryptoSignature dec aux s
  else .err "unmodelled"

mutual

def decodeField (env : Env) : Nat → FieldTag → Ty → Slice → Outcome (Val × Slice)
  | 0, _, _, _ => .err "fuel"
  | fuel + 1, ft, T, s =>
    if s.isLibrary then
      match T with
      | .ptr _ .cell => .ok (Val.some (.cell s.toCell), s)
      | .ptr _ (.prim .any) => .ok (Val.some (.cell s.toCell), s)
      | _ => .err "library cell decoding is not configured properly"
    else
    match ft with
    | .bad => .err "tag format is deprecated"
    | .plain =>
      match T with
      | .magic tg => decodeMagic tg s        -- tagValidator: the field's own tag
      | _ => decode env fuel T s
    | .maybe => do
      let (ex, s) ← s.readBit
      if !ex then pure (absentVal env fuel T, s)
      else match T with
        | .magic _ => .err "unsupported tag"
        | _ => decode env fuel T s
    | .maybeRef => do
      let (ex, s) ← s.readBit
      if !ex then pure (absentVal env fuel T, s)
      else do
        let (c, s) ← s.nextRef
        let cs := Slice.ofCell c
        if cs.isLibrary then .err "library cell as a ref is not implemented"
        else if cs.isPruned then pure (zeroVal env fuel T, s)
        else match T with
          | .magic _ => .err "unsupported tag"
          | _ => do
            let (v, _) ← decode env fuel T cs
            pure (v, s)
    | .ref => do
      let (c, s) ← s.nextRef
      let cs := Slice.ofCell c
      if cs.isLibrary then
        match T with
        | .cell => pure (.cell c, s)
        | _ => .err "library cell as a ref is not implemented"
      else if cs.isPruned then pure (zeroVal env fuel T, s)
      else match T with
        | .magic _ => .err "unsupported tag"
        | _ => do
          let (v, _) ← decode env fuel T cs
          pure (v, s)

def decode (env : Env) : Nat → Ty → Slice → Outcome (Val × Slice)
  | 0, _, _ => .err "fuel"
  | fuel + 1, T, s =>
    if s.isLibrary then libraryEntry T s
    else
    match T with
    | .uint n => do
      let (v, s) ← s.readUint n
      pure (.int v, s)
    | .int n => do
      let (v, s) ← s.readInt n
      pure (.int v, s)
    | .bool => do
      let (v, s) ← s.readBit
      pure (.bool v, s)
    | .bytes n => do
      let (v, s) ← s.readBytes n
      pure (.bytes v, s)
    | .cell => .ok (.cell s.toCell, s)              -- decodeCell: the cell itself, cursor not advanced
    | .ptr _ t => do
      let (v, s) ← decode env fuel t s
      pure (Val.some v, s)
    | .struct fs => decodeFields env fuel fs s
    | .sum cs =>
      match selectCtor cs s.bits with
      | .ok (name, t, len) => do
        let (v, s) ← decode env fuel t { s with bits := s.bits.drop len }
        pure (Val.ctor name v, s)
      | .err e => .err e
      | .panic p => .panic p
    | .named id =>
      match env id with
      | some t => decode env fuel t s
      | none => .err "unknown type"
    | .magic tg => decodeMagic tg s
    | .maybe t => do
      let (ex, s) ← s.readBit
      if ex then do
        let (v, s) ← decode env fuel t s
        pure (Val.some v, s)
      else pure (.none, s)
    | .either l r => do
      let (right, s) ← s.readBit
      if right then do
        let (v, s) ← decode env fuel r s
        pure (Val.ctor "R" v, s)
      else do
        let (v, s) ← decode env fuel l s
        pure (Val.ctor "L" v, s)
    | .eitherRef t => do
      let (right, s) ← s.readBit
      if right then do
        let (c, s) ← s.nextRef
        let (v, _) ← decode env fuel t (Slice.ofCell c)
        pure (Val.ctor "R" v, s)
      else do
        let (v, s) ← decode env fuel t s
        pure (Val.ctor "L" v, s)
    | .refT t => do
      let (c, s) ← s.nextRef
      let cs := Slice.ofCell c
      if cs.isPruned then pure (zeroVal env fuel t, s)
      else do
        let (v, _) ← decode env fuel t cs
        pure (v, s)
    | .prim p => Prim.dec p s
    | .vmStack e => do
      let (depth, s) ← s.readUint 24
      if depth = 0 then pure (.nil, s)
      else do
        let (vs, s) ← decodeStack env fuel e depth s
        pure (Val.list vs, s)
    | .dictE k t =>
      decodeDictE (keyWidth k) (fun key => (decode env fuel k { bits := key }).bind fun r => .ok r.1)
        (valueCodecDec (fun vs => decode env fuel t vs)) s
    | .dict k t =>
      decodeDict (keyWidth k) (fun key => (decode env fuel k { bits := key }).bind fun r => .ok r.1)
        (valueCodecDec (fun vs => decode env fuel t vs)) (fun vs => decode env fuel t vs) s
    | .chain e => do
      -- W5ExtendedActions.UnmarshalTLB: an element, then the next reference of the cell if there is one
      let (x, s1) ← decode env fuel e s
      match s1.nextRef with
      | .ok (next, s2) => do
        let (rest, _) ← decode env fuel (.chain e) (Slice.ofCell next)
        pure (.cons x rest, s2)
      | .err _ => pure (.cons x .nil, s1)
      | .panic p => .panic p
    | .highload => do
      let (d, s') ← decode env fuel (.dictE (.uint 16) (.prim .any)) s
      match dictParts d with
      | some (_, vs) => (match hlFromValues vs with
        | some r => pure (r, s')
        | none => .err "failed to read msg")
      | none => .err "bad dictionary"
    | .dictAugE k t x =>
      (match keyWidth k with
      | none => .err "bad key type"
      | some n => decodeDictAugE n
          (fun key => (decode env fuel k { bits := key }).bind fun r => .ok r.1)
          (valueCodecDec (fun vs => decode env fuel t vs)) (fun xs => decode env fuel x xs) s)
    | .dictAug k t x =>
      (match keyWidth k with
      | none => .err "bad key type"
      | some n => decodeDictAug n
          (fun key => (decode env fuel k { bits := key }).bind fun r => .ok r.1)
          (valueCodecDec (fun vs => decode env fuel t vs)) (fun xs => decode env fuel x xs)
          (fun vs => decode env fuel t vs) s)
    | .binTree t => decodeBinTree fuel (fun ts => decode env fuel t ts) s
    | .custom id _ aux => decodeCustom (fun T s => decode env fuel T s) (fun T => zeroVal env fuel T) id aux s
    | .encErr _ => .err "unmodelled"
    | .opaque _ => .err "unmodelled"

/-- decodeBasicStruct -/
def decodeFields (env : Env) : Nat → Fields → Slice → Outcome (Val × Slice)
  | 0, _, _ => .err "fuel"
  | _ + 1, .nil, s => .ok (.nil, s)
  | fuel + 1, .cons _ ft t rest, s => do
    let (v, s) ← decodeField env fuel ft t s
    let (vs, s) ← decodeFields env fuel rest s
    pure (.cons v vs, s)

/-- getStackListItems: the list comes out bottom-first -/
def decodeStack (env : Env) : Nat → Ty → Nat → Slice → Outcome (List Val × Slice)
  | 0, _, _, _ => .err "fuel"
  | fuel + 1, e, depth, s =>
    if depth = 0 then .ok ([], s)
    else do
      let (c, s) ← s.nextRef
      let (rest, _) ← decodeStack env fuel e (depth - 1) (Slice.ofCell c)
      let (tos, s) ← decode env fuel e s
      pure (rest ++ [tos], s)

end

end Tongo.Tlb
