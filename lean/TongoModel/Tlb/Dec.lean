import TongoModel.Tlb.Prims
/-! Model of tlb/decoder.go: `decode` (library-cell entry check, parseTag handling incl. pruned-branch shortcut,
UnmarshalerTLB / tagValidator, kinds), `decodeBasicStruct`, `decodeSumType` with `compareWithSumTag` (FIRST match in
field order; not enough bits ⇒ no match) and the generic custom decoders (Maybe, Either, EitherRef, Ref, VmStack).
The decoder is the one built by `tlb.Unmarshal` / `tlb.NewDecoder()` without a library resolver. -/
namespace Tongo.Tlb
open Tongo Tongo.Bits

/-- zero value of a Go type (what a skipped pruned branch or an absent optional leaves behind) -/
def zeroVal (env : Env) : Nat → Ty → Val
  | 0, _ => .nil
  | fuel + 1, T =>
    match T with
    | .uint _ | .int _ => .int 0
    | .magic _ => .magic
    | .bool => .bool false
    | .bytes n => .bytes (List.replicate n 0)
    | .cell => .cell (.mk 0 0 [] [])
    | .ptr _ _ => .none
    | .struct fs => zeroFields env fuel fs
    | .sum _ => Val.ctor "" .nil
    | .named id => match env id with
      | some t => zeroVal env fuel t
      | none => .nil
    | .maybe _ => .none
    | .either l _ => Val.ctor "L" (zeroVal env fuel l)
    | .eitherRef t => Val.ctor "L" (zeroVal env fuel t)
    | .refT t => zeroVal env fuel t
    | .prim p => Prim.zero p
    | .vmStack _ | .dictE _ _ | .dict _ _ | .chain _ | .highload => .nil
    | .encErr _ | .opaque _ => .nil
where zeroFields (env : Env) : Nat → Fields → Val
  | 0, _ => .nil
  | _ + 1, .nil => .nil
  | fuel + 1, .cons _ _ t rest => .cons (zeroVal env fuel t) (zeroFields env fuel rest)

/-- what an absent `maybe` / `maybe^` field leaves behind: the untouched zero value (a nil pointer) -/
def absentVal (env : Env) (fuel : Nat) (T : Ty) : Val :=
  match T with
  | .ptr _ _ => .none
  | _ => zeroVal env fuel T

/-- Magic.ValidateTag: a failed read yields 0 and leaves the cursor where it was. The number the decoder stores into
the field (the tag's value) is not part of the value: the field is dumped as `#` on both sides (tlb.Transaction's
hand decoder, for one, leaves it 0). -/
def decodeMagic (tg : Option Tag) (s : Slice) : Outcome (Val × Slice) :=
  match tg with
  | none => .err "unsupported tag"
  | some t =>
    let (y, s') := match s.readUint t.len with
      | .ok r => r
      | _ => (0, s)
    if t.val ≠ y then .err "magic prefix not found" else .ok (.magic, s')

/-- what `decode` does on entry when the current cell is a library cell and no resolver is configured; `viaPtr`:
the Go value is a pointer to the type (always the case for `Unmarshal(c, &x)`) -/
def libraryEntry (T : Ty) (s : Slice) : Outcome (Val × Slice) :=
  match T with
  | .cell => .ok (.cell s.toCell, s)
  | .prim .any => .ok (.cell s.toCell, s)
  | _ => .err "library cell decoding is not configured properly"

/-- decodeSumType + compareWithSumTag: the FIRST constructor in field order whose tag equals the next bits (a tag
longer than what is left does not match); returns the constructor, its payload type and the tag length to skip -/
def selectCtor : Ctors → List Bool → Outcome (String × Ty × Nat)
  | .nil, _ => .err "can not decode sumtype"
  | .cons name tg t rest, bits =>
    match tg with
    | none => .err "invalid tag"
    | some tag =>
      if bits.length < tag.len then selectCtor rest bits
      else if tag.len > 64 then .err "too much bits for uint64"
      else if tag.val = bitsToNat (bits.take tag.len) then .ok (name, t, tag.len)
      else selectCtor rest bits

/-- the value side of C05's codec parameter on the decoder side: `decoder.Unmarshal(leaf, &v)` on what is left of the
leaf cell after the label -/
def valueCodecDec (dec : Slice → Outcome (Val × Slice)) : Hashmap.Codec Val where
  enc _ := .err "decoder only"
  dec bits refs := (dec { bits := bits, refs := refs }).bind fun r => .ok r.1

/-- where the cursor of the current cell stands after Hashmap.UnmarshalTLB: behind the root label and the two
references of a fork, or behind the value of a root leaf (`dec`: the value decoder). -/
def dictRest (n : Nat) (dec : Slice → Outcome (Val × Slice)) (s : Slice) : Slice :=
  match Hashmap.loadLabel n n [] s.bits with
  | .ok (_, pfx, rest) =>
    if pfx.length < n then { s with bits := rest, refs := s.refs.drop 2 }
    else match dec { s with bits := rest } with
      | .ok (_, s') => s'
      | _ => { s with bits := [], refs := [] }
  | _ => { s with bits := [], refs := [] }

mutual

def decodeField (env : Env) : Nat → FieldTag → Ty → Slice → Outcome (Val × Slice)
  | 0, _, _, _ => .err "fuel"
  | fuel + 1, ft, T, s =>
    if s.isLibrary then
      match T with
      | .ptr _ .cell => .ok (Val.some (.cell s.toCell), s)
      | .ptr _ (.prim .any) => .ok (Val.some (.cell s.toCell), s)
      | _ => .err "library cell decoding is not configured properly"
    else
    match ft with
    | .bad => .err "tag format is deprecated"
    | .plain =>
      match T with
      | .magic tg => decodeMagic tg s        -- tagValidator: the field's own tag
      | _ => decode env fuel T s
    | .maybe => do
      let (ex, s) ← s.readBit
      if !ex then pure (absentVal env fuel T, s)
      else match T with
        | .magic _ => .err "unsupported tag"
        | _ => decode env fuel T s
    | .maybeRef => do
      let (ex, s) ← s.readBit
      if !ex then pure (absentVal env fuel T, s)
      else do
        let (c, s) ← s.nextRef
        let cs := Slice.ofCell c
        if cs.isLibrary then .err "library cell as a ref is not implemented"
        else if cs.isPruned then pure (zeroVal env fuel T, s)
        else match T with
          | .magic _ => .err "unsupported tag"
          | _ => do
            let (v, _) ← decode env fuel T cs
            pure (v, s)
    | .ref => do
      let (c, s) ← s.nextRef
      let cs := Slice.ofCell c
      if cs.isLibrary then
        match T with
        | .cell => pure (.cell c, s)
        | _ => .err "library cell as a ref is not implemented"
      else if cs.isPruned then pure (zeroVal env fuel T, s)
      else match T with
        | .magic _ => .err "unsupported tag"
        | _ => do
          let (v, _) ← decode env fuel T cs
          pure (v, s)

def decode (env : Env) : Nat → Ty → Slice → Outcome (Val × Slice)
  | 0, _, _ => .err "fuel"
  | fuel + 1, T, s =>
    if s.isLibrary then libraryEntry T s
    else
    match T with
    | .uint n => do
      let (v, s) ← s.readUint n
      pure (.int v, s)
    | .int n => do
      let (v, s) ← s.readInt n
      pure (.int v, s)
    | .bool => do
      let (v, s) ← s.readBit
      pure (.bool v, s)
    | .bytes n => do
      let (v, s) ← s.readBytes n
      pure (.bytes v, s)
    | .cell => .ok (.cell s.toCell, s)              -- decodeCell: the cell itself, cursor not advanced
    | .ptr _ t => do
      let (v, s) ← decode env fuel t s
      pure (Val.some v, s)
    | .struct fs => decodeFields env fuel fs s
    | .sum cs =>
      match selectCtor cs s.bits with
      | .ok (name, t, len) => do
        let (v, s) ← decode env fuel t { s with bits := s.bits.drop len }
        pure (Val.ctor name v, s)
      | .err e => .err e
      | .panic p => .panic p
    | .named id =>
      match env id with
      | some t => decode env fuel t s
      | none => .err "unknown type"
    | .magic tg => decodeMagic tg s
    | .maybe t => do
      let (ex, s) ← s.readBit
      if ex then do
        let (v, s) ← decode env fuel t s
        pure (Val.some v, s)
      else pure (.none, s)
    | .either l r => do
      let (right, s) ← s.readBit
      if right then do
        let (v, s) ← decode env fuel r s
        pure (Val.ctor "R" v, s)
      else do
        let (v, s) ← decode env fuel l s
        pure (Val.ctor "L" v, s)
    | .eitherRef t => do
      let (right, s) ← s.readBit
      if right then do
        let (c, s) ← s.nextRef
        let (v, _) ← decode env fuel t (Slice.ofCell c)
        pure (Val.ctor "R" v, s)
      else do
        let (v, s) ← decode env fuel t s
        pure (Val.ctor "L" v, s)
    | .refT t => do
      let (c, s) ← s.nextRef
      let cs := Slice.ofCell c
      if cs.isPruned then pure (zeroVal env fuel t, s)
      else do
        let (v, _) ← decode env fuel t cs
        pure (v, s)
    | .prim p => Prim.dec p s
    | .vmStack e => do
      let (depth, s) ← s.readUint 24
      if depth = 0 then pure (.nil, s)
      else do
        let (vs, s) ← decodeStack env fuel e depth s
        pure (Val.list vs, s)
    | .dictE k t => do
      -- HashmapE.UnmarshalTLB: Maybe ^(Hashmap n X); a pruned root decodes as the empty dictionary
      let (ne, s) ← s.readBit
      if !ne then pure (.nil, s)
      else do
        let (r, s) ← s.nextRef
        let rs := Slice.ofCell r
        if rs.isPruned then pure (.nil, s)
        else match keyWidth k with
          | none => .err "bad key type"
          | some n => do
            let kvs ← Hashmap.unmarshal (valueCodecDec (fun vs => decode env fuel t vs)) n r
            let ks ← mapMOutcome (fun (kv : Hashmap.Key × Val) =>
              (decode env fuel k { bits := kv.1 }).bind fun r => .ok r.1) kvs
            pure (dictVal ks (kvs.map (·.2)), s)
    | .dict k t =>
      -- Hashmap.UnmarshalTLB on the current cell (a pruned cell decodes as the empty map). The type counts as greedy
      -- (`wfb` admits it in the last position only): the round-trip theorem says nothing about what follows it.
      if s.isPruned then pure (.nil, s)
      else match keyWidth k with
        | none => .err "bad key type"
        | some n => do
          let kvs ← Hashmap.unmarshal (valueCodecDec (fun vs => decode env fuel t vs)) n s.toCell
          let ks ← mapMOutcome (fun (kv : Hashmap.Key × Val) =>
            (decode env fuel k { bits := kv.1 }).bind fun r => .ok r.1) kvs
          pure (dictVal ks (kvs.map (·.2)), dictRest n (fun vs => decode env fuel t vs) s)
    | .chain e => do
      -- W5ExtendedActions.UnmarshalTLB: an element, then the next reference of the cell if there is one
      let (x, s1) ← decode env fuel e s
      match s1.nextRef with
      | .ok (next, s2) => do
        let (rest, _) ← decode env fuel (.chain e) (Slice.ofCell next)
        pure (.cons x rest, s2)
      | .err _ => pure (.cons x .nil, s1)
      | .panic p => .panic p
    | .highload => do
      let (d, s') ← decode env fuel (.dictE (.uint 16) (.prim .any)) s
      match dictParts d with
      | some (_, vs) => (match hlFromValues vs with
        | some r => pure (r, s')
        | none => .err "failed to read msg")
      | none => .err "bad dictionary"
    | .encErr _ => .err "unmodelled"
    | .opaque _ => .err "unmodelled"

/-- decodeBasicStruct -/
def decodeFields (env : Env) : Nat → Fields → Slice → Outcome (Val × Slice)
  | 0, _, _ => .err "fuel"
  | _ + 1, .nil, s => .ok (.nil, s)
  | fuel + 1, .cons _ ft t rest, s => do
    let (v, s) ← decodeField env fuel ft t s
    let (vs, s) ← decodeFields env fuel rest s
    pure (.cons v vs, s)

/-- getStackListItems: the list comes out bottom-first -/
def decodeStack (env : Env) : Nat → Ty → Nat → Slice → Outcome (List Val × Slice)
  | 0, _, _, _ => .err "fuel"
  | fuel + 1, e, depth, s =>
    if depth = 0 then .ok ([], s)
    else do
      let (c, s) ← s.nextRef
      let (rest, _) ← decodeStack env fuel e (depth - 1) (Slice.ofCell c)
      let (tos, s) ← decode env fuel e s
      pure (rest ++ [tos], s)

end

end Tongo.Tlb
