import TongoModel.WalletMsg
/-! TON Connect server side (tonconnect/server.go, tonconnect/proof.go): the signed message layout, the payload
(HMAC-protected, time limited), `CheckProof` as decision logic in the exact order of the Go checks,
`compareStateInitWithAddress`, `ParseStateInit`, `CreateSignedProof`.

Parameters: `H` (SHA-256 in the code), `mac` (HMAC-SHA-256 keyed with the server secret), `sign`/`verify` (Ed25519).
Inputs that come from standard-library or already-covered parsers are given as their results: the base64 decoding of
the signature, the bag-of-cells parse of the state-init string (error or list of root cells), the answer of the
get-method executor. Strings are byte lists. Time is in nanoseconds; the clock reading is an input. -/
namespace Tongo.TonConnect
open Tongo Tongo.Bits Tongo.Wallet

/-! ### bytes -/

def beBytes (n : Nat) (v : Nat) : List UInt8 := (List.range n).map fun i => UInt8.ofNat (v / 256 ^ (n - 1 - i) % 256)
def leBytes (n : Nat) (v : Nat) : List UInt8 := (List.range n).map fun i => UInt8.ofNat (v / 256 ^ i % 256)
def beNat (bs : List UInt8) : Nat := bs.foldl (fun acc b => acc * 256 + b.toNat) 0

def asciiBytes (s : String) : List UInt8 := s.toList.map fun c => UInt8.ofNat c.toNat

/-- `defaultLifeTimeProof`, `defaultLifeTimePayload` (seconds) -/
def defaultLifeTimeProof : Int := 300
def defaultLifeTimePayload : Int := 300

def tonProofPrefix : List UInt8 := asciiBytes "ton-proof-item-v2/"
def tonConnectPrefix : List UInt8 := asciiBytes "ton-connect"

/-- Go `uint32(int32)` / `uint64(int64)` -/
def u32OfInt (x : Int) : Nat := (x % 4294967296).toNat
def u64OfInt (x : Int) : Nat := (x % 18446744073709551616).toNat
/-- Go `int64(uint64)` -/
def i64OfNat (n : Nat) : Int := if n % 18446744073709551616 < 9223372036854775808 then (n % 18446744073709551616 : Nat) else (n % 18446744073709551616 : Nat) - 18446744073709551616

/-! ### the message that is signed -/

structure Parsed where
  workchain : Int          -- int32
  address : List UInt8     -- hex-decoded, any length
  domain : List UInt8
  ts : Int                 -- int64
  payload : List UInt8     -- the payload STRING's bytes
  deriving Repr, DecidableEq

/-- the inner byte string of `createMessage` -/
def messageBytes (m : Parsed) : List UInt8 :=
  tonProofPrefix ++ beBytes 4 (u32OfInt m.workchain) ++ m.address ++ leBytes 4 (m.domain.length % 4294967296) ++ m.domain ++
    leBytes 8 (u64OfInt m.ts) ++ m.payload

/-- `createMessage`: `H(0xffff ++ "ton-connect" ++ H(messageBytes))` -/
def createMessage (H : List UInt8 → List UInt8) (m : Parsed) : List UInt8 :=
  H ([0xff, 0xff] ++ tonConnectPrefix ++ H (messageBytes m))

/-! ### parsing the textual fields (strconv.ParseInt base 10 / 32 bits, encoding/hex) -/

def isDigit (b : UInt8) : Bool := 48 ≤ b.toNat && b.toNat ≤ 57

/-- the optional sign of `strconv.ParseInt` -/
def signSplit : List UInt8 → Bool × List UInt8
  | 43 :: r => (false, r)
  | 45 :: r => (true, r)
  | s => (false, s)

/-- value of a digit string in base 10 -/
def decValue (ds : List UInt8) : Nat := ds.foldl (fun acc d => acc * 10 + (d.toNat - 48)) 0

/-- `strconv.ParseInt(s, 10, 32)`: optional sign, at least one digit, digits only, value within int32 -/
def parseInt32 (s : List UInt8) : Option Int :=
  if (signSplit s).2.isEmpty || !(signSplit s).2.all isDigit then none
  else if (signSplit s).1 then
    (if decValue (signSplit s).2 ≤ 2147483648 then some (-(decValue (signSplit s).2 : Int)) else none)
  else (if decValue (signSplit s).2 ≤ 2147483647 then some (decValue (signSplit s).2 : Int) else none)

def hexVal (b : UInt8) : Option Nat :=
  let n := b.toNat
  if 48 ≤ n ∧ n ≤ 57 then some (n - 48)
  else if 97 ≤ n ∧ n ≤ 102 then some (n - 87)
  else if 65 ≤ n ∧ n ≤ 70 then some (n - 55)
  else none

/-- `hex.DecodeString` -/
def hexDecode : List UInt8 → Option (List UInt8)
  | [] => some []
  | [_] => none
  | a :: b :: rest =>
    match hexVal a, hexVal b, hexDecode rest with
    | some x, some y, some r => some (UInt8.ofNat (x * 16 + y) :: r)
    | _, _, _ => none

/-- `strings.Split(s, ":")` -/
def splitColon (s : List UInt8) : List (List UInt8) :=
  s.foldr (fun b acc => if b = 58 then [] :: acc else match acc with
    | h :: t => (b :: h) :: t
    | [] => [[b]]) [[]]

/-! ### payload -/

/-- Go `int64` wrap-around -/
def wrap64 (x : Int) : Int := (x + 9223372036854775808) % 18446744073709551616 - 9223372036854775808

/-- `time.Unix(t, 0)` stores `t + 62135596800` seconds in an int64; for `t` within 62135596800 s of the largest int64
that sum wraps and the instant lands ~292 billion years in the past. `unixEff t` is the Unix time actually denoted. -/
def unixEff (t : Int) : Int := wrap64 (t + 62135596800) - 62135596800

/-- Go `time.Since(time.Unix(t, 0)) > time.Duration(life) * time.Second` with `now` in nanoseconds. (`Sub` saturates
at ±2⁶³ ns, which does not change a strict comparison with a smaller bound; the product on the right wraps.) -/
def olderThan (nowNs : Int) (t : Int) (life : Int) : Bool :=
  decide (nowNs - unixEff t * 1000000000 > wrap64 (life * 1000000000))

/-- `GeneratePayload` given the 8 random bytes and the clock: nonce ++ be64(unix(now + life ns)) ++ mac[:16], in hex.
(The Go code adds `life` NANOSECONDS to the clock here — `time.Duration(s.lifeTimePayload)` without `* time.Second` —
so the stored time is, to the second, the time of issue; `CheckPayload` allows `life` seconds from it.) -/
def generatePayload (mac : List UInt8 → List UInt8) (nonce : List UInt8) (nowNs life : Int) : List UInt8 :=
  let body := nonce.take 8 ++ List.replicate (8 - nonce.length) 0 ++ beBytes 8 (u64OfInt ((nowNs + life) / 1000000000))
  body ++ (mac body).take 16

def hexDigit (n : Nat) : UInt8 := UInt8.ofNat (if n < 10 then 48 + n else 87 + n)
def hexEncode (bs : List UInt8) : List UInt8 := bs.flatMap fun b => [hexDigit (b.toNat / 16), hexDigit (b.toNat % 16)]

/-- `CheckPayload(payload string)`: hex, 32 bytes, MAC over the first 16 bytes compared with bytes 16..32, expiry -/
def checkPayload (mac : List UInt8 → List UInt8) (nowNs life : Int) (payload : List UInt8) : Outcome Bool :=
  match hexDecode payload with
  | none => .err "hex"
  | some bs =>
    if bs.length ≠ 32 then .err "invalid payload length"
    else if bs.drop 16 ≠ (mac (bs.take 16)).take 16 then .err "invalid payload signature"
    else if olderThan nowNs (i64OfNat (beNat ((bs.drop 8).take 8))) life then .err "payload expired"
    else .ok true

/-! ### state-init -/

/-- result of `boc.DeserializeBocBase64(stateInit)` -/
inductive BocResult where
  | bocErr
  | roots (cells : List Cell)
  deriving Inhabited

/-- `compareStateInitWithAddress` -/
def compareStateInitWithAddress (H : List UInt8 → List UInt8) (addr : List UInt8) (b : BocResult) : Outcome Bool :=
  match b with
  | .bocErr => .err "failed to deserialize state init"
  | .roots [c] => do
    let h ← c.hashO? H
    pure (h == addr)
  | .roots _ => .err "invalid state init"

/-- `Maybe (## n)` / `Maybe TickTock` fields that are only skipped -/
def optSkip (r : CellR) (flag : Bool) (n : Nat) : Outcome CellR :=
  if flag then (r.readBits n).bind (fun x => .ok x.2) else .ok r

/-- `Maybe ^Cell` (`Maybe[Ref[boc.Cell]]`): a pruned branch in that position leaves the zero (empty) cell -/
def optRef (r : CellR) (flag : Bool) : Outcome (Option Cell × CellR) :=
  if flag then (r.nextRef).bind (fun x => .ok (some (if x.1.ty = tyPruned then Cell.ordinary [] [] else x.1), x.2))
  else .ok (none, r)

/-- tlb.StateInit decoded as far as ParseStateInit looks: code and data references -/
def decodeStateInit (c : Cell) : Outcome (Option Cell × Option Cell) :=
  if c.ty = tyLibrary then .err "library cell decoding is not configured properly"
  else do
    let (sd, r) ← (CellR.ofCell c).readBit
    let r ← optSkip r sd 5
    let (sp, r) ← r.readBit
    let r ← optSkip r sp 2
    let (hc, r) ← r.readBit
    let (code, r) ← optRef r hc
    let (hd, r) ← r.readBit
    let (data, r) ← optRef r hd
    let (lib, r) ← r.readBit
    if lib then (r.nextRef).bind (fun _ => .err "unmodelled: state-init with libraries")
    else pure (code, data)

/-- the public key the data layout of a known version holds. `ver` is the Go version number found for the code hash
(0..11: V1R1..V5R1, with 7 = V3R2Lockup). v3 AND v4 are read as `DataV3`. -/
def keyFromData (ver : Nat) (data : Cell) : Outcome (List UInt8) :=
  if data.ty = tyLibrary then .err "library cell decoding is not configured properly"
  else
    let r := CellR.ofCell data
    if ver ≤ 4 then do                        -- DataV1V2
      let (_, r) ← r.readBits 32
      let (k, _) ← r.readBits 256
      pure (bitsToBytes k)
    else if ver = 5 ∨ ver = 6 ∨ ver = 8 ∨ ver = 9 then do   -- DataV3
      let (_, r) ← r.readBits 64
      let (k, _) ← r.readBits 256
      pure (bitsToBytes k)
    else if ver = 10 then do                  -- DataV5Beta
      let (_, r) ← r.readBits 113
      let (k, r) ← r.readBits 256
      let (_, _) ← readHashmapE (fun r => (r.readUint 8).bind fun x => .ok x.1) 256 r
      pure (bitsToBytes k)
    else if ver = 11 then do                  -- DataV5R1
      let (_, r) ← r.readBits 65
      let (k, r) ← r.readBits 256
      let (_, _) ← readHashmapE (fun r => (r.readUint 1).bind fun x => .ok x.1) 256 r
      pure (bitsToBytes k)
    else .err "unsupported wallet version"    -- after the repair; see parseStateInitV0

/-- `ParseStateInit` (after the repairs): exactly one root, code and data present, code hash of a known wallet whose
data layout is understood. `known` maps code hashes to Go version numbers (`knownHashes`, V1R1..V5R1). -/
def parseStateInit (H : List UInt8 → List UInt8) (known : List (List UInt8 × Nat)) (b : BocResult) : Outcome (List UInt8) :=
  match b with
  | .bocErr => .err "boc"
  | .roots [c] => do
    let (code, data) ← decodeStateInit c
    match code, data with
    | some code, some data =>
      let h ← code.hashO? H
      match known.find? (fun p => p.1 == h) with
      | none => .err "unknown hash"
      | some (_, ver) => keyFromData ver data
    | _, _ => .err "state init without code or data"
  | .roots _ => .err "invalid state init"

/-- `ParseStateInit` as it was: `(nil, nil)` for several roots and for a missing code or data (Go returns the nil
`err` of the previous step), and the all-zero key with no error for the lockup wallet (a known hash without a case in
the version switch). The result `ok []` stands for the nil key. -/
def parseStateInitV0 (H : List UInt8 → List UInt8) (known : List (List UInt8 × Nat)) (b : BocResult) : Outcome (List UInt8) :=
  match b with
  | .bocErr => .err "boc"
  | .roots [c] => do
    let (code, data) ← decodeStateInit c
    match code, data with
    | some code, some data =>
      let h ← code.hashO? H
      match known.find? (fun p => p.1 == h) with
      | none => .err "unknown hash"
      | some (_, ver) => if ver = 7 then .ok (List.replicate 32 0) else keyFromData ver data
    | _, _ => .ok []
  | .roots _ => .ok []

/-! ### the get-method -/

/-- what `abi.GetPublicKey` + `getWalletPubKey` make of the executor's answer -/
inductive Getter where
  | fail                 -- executor error, exit code other than 0/1, undecodable stack
  | int (v : Int)        -- a single integer on the stack
  deriving Repr, DecidableEq, Inhabited

/-- minimal big-endian bytes of a natural (big.Int.Bytes) -/
def natBytes (n : Nat) : List UInt8 :=
  if n = 0 then [] else beBytes ((Nat.log2 n) / 8 + 1) n

/-- `getWalletPubKey`: 24..32 significant bytes, left padded to 32 -/
def getWalletPubKey : Getter → Outcome (List UInt8)
  | .fail => .err "get method"
  | .int v =>
    if (natBytes v.natAbs).length < 24 ∨ (natBytes v.natAbs).length > 32 then .err "invalid public key"
    else .ok (List.replicate (32 - (natBytes v.natAbs).length) 0 ++ natBytes v.natAbs)

/-! ### CheckProof -/

structure ProofIn where
  address : List UInt8                    -- tp.Address
  ts : Int                                -- tp.Proof.Timestamp
  domain : List UInt8
  signature : Option (List UInt8)         -- base64.StdEncoding.DecodeString(tp.Proof.Signature); none = error
  payload : List UInt8
  stateInitEmpty : Bool                   -- tp.Proof.StateInit == ""
  stateInit : BocResult                   -- boc.DeserializeBocBase64(tp.Proof.StateInit)
  deriving Inhabited

structure Env where
  nowNs : Int
  lifeProof : Int
  payloadOk : Bool                        -- verdict of the checkPayload callback
  domainOk : Option Bool                  -- verdict of the checkDomain callback; none = it returned an error
  getter : Getter
  known : List (List UInt8 × Nat)
  deriving Inhabited

/-- `StaticDomain(domain)`: the callback accepts exactly the configured string, byte for byte (no port stripping, no
case folding, no sub-domain matching, no Unicode normalisation) -/
def staticDomain (configured presented : List UInt8) : Bool := configured == presented

/-- `convertTonProofMessage` -/
def convertTonProofMessage (p : ProofIn) : Outcome Parsed :=
  match splitColon p.address with
  | [wcs, hx] =>
    match parseInt32 wcs with
    | none => .err "workchain"
    | some wc =>
      match hexDecode hx with
      | none => .err "hex"
      | some a =>
        match p.signature with
        | none => .err "base64"
        | some _ => .ok { workchain := wc, address := a, domain := p.domain, ts := p.ts, payload := p.payload }
  | _ => .err "invalid address param"

/-- `ton.ParseAccountID` on a string that `convertTonProofMessage` accepted (one colon): the raw form, with a short hex
part left-padded with zeros to 64 digits; the friendly-form fallback cannot succeed on a string with a colon -/
def parseAccountID (addr : List UInt8) : Outcome (Int × List UInt8) :=
  match splitColon addr with
  | [wcs, hx] =>
    match parseInt32 wcs, hexDecode (List.replicate (64 - hx.length) 48 ++ hx) with
    | some wc, some a => if a.length = 32 then .ok (wc, a) else .err "address len must be 32 bytes"
    | _, _ => .err "account id"
  | _ => .err "account id"

/-- `ed25519.Verify` panics unless the key has 32 bytes -/
def signatureVerify (verify : List UInt8 → List UInt8 → List UInt8 → Bool) (pk msg sig : List UInt8) : Outcome Bool :=
  if pk.length ≠ 32 then .panic "ed25519: bad public key length" else .ok (verify pk msg sig)

/-- the fallback of `CheckProof` when the get-method gives no key: the supplied state-init must hash to the account
address, then `ParseStateInit` -/
def keyFromStateInit (parse : BocResult → Outcome (List UInt8)) (H : List UInt8 → List UInt8) (acc : List UInt8)
    (p : ProofIn) : Outcome (List UInt8) :=
  if p.stateInitEmpty then .err "failed to get public key"
  else
    match compareStateInitWithAddress H acc p.stateInit with
    | .err e => .err e
    | .panic x => .panic x
    | .ok false => .err "failed to compare state init with address"
    | .ok true =>
      match parse p.stateInit with
      | .ok k => .ok k
      | .err _ => .err "failed to get public key"
      | .panic x => .panic x

/-- `getWalletPubKey`, falling back to the state-init on ANY error of the get-method path -/
def obtainKey (parse : BocResult → Outcome (List UInt8)) (H : List UInt8 → List UInt8) (env : Env) (acc : List UInt8)
    (p : ProofIn) : Outcome (List UInt8) :=
  match getWalletPubKey env.getter with
  | .ok k => .ok k
  | .panic x => .panic x
  | .err _ => keyFromStateInit parse H acc p

/-- `Server.CheckProof`, parametrised by the `ParseStateInit` in force: `ok pk` = `(true, pk, nil)` -/
def checkProofWith (parse : BocResult → Outcome (List UInt8)) (H : List UInt8 → List UInt8)
    (verify : List UInt8 → List UInt8 → List UInt8 → Bool) (env : Env) (p : ProofIn) : Outcome (List UInt8) :=
  if !env.payloadOk then .err "failed to verify payload"
  else
    match convertTonProofMessage p with
    | .err e => .err e
    | .panic x => .panic x
    | .ok parsed =>
      if olderThan env.nowNs parsed.ts env.lifeProof then .err "proof has been expired"
      else
        match env.domainOk with
        | none => .err "domain check failed"
        | some false => .err "invalid domain"
        | some true =>
          match parseAccountID p.address with
          | .err e => .err e
          | .panic x => .panic x
          | .ok (_, acc) =>
            match obtainKey parse H env acc p with
            | .err e => .err e
            | .panic x => .panic x
            | .ok pk =>
              match signatureVerify verify pk (createMessage H parsed) (p.signature.getD []) with
              | .ok true => .ok pk
              | .ok false => .err "failed to proof"
              | .err e => .err e
              | .panic x => .panic x

def checkProof (H : List UInt8 → List UInt8) (verify : List UInt8 → List UInt8 → List UInt8 → Bool) (env : Env) (p : ProofIn) :
    Outcome (List UInt8) :=
  checkProofWith (parseStateInit H env.known) H verify env p

def checkProofV0 (H : List UInt8 → List UInt8) (verify : List UInt8 → List UInt8 → List UInt8 → Bool) (env : Env) (p : ProofIn) :
    Outcome (List UInt8) :=
  checkProofWith (parseStateInitV0 H env.known) H verify env p

/-! ### client side -/

/-- the raw form `wc:hex` of an account id (`AccountID.ToRaw`) -/
def decimalBytes (n : Nat) : List UInt8 :=
  if n < 10 then [UInt8.ofNat (48 + n)] else decimalBytes (n / 10) ++ [UInt8.ofNat (48 + n % 10)]
decreasing_by omega
def rawAddress (wc : Int) (addr : List UInt8) : List UInt8 :=
  (if wc < 0 then [45] ++ decimalBytes wc.natAbs else decimalBytes wc.natAbs) ++ [58] ++ hexEncode addr

/-- `CreateSignedProof`: the proof for (payload, account, state-init, timestamp, domain) signed with `sk` -/
def createSignedProof (H : List UInt8 → List UInt8) (sign : List UInt8 → List UInt8 → List UInt8) (sk : List UInt8)
    (payload : List UInt8) (wc : Int) (addr : List UInt8) (stateInit : Cell) (ts : Int) (domain : List UInt8) : ProofIn :=
  let m : Parsed := { workchain := wc, address := addr, domain := domain, ts := ts, payload := payload }
  { address := rawAddress wc addr, ts := ts, domain := domain, signature := some (sign sk (createMessage H m)),
    payload := payload, stateInitEmpty := false, stateInit := .roots [stateInit] }

end Tongo.TonConnect
