import TongoModel.Message
import TongoModel.HashMemo
/-! Messages and transactions decoded from MUTABLE cells (property C16, the part that is about Go's pointers):

* a Go `*boc.Cell` carries two read cursors (`bits.rCursor`, `refCursor`) that every reader moves; `Cell.NextRef`
  advances the parent's reference cursor and resets the counters OF THE CHILD (in place: the child may be shared);
  `Cell.ResetCounters` rewinds a cell. `Message.UnmarshalTLB` / `Transaction.UnmarshalTLB` are handed a cell in
  WHATEVER cursor state the enclosing decoder, an earlier decode of the same cell, or the caller left it;
* the hash is taken by `c.Hash()` (a fresh memo table) or, when the decoder carries a `boc.Hasher`, through the hasher's
  memo table, which persists across calls (`Memo.hashMemo` of TongoModel/HashMemo.lean, property C02);
* an enclosing record (`^Message`, `Ref[Message]`, …) reaches its messages through `NextRef` on its own cell.

The heap maps pointers to cells-with-cursors; `rows` forgets the cursors and is the heap the memoised hash function
of C02 works on (`newImmutableCell` reads the data buffer, its length, the type, the level mask and the reference
slots — never a cursor). The field decoder is the one of TongoModel/Message.lean run on what the cursors leave to read. -/
namespace Tongo.Message
open Tongo

/-- a mutable cell: its content and the two read cursors -/
structure MsgCell where
  row : CellRow
  bitCur : Nat
  refCur : Nat

abbrev MHeap := Nat → Option MsgCell

namespace MHeap

/-- the heap without cursors: what hashing and serialising read -/
def rows (h : MHeap) : Memo.Heap := fun p => (h p).map (·.row)

def set (h : MHeap) (p : Nat) (c : MsgCell) : MHeap := fun q => if q = p then some c else h q

/-- Cell.ResetCounters (a nil pointer is not modelled: the callers hold a cell) -/
def reset (h : MHeap) (p : Nat) : MHeap :=
  match h p with
  | some c => h.set p { c with bitCur := 0, refCur := 0 }
  | none => h

def resetAll (h : MHeap) : List Nat → MHeap
  | [] => h
  | p :: ps => resetAll (h.reset p) ps

/-- what a reader of the cell still sees: the unread bits and the unread references -/
def sliceAt (h : MHeap) (p : Nat) : Option (Slice Nat) :=
  (h p).map fun c => ⟨c.row.bits.drop c.bitCur, c.row.refs.drop c.refCur⟩

/-- a referenced cell as `NextRef` hands it over: rewound -/
def store (h : MHeap) : Store Nat := ⟨fun r => (h r).map fun c => ⟨c.row.bits, c.row.refs⟩⟩

/-- Cell.NextRef: `ref := c.refs[c.refCursor]; c.refCursor++; ref.ResetCounters(); return ref` -/
def nextRef (h : MHeap) (p : Nat) : Outcome (Nat × MHeap) :=
  match h p with
  | none => .panic "nil pointer dereference"
  | some c =>
    if c.refCur > 3 then .err "not enough refs"
    else match c.row.refs[c.refCur]? with
      | none => .err "not enough refs"
      | some r => .ok (r, (h.set p { c with refCur := c.refCur + 1 }).reset r)

end MHeap

/-- a `tlb.Decoder`: the cells it works on and its hasher (`nil`, or the hasher's memo table) -/
structure Dec where
  heap : MHeap
  hasher : Option Memo.Cache

/-- `decoder.hasher.Hash(c)` when the decoder has a hasher (the table is kept), `c.Hash()` otherwise (a fresh table,
dropped afterwards) -/
def hashCell (H : List UInt8 → List UInt8) (fuel : Nat) (d : Dec) (p : Nat) : Outcome (List UInt8 × Dec) :=
  match d.hasher with
  | some cache => (Memo.hasherHash H d.heap.rows fuel p cache).bind fun (h, cache') => .ok (h, { d with hasher := some cache' })
  | none => (Memo.hasherHash H d.heap.rows fuel p []).bind fun (h, _) => .ok (h, d)

/-- a decoded message: the captured hash and the fields (references are pointers) -/
structure MessageH where
  hash : List UInt8
  msg : Msg Nat

/-- where the decode leaves the cursors: the message cell at `rest`; every reference cell the decode stepped over was
rewound by `NextRef` (for an inline body `CopyRemaining` steps over ALL remaining references and then restores the
cursors of the message cell) -/
def cursorsAfter (h : MHeap) (p : Nat) (m : Msg Nat) (rest : Slice Nat) : MHeap :=
  match h p with
  | none => h
  | some c =>
    let stepped := if m.bodyIsRef then c.row.refs.take (c.row.refs.length - rest.refs.length) else c.row.refs
    (MHeap.resetAll h stepped).set p
      { c with bitCur := c.row.bits.length - rest.bits.length, refCur := c.row.refs.length - rest.refs.length }

/-- Message.UnmarshalTLB(c, decoder): hash first (whole cell, through the hasher if any), `c.ResetCounters()`, then the
fields from the rewound cell -/
def unmarshalMessageH (H : List UInt8 → List UInt8) (fuel : Nat) (d : Dec) (p : Nat) : Outcome (MessageH × Dec) :=
  (hashCell H fuel d p).bind fun (hsh, d1) =>
    let heap1 := d1.heap.reset p
    match heap1.sliceAt p with
    | none => .panic "nil pointer dereference"
    | some s =>
      (decodeMsgS heap1.store s).bind fun (m, rest) =>
        .ok (⟨hsh, m⟩, { d1 with heap := cursorsAfter heap1 p m rest })

/-- what Transaction.UnmarshalTLB captures from a mutable cell: the hash and the POINTER kept by the lazySourceBoc
closure; then `c.ResetCounters()` (the fields of a transaction are not modelled) -/
structure TxCaptureH where
  hash : List UInt8
  source : Nat

def captureTxH (H : List UInt8 → List UInt8) (fuel : Nat) (d : Dec) (p : Nat) : Outcome (TxCaptureH × Dec) :=
  (hashCell H fuel d p).bind fun (hsh, d1) => .ok (⟨hsh, p⟩, { d1 with heap := d1.heap.reset p })

/-- `lazySourceBoc()`: `c.ResetCounters(); SerializeBoc(c)` — the serialiser reads the tree the pointer denotes NOW -/
def TxCaptureH.sourceBoc {β} (serialize : Cell → Outcome β) (fuel : Nat) (t : TxCaptureH) (d : Dec) : Outcome (β × Dec) :=
  match Memo.tree d.heap.rows fuel t.source with
  | none => .panic "nil pointer dereference"
  | some c => (serialize c).bind fun b => .ok (b, { d with heap := d.heap.reset t.source })

/-- an enclosing record whose next `k` fields are `^Message` (`tlb:"^"` / `Ref[Message]`): for each, `NextRef` on the
record's cell, then Message.UnmarshalTLB on the referenced cell -/
def decodeRefMessages (H : List UInt8 → List UInt8) (fuel : Nat) : Nat → Dec → Nat → Outcome (List MessageH × Dec)
  | 0, d, _ => .ok ([], d)
  | k + 1, d, parent =>
    (d.heap.nextRef parent).bind fun (child, heap1) =>
      (unmarshalMessageH H fuel { d with heap := heap1 } child).bind fun (m, d2) =>
        (decodeRefMessages H fuel k d2 parent).bind fun (ms, d3) => .ok (m :: ms, d3)

/-- the same for `^Transaction` fields -/
def decodeRefTxs (H : List UInt8 → List UInt8) (fuel : Nat) : Nat → Dec → Nat → Outcome (List TxCaptureH × Dec)
  | 0, d, _ => .ok ([], d)
  | k + 1, d, parent =>
    (d.heap.nextRef parent).bind fun (child, heap1) =>
      (captureTxH H fuel { d with heap := heap1 } child).bind fun (t, d2) =>
        (decodeRefTxs H fuel k d2 parent).bind fun (ts, d3) => .ok (t :: ts, d3)

end Tongo.Message
