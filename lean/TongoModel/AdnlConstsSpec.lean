/-! Constants of ADNL-over-TCP as the SPECIFICATION states them (TON documentation "ADNL TCP - Liteserver" and ton/tl
`ton_api.tl`), independent of tongo's source. The translator `AdnlConsts` (harness/cmd/extract/adnlconsts.go) extracts
the corresponding literals from liteclient/*.go on every run into `TongoGen/AdnlConsts.lean`, whose obligations state
that the two agree; `TongoProofs/C11.lean` (`model_uses_spec_constants`) proves that the model uses exactly these.

TL constructor ids are CRC-32 (IEEE) of the declaration line; the key-id prefix is the little-endian id of
`pub.ed25519`. The declarations are given as byte lists so that the kernel can recompute the checksums. -/
namespace Tongo.AdnlConstsSpec

/-- a half-open byte range [lo, hi) -/
abbrev Range := Nat × Nat

/-- session parameters: 160 random bytes = rx key, tx key, rx nonce, tx nonce, padding (names from the CLIENT's view:
the client decrypts with rx and encrypts with tx; the server does the opposite) -/
def paramsSize : Nat := 160
def rxKey : Range := (0, 32)
def txKey : Range := (32, 64)
def rxNonce : Range := (64, 80)
def txNonce : Range := (80, 96)
def padding : Range := (96, 160)

/-- which accessor feeds what: 0 = rxKey, 1 = txKey, 2 = rxNonce, 3 = txNonce -/
def sendCipher : Nat × Nat := (1, 3)
def recvCipher : Nat × Nat := (0, 2)

/-- handshake packet: key id (32) ‖ ephemeral public key (32) ‖ SHA-256(params) (32) ‖ encrypted params (160) -/
def hsSize : Nat := 256
def hsKeyId : Range := (0, 32)
def hsPub : Range := (32, 64)
def hsHash : Range := (64, 96)
def hsData : Range := (96, 256)
/-- AES key = shared[0..16] ‖ hash[16..32]; CTR iv = hash[0..4] ‖ shared[20..32] -/
def hsKeyFromShared : Range := (0, 16)
def hsKeyFromHash : Range := (16, 32)
def hsIvFromHash : Range := (0, 4)
def hsIvFromShared : Range := (20, 32)

/-- frame: le32 length ‖ nonce (32) ‖ payload ‖ SHA-256 (32); accepted length 64 .. 8 MiB -/
def nonceSize : Nat := 32
def checksumSize : Nat := 32
def minLen : Nat := 64
def maxLen : Nat := 8 * 1024 * 1024

/-- CRC-32 (IEEE 802.3, reflected, polynomial 0xEDB88320) over a byte list -/
def crcStep (crc : Nat) : Nat := if crc % 2 = 1 then (crc / 2) ^^^ 0xEDB88320 else crc / 2
def crcByte (crc b : Nat) : Nat := crcStep (crcStep (crcStep (crcStep (crcStep (crcStep (crcStep (crcStep (crc ^^^ b))))))))
def crc32 (bs : List Nat) : Nat := (bs.foldl crcByte 0xFFFFFFFF) ^^^ 0xFFFFFFFF

/-- `tcp.ping random_id:long = tcp.Pong` -/
def tlPing : List Nat := [116, 99, 112, 46, 112, 105, 110, 103, 32, 114, 97, 110, 100, 111, 109, 95, 105, 100, 58, 108, 111, 110, 103, 32, 61, 32, 116, 99, 112, 46, 80, 111, 110, 103]
/-- `tcp.pong random_id:long = tcp.Pong` -/
def tlPong : List Nat := [116, 99, 112, 46, 112, 111, 110, 103, 32, 114, 97, 110, 100, 111, 109, 95, 105, 100, 58, 108, 111, 110, 103, 32, 61, 32, 116, 99, 112, 46, 80, 111, 110, 103]
/-- `adnl.message.query query_id:int256 query:bytes = adnl.Message` -/
def tlQuery : List Nat := [97, 100, 110, 108, 46, 109, 101, 115, 115, 97, 103, 101, 46, 113, 117, 101, 114, 121, 32, 113, 117, 101, 114, 121, 95, 105, 100, 58, 105, 110, 116, 50, 53, 54, 32, 113, 117, 101, 114, 121, 58, 98, 121, 116, 101, 115, 32, 61, 32, 97, 100, 110, 108, 46, 77, 101, 115, 115, 97, 103, 101]
/-- `adnl.message.answer query_id:int256 answer:bytes = adnl.Message` -/
def tlAnswer : List Nat := [97, 100, 110, 108, 46, 109, 101, 115, 115, 97, 103, 101, 46, 97, 110, 115, 119, 101, 114, 32, 113, 117, 101, 114, 121, 95, 105, 100, 58, 105, 110, 116, 50, 53, 54, 32, 97, 110, 115, 119, 101, 114, 58, 98, 121, 116, 101, 115, 32, 61, 32, 97, 100, 110, 108, 46, 77, 101, 115, 115, 97, 103, 101]
/-- `pub.ed25519 key:int256 = PublicKey` -/
def tlPubEd25519 : List Nat := [112, 117, 98, 46, 101, 100, 50, 53, 53, 49, 57, 32, 107, 101, 121, 58, 105, 110, 116, 50, 53, 54, 32, 61, 32, 80, 117, 98, 108, 105, 99, 75, 101, 121]

def magicPing : Nat := 0x4d082b9a
def magicPong : Nat := 0xdc69fb03
def magicQuery : Nat := 0xb48bf97a
def magicAnswer : Nat := 0x0fac8416
def magicPubEd25519 : Nat := 0x4813b4c6
/-- `tcp.authentificationNonce nonce:bytes = tcp.Message` -/
def tlAuthNonce : List Nat := [116, 99, 112, 46, 97, 117, 116, 104, 101, 110, 116, 105, 102, 105, 99, 97, 116, 105, 111, 110, 78, 111, 110, 99, 101, 32, 110, 111, 110, 99, 101, 58, 98, 121, 116, 101, 115, 32, 61, 32, 116, 99, 112, 46, 77, 101, 115, 115, 97, 103, 101]
def magicAuthNonce : Nat := 0xe35d4ab6
/-- a tcp.pong is its constructor id (4) and `random_id:long` (8): exactly 12 bytes -/
def pongSize : Nat := 12
/-- the four bytes hashed in front of the public key to form the key id: le32(magicPubEd25519) -/
def keyIdPrefix : List Nat := [0xc6, 0xb4, 0x13, 0x48]

/-- the magic numbers ARE the checksums of their declarations (recomputed by the kernel) -/
theorem magics_are_crc32 :
    crc32 tlPing = magicPing ∧ crc32 tlPong = magicPong ∧ crc32 tlQuery = magicQuery ∧ crc32 tlAnswer = magicAnswer ∧
    crc32 tlPubEd25519 = magicPubEd25519 ∧ crc32 tlAuthNonce = magicAuthNonce ∧
    keyIdPrefix = [magicPubEd25519 % 256, magicPubEd25519 / 256 % 256, magicPubEd25519 / 65536 % 256, magicPubEd25519 / 16777216] := by
  decide +kernel

end Tongo.AdnlConstsSpec
