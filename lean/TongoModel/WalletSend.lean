import TongoModel.Wallet
import TongoModel.CellRead
/-! Send parameters and the send pipeline (wallet/wallet_*.go NextMessageParams, tlb/account.go Account.Status,
wallet/wallet.go SendV2 / RawSendV2) as a function of the scripted answers of the `blockchain` interface and of the
clock readings of the confirmation loop. -/
namespace Tongo.Wallet
open Tongo Tongo.Bits

/-- what `GetAccountState` returned, as far as `Account.Status()` and the data cell matter. `invalid` is a hand-built
`tlb.ShardAccount` whose sum-type names match no constructor (e.g. the zero value): `Status()` panics. -/
inductive AcctState where
  | none
  | uninit
  | frozen
  | active (data : Cell)     -- `StateInit.Data.Value.Value`; the empty cell when `Data` is absent
  | invalid
  deriving Inhabited

structure NextParams where
  seqno : Nat
  init : Bool      -- `Init != nil`; when set it is `generateStateInit()` of this wallet
  deriving Repr, DecidableEq

/-- `tlb.Unmarshal(&cell, &data)` for the data struct of the version; the result is the `Seqno` field converted with
`uint32(...)`. A library cell is refused (no resolver configured). -/
def decodeDataSeqno (f : Family) (data : Cell) : Outcome Nat :=
  if data.ty = tyLibrary then .err "library cell decoding is not configured properly"
  else
    let r := CellR.ofCell data
    match f with
    | .v1v2 => .panic "implement me"
    | .v3 => do                                  -- DataV3
      let (seq, r) ← r.readUint 32
      let (_, r) ← r.readUint 32
      let (_, _) ← r.readBits 256
      pure seq
    | .v4 => do                                  -- DataV4: … PluginDict HashmapE[Bits264, Any]
      let (seq, r) ← r.readUint 32
      let (_, r) ← r.readUint 32
      let (_, r) ← r.readBits 256
      let (_, _) ← readHashmapE (fun r => .ok r.remaining) 264 r
      pure seq
    | .v5r1 => do                                -- DataV5R1: bool, seqno, wallet id, key, Extensions HashmapE[Bits256, Uint1]
      let (_, r) ← r.readBit
      let (seq, r) ← r.readUint 32
      let (_, r) ← r.readUint 32
      let (_, r) ← r.readBits 256
      let (_, _) ← readHashmapE (fun r => (r.readUint 1).bind fun x => .ok x.1) 256 r
      pure seq
    | .v5beta => do                              -- DataV5Beta: Seqno Uint33, WalletV5ID (80 bits), key, Extensions HashmapE[Bits256, Uint8]
      let (seq, r) ← r.readUint 33
      let (_, r) ← r.readBits 80
      let (_, r) ← r.readBits 256
      let (_, _) ← readHashmapE (fun r => (r.readUint 8).bind fun x => .ok x.1) 256 r
      pure (seq % 4294967296)
    | .highload => .ok 0                         -- never called

/-- `NextMessageParams(state)` per version -/
def nextMessageParams (v : Version) (st : AcctState) : Outcome NextParams :=
  match v.family with
  | .v1v2 => .panic "implement me"
  | .highload =>
    match st with
    | .invalid => .panic "invalid sum types for account status"
    | .uninit | .none => .ok { seqno := 0, init := true }
    | _ => .ok { seqno := 0, init := false }
  | f =>
    match st with
    | .invalid => .panic "invalid sum types for account status"
    | .active data => do
      let seq ← decodeDataSeqno f data
      pure { seqno := seq, init := false }
    | _ => .ok { seqno := 0, init := true }

/-- one iteration of the confirmation loop: the reading of `time.Since(t)` at the loop test and the answer
`GetSeqno` gives if the test passes -/
structure Poll where
  elapsed : Nat
  seqno : Nat
  err : Bool
  deriving Repr, DecidableEq

/-- the confirmation loop of RawSendV2 (after the repair, section 9 #12):

    for ; time.Since(t) < wait; time.Sleep(wait / 10) {
        newSeqno, err := GetSeqno(...)
        if err != nil { continue }
        if newSeqno > seqno { return msgHash, nil }
    }
    return msgHash, "waiting confirmation timeout"

`polls` lists the iterations in order; running out of listed iterations stands for the deadline having passed. -/
def confirmLoop (wait seqno : Nat) : List Poll → Bool
  | [] => false
  | p :: ps =>
    if p.elapsed < wait then
      if p.err then confirmLoop wait seqno ps
      else if p.seqno > seqno then true
      else confirmLoop wait seqno ps
    else false

/-- the loop as it was before the repair: `if err == nil { continue }` — a successful poll is skipped -/
def confirmLoopV0 (wait seqno : Nat) : List Poll → Bool
  | [] => false
  | p :: ps =>
    if p.elapsed < wait then
      if !p.err then confirmLoopV0 wait seqno ps
      else if p.seqno > seqno then true
      else confirmLoopV0 wait seqno ps
    else false

/-- the scripted blockchain interface -/
structure Script where
  acct : Outcome AcctState      -- GetAccountState
  sendErr : Bool                -- SendMessage returns an error
  polls : List Poll             -- GetSeqno answers with the clock readings
  deriving Inhabited

/-- what reached `SendMessage`, decoded -/
structure Sent where
  destWc : Int                  -- `int8(address.Workchain)` as written into addr_std
  destHash : List UInt8
  init : Bool
  seqno : Nat
  deriving Repr, DecidableEq

structure SendResult where
  outcome : Outcome Unit
  sent : Option Sent
  deriving Inhabited

/-- RawSendV2 after the message-count guard, given that the body marshals (C14 `fits_in_cell`): external message to
the wallet's own address, `SendMessage`, then the confirmation logic -/
def rawSendV2 (loop : Nat → Nat → List Poll → Bool) (v : Version) (self : Address) (seqno : Nat) (init : Bool)
    (nMsgs : Nat) (sc : Script) (wait : Nat) : SendResult :=
  if nMsgs > maxMessages v then { outcome := .err "too many messages", sent := none }
  else
    match v.family with
    | .v1v2 => { outcome := .panic "implement me", sent := none }
    | _ =>
      let sent : Sent := { destWc := toI8 self.workchain, destHash := self.hash, init := init, seqno := seqno }
      if sc.sendErr then { outcome := .err "send", sent := some sent }
      else if wait = 0 then { outcome := .ok (), sent := some sent }
      else if v = .highloadV2R2 then { outcome := .err "highload wallet doesn't support waiting confirmation", sent := some sent }
      else if loop wait seqno sc.polls then { outcome := .ok (), sent := some sent }
      else { outcome := .err "waiting confirmation timeout", sent := some sent }

/-- SendV2: GetAccountState, NextMessageParams, then RawSendV2 -/
def sendV2 (loop : Nat → Nat → List Poll → Bool) (v : Version) (self : Address) (nMsgs : Nat) (sc : Script) (wait : Nat) : SendResult :=
  match sc.acct with
  | .err e => { outcome := .err e, sent := none }
  | .panic p => { outcome := .panic p, sent := none }
  | .ok st =>
    match nextMessageParams v st with
    | .err e => { outcome := .err e, sent := none }
    | .panic p => { outcome := .panic p, sent := none }
    | .ok np => rawSendV2 loop v self np.seqno np.init nMsgs sc wait

/-- A blockchain implementation that honours `ctx`: once the context is cancelled every call returns `ctx.Err()`.
`cancelAt = some k` cancels the context before the k-th call of the send (call 0 = GetAccountState, call 1 =
SendMessage, call 2 + i = the i-th GetSeqno poll). The wallet code itself never looks at the context, so cancellation
is visible to it only as these errors: in particular the confirmation loop keeps polling until the deadline. -/
def cancelFrom : Nat → List Poll → List Poll
  | 0, ps => ps.map fun p => { p with err := true }
  | _ + 1, [] => []
  | j + 1, p :: ps => p :: cancelFrom j ps

def Script.cancelled (sc : Script) : Option Nat → Script
  | none => sc
  | some k =>
    { acct := if k = 0 then .err "context canceled" else sc.acct,
      sendErr := sc.sendErr || decide (k ≤ 1),
      polls := cancelFrom (k - 2) sc.polls }

/-- SendV2 under a context cancelled before call `k` -/
def sendV2Ctx (loop : Nat → Nat → List Poll → Bool) (v : Version) (self : Address) (nMsgs : Nat) (sc : Script) (wait : Nat)
    (cancelAt : Option Nat) : SendResult :=
  sendV2 loop v self nMsgs (sc.cancelled cancelAt) wait

end Tongo.Wallet
