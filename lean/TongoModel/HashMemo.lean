import TongoModel.Cell
/-! The pointer-keyed memo table of `newImmutableCell` (`cache map[*Cell]*immutableCell`, kept across calls by
`boc.Hasher`). Node identity (the `*Cell` pointer) is a natural number; a heap maps identities to rows whose refs are
identities; the cache is an association list. `hashMemo` mirrors the Go function: look the pointer up first, otherwise
hash the children left to right (threading the cache), compute this cell, store it. Errors are returned without
storing anything. `fuel` bounds the recursion (the Go code would not terminate on a cyclic graph). -/
namespace Tongo.Memo
open Tongo

abbrev Heap := Nat → Option CellRow
abbrev Cache := List (Nat × HashInfo)

def memoList (f : Nat → Cache → Outcome (HashInfo × Cache)) : List Nat → Cache → Outcome (List HashInfo × Cache)
  | [], cache => .ok ([], cache)
  | r :: rs, cache => do
    let (i, cache) ← f r cache
    let (is, cache) ← memoList f rs cache
    pure (i :: is, cache)

/-- `newImmutableCell(c, cache)` -/
def hashMemo (H : List UInt8 → List UInt8) (heap : Heap) : Nat → Nat → Cache → Outcome (HashInfo × Cache)
  | 0, _, _ => .err "fuel"
  | fuel + 1, p, cache =>
    match cache.lookup p with
    | some i => .ok (i, cache)
    | none =>
      match heap p with
      | none => .panic "nil pointer dereference"
      | some row => do
        let (cs, cache) ← memoList (hashMemo H heap fuel) row.refs cache
        let i ← computeInfo H row.ty row.mask row.bits (parsedBuf row.bits) cs
        pure (i, (p, i) :: cache)

/-- `Hasher.Hash(c)` with the hasher's table `cache`: the hash at the maximal level and the updated table -/
def hasherHash (H : List UInt8 → List UInt8) (heap : Heap) (fuel p : Nat) (cache : Cache) :
    Outcome (List UInt8 × Cache) := do
  let (i, cache) ← hashMemo H heap fuel p cache
  let h ← i.hashAt 3
  pure (h, cache)

def treeList (f : Nat → Option Cell) : List Nat → Option (List Cell)
  | [] => some []
  | r :: rs => match f r, treeList f rs with
    | some c, some cs => some (c :: cs)
    | _, _ => none

/-- the tree a pointer denotes (`none`: dangling pointer or fuel exhausted) -/
def tree (heap : Heap) : Nat → Nat → Option Cell
  | 0, _ => none
  | fuel + 1, p =>
    match heap p with
    | none => none
    | some row => (treeList (tree heap fuel) row.refs).map fun cs => .mk row.ty row.mask row.bits cs

/-- every entry of the table is the value `newImmutableCell` computes for the tree that pointer denotes -/
def CacheInv (H : List UInt8 → List UInt8) (heap : Heap) (cache : Cache) : Prop :=
  ∀ p i, cache.lookup p = some i → ∀ fuel c, tree heap fuel p = some c → Cell.info H c = .ok i

end Tongo.Memo

namespace Tongo.Memo
open Tongo

/-- `Hasher.cacheHex map[*Cell]string`: the second table of a Hasher -/
abbrev HexCache := List (Nat × String)

/-- a `boc.Hasher`: the memo table of immutable cells and the table of hex strings -/
structure HasherState where
  cache : Cache
  hex : HexCache

/-- `Hasher.Hash(c)` on the hasher's state (the hex table is not touched) -/
def hasherHashSt (H : List UInt8 → List UInt8) (heap : Heap) (fuel p : Nat) (st : HasherState) :
    Outcome (List UInt8 × HasherState) := do
  let (h, cache) ← hasherHash H heap fuel p st.cache
  pure (h, { st with cache := cache })

/-- `Hasher.HashString(c)`: look the pointer up in `cacheHex`; otherwise `Hash`, and only on success store the hex
string — an error is returned and nothing is stored -/
def hasherHashString (H : List UInt8 → List UInt8) (heap : Heap) (fuel p : Nat) (st : HasherState) :
    Outcome (String × HasherState) :=
  match st.hex.lookup p with
  | some s => .ok (s, st)
  | none => do
    let (h, cache) ← hasherHash H heap fuel p st.cache
    let s := Hex.encode h
    pure (s, { cache := cache, hex := (p, s) :: st.hex })

/-- every entry of the hex table is what `Cell.HashString()` returns for the tree that pointer denotes -/
def HexInv (H : List UInt8 → List UInt8) (heap : Heap) (hex : HexCache) : Prop :=
  ∀ p s, hex.lookup p = some s → ∀ fuel c, tree heap fuel p = some c → Cell.hashString H c = .ok s

def StateInv (H : List UInt8 → List UInt8) (heap : Heap) (st : HasherState) : Prop :=
  CacheInv H heap st.cache ∧ HexInv H heap st.hex

/-- a call of one of the Hasher's entry points on pointer `p` -/
inductive Call where
  | hash (p : Nat)
  | hashString (p : Nat)

/-- outcome of a call with the state dropped: hash bytes or hex string, error, panic -/
inductive Answer where
  | bytes (b : List UInt8)
  | str (s : String)
  | err (e : String)
  | panic (p : String)
  deriving DecidableEq, Repr

/-- a sequence of calls on one Hasher. After a failed call the state is the one before the call (Go may have added
valid entries for sub-cells hashed before the failure; the theorems hold for every valid state). -/
def runCalls (H : List UInt8 → List UInt8) (heap : Heap) (fuel : Nat) : List Call → HasherState → List Answer
  | [], _ => []
  | .hash p :: rest, st =>
    match hasherHashSt H heap fuel p st with
    | .ok (b, st') => .bytes b :: runCalls H heap fuel rest st'
    | .err e => .err e :: runCalls H heap fuel rest st
    | .panic x => .panic x :: runCalls H heap fuel rest st
  | .hashString p :: rest, st =>
    match hasherHashString H heap fuel p st with
    | .ok (s, st') => .str s :: runCalls H heap fuel rest st'
    | .err e => .err e :: runCalls H heap fuel rest st
    | .panic x => .panic x :: runCalls H heap fuel rest st

/-- the same call answered by the uncached functions `Cell.Hash()` / `Cell.HashString()` on the denoted tree -/
def plainAnswer (H : List UInt8 → List UInt8) (heap : Heap) (fuel : Nat) : Call → Option Answer
  | .hash p => (tree heap fuel p).map fun c => match Cell.reprHash H c with
    | .ok b => .bytes b | .err e => .err e | .panic x => .panic x
  | .hashString p => (tree heap fuel p).map fun c => match Cell.hashString H c with
    | .ok s => .str s | .err e => .err e | .panic x => .panic x

end Tongo.Memo
