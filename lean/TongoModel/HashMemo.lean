import TongoModel.Cell
/-! The pointer-keyed memo table of `newImmutableCell` (`cache map[*Cell]*immutableCell`, kept across calls by
`boc.Hasher`). Node identity (the `*Cell` pointer) is a natural number; a heap maps identities to rows whose refs are
identities; the cache is an association list. `hashMemo` mirrors the Go function: look the pointer up first, otherwise
hash the children left to right (threading the cache), compute this cell, store it. Errors are returned without
storing anything. `fuel` bounds the recursion (the Go code would not terminate on a cyclic graph). -/
namespace Tongo.Memo
open Tongo

abbrev Heap := Nat → Option CellRow
abbrev Cache := List (Nat × HashInfo)

def memoList (f : Nat → Cache → Outcome (HashInfo × Cache)) : List Nat → Cache → Outcome (List HashInfo × Cache)
  | [], cache => .ok ([], cache)
  | r :: rs, cache => do
    let (i, cache) ← f r cache
    let (is, cache) ← memoList f rs cache
    pure (i :: is, cache)

/-- `newImmutableCell(c, cache)` -/
def hashMemo (H : List UInt8 → List UInt8) (heap : Heap) : Nat → Nat → Cache → Outcome (HashInfo × Cache)
  | 0, _, _ => .err "fuel"
  | fuel + 1, p, cache =>
    match cache.lookup p with
    | some i => .ok (i, cache)
    | none =>
      match heap p with
      | none => .panic "nil pointer dereference"
      | some row => do
        let (cs, cache) ← memoList (hashMemo H heap fuel) row.refs cache
        let i ← computeInfo H row.ty row.mask row.bits (parsedBuf row.bits) cs
        pure (i, (p, i) :: cache)

/-- `Hasher.Hash(c)` with the hasher's table `cache`: the hash at the maximal level and the updated table -/
def hasherHash (H : List UInt8 → List UInt8) (heap : Heap) (fuel p : Nat) (cache : Cache) :
    Outcome (List UInt8 × Cache) := do
  let (i, cache) ← hashMemo H heap fuel p cache
  let h ← i.hashAt 3
  pure (h, cache)

def treeList (f : Nat → Option Cell) : List Nat → Option (List Cell)
  | [] => some []
  | r :: rs => match f r, treeList f rs with
    | some c, some cs => some (c :: cs)
    | _, _ => none

/-- the tree a pointer denotes (`none`: dangling pointer or fuel exhausted) -/
def tree (heap : Heap) : Nat → Nat → Option Cell
  | 0, _ => none
  | fuel + 1, p =>
    match heap p with
    | none => none
    | some row => (treeList (tree heap fuel) row.refs).map fun cs => .mk row.ty row.mask row.bits cs

/-- every entry of the table is the value `newImmutableCell` computes for the tree that pointer denotes -/
def CacheInv (H : List UInt8 → List UInt8) (heap : Heap) (cache : Cache) : Prop :=
  ∀ p i, cache.lookup p = some i → ∀ fuel c, tree heap fuel p = some c → Cell.info H c = .ok i

end Tongo.Memo
