/-! Model of the selection rules of `liteapi/pool/conn_pool.go`: `updateBest`, `findBestPingConnection`,
`findFirstWorkingConnection`, as functions of the observable attributes of the pool members in configuration
order, the previous choice and the strategy. Core Lean only.

Two variants of the "at most one block behind" test are modelled, selected by `wrap`:
* `wrap = true`  — the test as originally written, `c.MasterHead().Seqno+1 >= maxSeqno` in Go's `uint32`
  (the addition wraps to 0 at 2³²−1);
* `wrap = false` — the repaired test `uint64(c.MasterHead().Seqno)+1 >= uint64(maxSeqno)` (no wrap).
-/
namespace Tongo.PoolSelect

/-- What `updateBest` observes of one pool member: `ID()`, `IsOK()`, `MasterHead().Seqno` (uint32),
`AverageRoundTrip()` (a `time.Duration`, i.e. an int64 that is only ever compared). -/
structure Conn where
  id : Nat
  alive : Bool
  seqno : BitVec 32
  rtt : Int
  deriving Repr, DecidableEq, Inhabited

/-- `type Strategy string`: the two known values and anything else (for which the `switch` has no case). -/
inductive Strategy where
  | bestPing
  | firstWorking
  | other
  deriving Repr, DecidableEq, Inhabited

/-- the values of the `Strategy` constants (`BestPingStrategy`, `FirstWorkingConnection`) -/
def strategyOfName (s : String) : Strategy :=
  if s == "best-ping" then .bestPing else if s == "first-working" then .firstWorking else .other

/-- `var maxSeqno uint32; for _, c := range p.conns { if maxSeqno < seqno { maxSeqno = seqno } }` — over ALL
members, dead ones included. -/
def maxSeqno (cs : List Conn) : BitVec 32 :=
  cs.foldl (fun m c => if m < c.seqno then c.seqno else m) 0

/-- the "not more than one block behind" test, see the module comment. -/
def working (wrap : Bool) (m : BitVec 32) (c : Conn) : Bool :=
  if wrap then decide (c.seqno + 1 ≥ m) else decide (c.seqno.toNat + 1 ≥ m.toNat)

/-- `findFirstWorkingConnection` -/
def findFirstWorking (wrap : Bool) (m : BitVec 32) : List Conn → Option Conn
  | [] => none
  | c :: cs =>
    if !c.alive then findFirstWorking wrap m cs
    else if working wrap m c then some c
    else findFirstWorking wrap m cs

/-- the loop of `findBestPingConnection` with its accumulator `bestConn` -/
def findBestPingLoop (wrap : Bool) (m : BitVec 32) : List Conn → Option Conn → Option Conn
  | [], best => best
  | c :: cs, best =>
    if !c.alive then findBestPingLoop wrap m cs best
    else if !(working wrap m c) then findBestPingLoop wrap m cs best
    else match best with
      | none => findBestPingLoop wrap m cs (some c)
      | some b => if c.rtt < b.rtt then findBestPingLoop wrap m cs (some c) else findBestPingLoop wrap m cs (some b)

/-- `findBestPingConnection` -/
def findBestPing (wrap : Bool) (m : BitVec 32) (cs : List Conn) : Option Conn :=
  findBestPingLoop wrap m cs none

/-- `updateBest`: the new value of `p.bestConn` given the previous one (`none` = nil). -/
def updateBest (wrap : Bool) (st : Strategy) (cs : List Conn) (prev : Option Conn) : Option Conn :=
  if cs.isEmpty then prev
  else
    let m := maxSeqno cs
    match st with
    | .bestPing => match findBestPing wrap m cs with
      | some c => some c
      | none => prev
    | .firstWorking => match findFirstWorking wrap m cs with
      | some c => some c
      | none => prev
    | .other => prev

/-- the `switch p.strategy` of `updateBest` given the maximum computed by the first loop: the member to switch to,
`none` when there is no candidate (or the strategy is unknown) -/
def selectWith (wrap : Bool) (st : Strategy) (m : BitVec 32) (cs : List Conn) : Option Conn :=
  match st with
  | .bestPing => findBestPing wrap m cs
  | .firstWorking => findFirstWorking wrap m cs
  | .other => none

/-- the maximum loop over a list of heads already read -/
def maxOfSeqs (l : List (BitVec 32)) : BitVec 32 :=
  l.foldl (fun m x => if m < x then x else m) 0

/-! ### The property's rule, stated directly (specification) -/

/-- `c` is at most one masterchain block behind the newest head known to the pool (in ℕ, no wrap-around) -/
def current (cs : List Conn) (c : Conn) : Bool :=
  cs.all (fun d => decide (d.seqno.toNat ≤ c.seqno.toNat + 1))

/-- the candidates `W`: alive and current, in configuration order -/
def candidates (cs : List Conn) : List Conn :=
  cs.filter (fun c => c.alive && current cs c)

/-- first element of least rtt (ties: the earliest): scan keeping the current minimum, replaced only by a strictly
smaller one. `TongoProofs.C13.firstMin_spec` states what it returns declaratively. -/
def firstMin : List Conn → Option Conn
  | [] => none
  | c :: cs => some (cs.foldl (fun b d => if d.rtt < b.rtt then d else b) c)

/-- the selection rule of the property: the candidate of least round-trip time (first among ties) under best-ping,
the first candidate under first-working, the previous choice when there is no candidate (or the strategy is unknown). -/
def specSelect (st : Strategy) (cs : List Conn) (prev : Option Conn) : Option Conn :=
  match st with
  | .bestPing => match firstMin (candidates cs) with
    | some c => some c
    | none => prev
  | .firstWorking => match (candidates cs).head? with
    | some c => some c
    | none => prev
  | .other => prev

end Tongo.PoolSelect
