import TongoModel.CellOrd
/-! Wallet addresses (wallet/wallets_common.go, wallet_v1v2.go, wallet_v3.go, wallet_v4.go, wallet_v5.go,
wallet_v5_beta.go, wallet_highload_v2.go, wallet.go New/GenerateWalletAddress/GenerateStateInit).

The data cell of every version exactly as its Go struct marshals, the state-init cell (`split_depth`/`special` absent,
code and data as `Maybe ^`, empty library) and the address `(int32 workchain, representation hash of the state-init)`.
The code cell of a version is a parameter (the driver receives it from the harness, which reads `wallet.GetCodeByVer`).
Integers are naturals with the Go conversions (`uint32(...)`, `uint8(...)`, `int32(...)`) written out. -/
namespace Tongo.Wallet
open Tongo Tongo.Bits

/-- the versions `newWallet` accepts -/
inductive Version where
  | v1r1 | v1r2 | v1r3 | v2r1 | v2r2 | v3r1 | v3r2 | v4r1 | v4r2 | v5beta | v5r1 | highloadV2R2
  deriving DecidableEq, Repr, Inhabited

/-- value of the Go constant (`wallet.Version` iota) -/
def Version.goIndex : Version → Nat
  | .v1r1 => 0 | .v1r2 => 1 | .v1r3 => 2 | .v2r1 => 3 | .v2r2 => 4 | .v3r1 => 5 | .v3r2 => 6
  | .v4r1 => 8 | .v4r2 => 9 | .v5beta => 10 | .v5r1 => 11 | .highloadV2R2 => 16

def Version.all : List Version :=
  [.v1r1, .v1r2, .v1r3, .v2r1, .v2r2, .v3r1, .v3r2, .v4r1, .v4r2, .v5beta, .v5r1, .highloadV2R2]

/-- `newWallet`'s switch: every other `Version` value (V3R2Lockup = 7, HighLoadV1R1.. = 12..15, anything else) is
"unsupported wallet version" -/
def Version.ofGoIndex? (n : Nat) : Option Version := Version.all.find? (fun v => v.goIndex == n)

inductive Family where | v1v2 | v3 | v4 | v5beta | v5r1 | highload
  deriving DecidableEq, Repr

def Version.family : Version → Family
  | .v1r1 | .v1r2 | .v1r3 | .v2r1 | .v2r2 => .v1v2
  | .v3r1 | .v3r2 => .v3
  | .v4r1 | .v4r2 => .v4
  | .v5beta => .v5beta
  | .v5r1 => .v5r1
  | .highloadV2R2 => .highload

/-- `wallet.Options` as far as addresses depend on them; `workchain` is a Go `int`, `net` an `int32` -/
structure Opts where
  workchain : Option Int := none
  subWallet : Option Nat := none      -- uint32
  net : Option Int := none            -- int32
  deriving Repr, DecidableEq

def defaultSubWallet : Nat := 698983191
def mainnetGlobalID : Int := -239

/-- Go `uint32(x)` of an integer -/
def toU32 (x : Int) : Nat := (x % 4294967296).toNat
/-- Go `uint8(x)` -/
def toU8 (x : Int) : Nat := (x % 256).toNat
/-- Go `int32(x)` (two's complement wrap) -/
def toI32 (x : Int) : Int := (x + 2147483648) % 4294967296 - 2147483648
/-- Go `int8(x)` -/
def toI8 (x : Int) : Int := (x + 128) % 256 - 128

def Opts.wc (o : Opts) : Int := o.workchain.getD 0
/-- v3, v4, highload: `defaultOr(options.SubWalletID, uint32(DefaultSubWallet+workchain))` -/
def Opts.subDefault (o : Opts) : Nat := o.subWallet.getD (toU32 (defaultSubWallet + o.wc))
/-- `defaultOr(opts.NetworkGlobalID, MainnetGlobalID)` -/
def Opts.netOr (o : Opts) : Int := o.net.getD mainnetGlobalID

/-- `genContextID(uint32(workchain))`: bits `1`, workchain on 8 bits (WriteUint keeps the low 8 bits), 8 zero bits,
15 zero bits, read back as a 32-bit number -/
def genContextID (wc : Int) : Nat := bitsToNat ([true] ++ natToBits 8 (toU32 wc) ++ natToBits 8 0 ++ natToBits 15 0)

/-- `NewWalletV5R1`: `uint32(int64(contextID) ^ int64(networkGlobalID))` -/
def walletIdV5R1 (o : Opts) : Nat := genContextID o.wc ^^^ toU32 o.netOr

/-- `publicKeyToBits`: `copy` into a zeroed 32-byte array -/
def pkBytes (pk : List UInt8) : List UInt8 := pk.take 32 ++ List.replicate (32 - pk.length) 0
def pkBits (pk : List UInt8) : List Bool := bytesToBits (pkBytes pk)

/-- the marshalled data struct of a wallet whose stored seqno is `seqno` (the other fields as a fresh wallet has them) -/
def dataBitsSeq (v : Version) (seqno : Nat) (pk : List UInt8) (o : Opts) : List Bool :=
  match v.family with
  | .v1v2 => natToBits 32 seqno ++ pkBits pk                                       -- DataV1V2{Seqno, PublicKey}
  | .v3 => natToBits 32 seqno ++ natToBits 32 o.subDefault ++ pkBits pk            -- DataV3{Seqno, SubWalletId, PublicKey}
  | .v4 => natToBits 32 seqno ++ natToBits 32 o.subDefault ++ pkBits pk ++ [false] -- DataV4{…, PluginDict empty}
  | .v5beta =>                                                                     -- DataV5Beta{Seqno Uint33, WalletV5ID, PublicKey, Extensions}
    natToBits 33 seqno ++ (natToBits 32 (toU32 o.netOr) ++ natToBits 8 (toU8 o.wc) ++ natToBits 8 0 ++
      natToBits 32 (o.subWallet.getD 0)) ++ pkBits pk ++ [false]
  | .v5r1 =>                                                                       -- DataV5R1{IsSignatureAllowed, Seqno, WalletID, PublicKey, Extensions}
    [true] ++ natToBits 32 seqno ++ natToBits 32 (walletIdV5R1 o) ++ pkBits pk ++ [false]
  | .highload =>                                                                   -- DataHighloadV2{SubWalletId, LastCleanedTime, PublicKey, Queries}
    natToBits 32 o.subDefault ++ natToBits 64 0 ++ pkBits pk ++ [false]

/-- the data of a fresh wallet: seqno 0 -/
def dataBits (v : Version) (pk : List UInt8) (o : Opts) : List Bool := dataBitsSeq v 0 pk o

/-- the identifying fields, besides the key, that the version's data holds (used to state injectivity): sub-wallet id
for v3/v4/highload, (network id, workchain byte, sub-wallet id) for v5 beta, the wallet id for v5r1, nothing for v1/v2 -/
def identFields (v : Version) (o : Opts) : List Nat :=
  match v.family with
  | .v1v2 => []
  | .v3 | .v4 | .highload => [o.subDefault]
  | .v5beta => [toU32 o.netOr, toU8 o.wc, o.subWallet.getD 0]
  | .v5r1 => [walletIdV5R1 o]

/-- option values as Go can hold them: sub-wallet id is a uint32 -/
def Opts.WF (o : Opts) : Prop := ∀ s, o.subWallet = some s → s < 4294967296

def dataCell (v : Version) (pk : List UInt8) (o : Opts) : Cell := .ordinary (dataBits v pk o) []

/-- tlb.StateInit{Code: just ^code, Data: just ^data}: `split_depth` nothing, `special` nothing, two `Maybe ^`, empty
library dictionary -/
def stateInitCell (code data : Cell) : Cell := .ordinary [false, false, true, true, false] [code, data]

/-- `generateStateInit` followed by marshalling -/
def walletStateInit (code : Cell) (v : Version) (pk : List UInt8) (o : Opts) : Cell :=
  stateInitCell code (dataCell v pk o)

structure Address where
  workchain : Int
  hash : List UInt8
  deriving Repr, DecidableEq

/-- `generateAddress`: `AccountID{int32(workchain), Hash(stateInit)}` -/
def address (H : List UInt8 → List UInt8) (code : Cell) (v : Version) (pk : List UInt8) (o : Opts) : Outcome Address := do
  let h ← (walletStateInit code v pk o).hashO? H
  pure { workchain := toI32 o.wc, hash := h }

/-- `wallet.New(key, ver, _, opts…).GetAddress()` for a version number as Go passes it -/
def newGetAddress (H : List UInt8 → List UInt8) (code : Cell) (ver : Nat) (pk : List UInt8) (o : Opts) : Outcome Address :=
  match Version.ofGoIndex? ver with
  | none => .err "unsupported wallet version"
  | some v => address H code v pk o

/-- The PUBLISHED code of every version, pinned by its representation hash (big-endian number). Written here from the
public record of the wallet contracts — the same twelve hashes appear, independently of wallet/models.go, in the table of
known contracts of abi/interfaces.go —; the code cells the Go library ships (`wallet.GetCodeByVer`) are compared with this
table on every run (op `w.codehash`), so replacing a code constant by another one (even another version's) is a
model ≠ code difference. -/
def publishedCodeHash : Version → Nat
  | .v1r1 => 0xa0cfc2c48aee16a271f2cfc0b7382d81756cecb1017d077faaab3bb602f6868c
  | .v1r2 => 0xd4902fcc9fad74698fa8e353220a68da0dcf72e32bcb2eb9ee04217c17d3062c
  | .v1r3 => 0x587cc789eff1c84f46ec3797e45fc809a14ff5ae24f1e0c7a6a99cc9dc9061ff
  | .v2r1 => 0x5c9a5e68c108e18721a07c42f9956bfb39ad77ec6d624b60c576ec88eee65329
  | .v2r2 => 0xfe9530d3243853083ef2ef0b4c2908c0abf6fa1c31ea243aacaa5bf8c7d753f1
  | .v3r1 => 0xb61041a58a7980b946e8fb9e198e3c904d24799ffa36574ea4251c41a566f581
  | .v3r2 => 0x84dafa449f98a6987789ba232358072bc0f76dc4524002a5d0918b9a75d2d599
  | .v4r1 => 0x64dd54805522c5be8a9db59cea0105ccf0d08786ca79beb8cb79e880a8d7322d
  | .v4r2 => 0xfeb5ff6820e2ff0d9483e7e0d62c817d846789fb4ae580c878866d959dabd5c0
  | .v5beta => 0xf3d7ca53493deedac28b381986a849403cbac3d2c584779af081065af0ac4b93
  | .v5r1 => 0x20834b7b72b112147e1b2fb457b84e74d1a30f04f737d4f62a668e9552d2b72f
  | .highloadV2R2 => 0x203dd4f358adb49993129aa925cac39916b68a0e4f78d26e8f2c2b69eafa5679

/-- `maxMessageNumber()` -/
def maxMessages (v : Version) : Nat :=
  match v.family with
  | .v1v2 | .v3 | .v4 => 4
  | .v5beta | .highload => 254
  | .v5r1 => 255

end Tongo.Wallet
