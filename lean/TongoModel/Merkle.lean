import TongoModel.Cell
import TongoModel.CellHashSpec
import TongoModel.Hashmap
/-! Merkle proof construction (boc/merkle_proof.go, `immutableCell.pruneCells` in boc/immutable_cell.go,
`tlb.ProveKeyInHashmap` in tlb/hashmap.go), modelled on cell trees.

The prune set of a `Cursor` is a set of *positions* (paths of ref indices from the prover's root; keyed by position
since the repair `fix: key the Merkle prover's pruned set by position`, before that by `*immutableCell`, which pruned
every occurrence of a shared cell at once). On trees this is a predicate `P` on paths; the theorems hold for every
`P`. The hash function is a parameter. -/
namespace Tongo.Merkle
open Tongo

/-- the cell `pruneCells` writes for a pruned position: `01 01 hash₀ depth₀`, level mask 1, no refs -/
def prunedCell (h : List UInt8) (d : Nat) : Cell :=
  .mk tyPruned 1 (Bits.bytesToBits ([1, 1] ++ h ++ be16 d)) []

/-- the root `CreateProof` builds: `03 hash₀ depth₀`, mask 0, one ref -/
def proofCell (h : List UInt8) (d : Nat) (child : Cell) : Cell :=
  .mk tyMerkleProof 0 (Bits.bytesToBits ([3] ++ h ++ be16 d)) [child]

mutual
/-- `immutableCell.pruneCells`: `path` is the position of `c` below the prover's root -/
def pruneCells (H : List UInt8 → List UInt8) (P : List Nat → Bool) : List Nat → Cell → Outcome Cell
  | path, .mk ty mask bits refs =>
    if ty = tyMerkleProof ∨ ty = tyMerkleUpdate then .err "unsupported cell type"
    else if P path then do
      -- ic.Hash(0), ic.Depth(0) of the immutable cell computed by NewMerkleProver
      let info ← Cell.info H (.mk ty mask bits refs)
      let h ← info.hashAt 0
      let d ← info.depthAt 0
      pure (prunedCell h d)
    else do
      let kids ← pruneList H P path 0 refs
      pure (.mk ty (kids.foldl (fun m k => m ||| k.mask) mask) bits kids)
def pruneList (H : List UInt8 → List UInt8) (P : List Nat → Bool) : List Nat → Nat → List Cell → Outcome (List Cell)
  | _, _, [] => .ok []
  | path, i, c :: cs => do
    let k ← pruneCells H P (path ++ [i]) c
    let ks ← pruneList H P path (i + 1) cs
    pure (k :: ks)
end

/-- `NewMerkleProver` + `CreateProof`: the Merkle-proof cell over the pruned tree. `SerializeBoc` starts by hashing
the root it is given (`importCell` → `Hasher.HashString`), so a proof cell that is too deep is an error; the bytes
themselves are C01's subject. -/
def createProof (H : List UInt8 → List UInt8) (P : List Nat → Bool) (root : Cell) : Outcome Cell := do
  let info ← Cell.info H root
  let pr ← pruneCells H P [] root
  let h ← info.hashAt 0
  let d ← info.depthAt 0
  let proof := proofCell h d pr
  let _ ← Cell.reprHash H proof
  pure proof

/-! ### specification of pruning: what the pruned tree is, in terms of the DEFINITION of hash and depth -/

mutual
/-- the tree with the positions in `P` replaced by pruned branches holding the level-0 hash and depth (TON
definition, `Spec.hashAt`/`Spec.depthAt`) of the subtree they replace; ancestors' masks are the OR of their
children's masks -/
def specPrune (H : List UInt8 → List UInt8) (P : List Nat → Bool) : List Nat → Cell → Cell
  | path, .mk ty mask bits refs =>
    if P path then prunedCell (Spec.hashAt H (.mk ty mask bits refs) 0) (Spec.depthAt (.mk ty mask bits refs) 0)
    else
      let kids := specPruneList H P path 0 refs
      .mk ty (kids.foldl (fun m k => m ||| k.mask) mask) bits kids
def specPruneList (H : List UInt8 → List UInt8) (P : List Nat → Bool) : List Nat → Nat → List Cell → List Cell
  | _, _, [] => []
  | path, i, c :: cs => specPrune H P (path ++ [i]) c :: specPruneList H P path (i + 1) cs
end

mutual
/-- trees the prover supports: well-formed, level 0 throughout, only ordinary and library cells -/
def plain : Cell → Bool
  | .mk ty mask bits refs =>
    (ty == tyOrdinary || ty == tyLibrary) && mask == 0 && Spec.wfNode ty mask bits refs && plainL refs
def plainL : List Cell → Bool
  | [] => true
  | c :: cs => plain c && plainL cs
end

mutual
/-- no cell has exactly one ref (dictionary nodes are leaves or binary forks) -/
def noSingleRef : Cell → Bool
  | .mk _ _ _ refs => refs.length != 1 && noSingleRefL refs
def noSingleRefL : List Cell → Bool
  | [] => true
  | c :: cs => noSingleRef c && noSingleRefL cs
end

/-- the cell at `path` below `c` (`Cursor.Ref` chain); `none` = `c.cell.refs[ref]` out of range, a Go panic -/
def cellAt : Cell → List Nat → Option Cell
  | c, [] => some c
  | .mk _ _ _ refs, i :: rest => match refs[i]? with
    | some k => cellAt k rest
    | none => none

/-! ### dictionary labels and `ProveKeyInHashmap` -/

/-- `minBitsRequired` = bit length (agent dict's model of boc.minBitsRequired, exact below 2^64) -/
def bitLen (n : Nat) : Nat := Hashmap.minBitsRequired n

/-- leading ones and the rest after the terminating zero (`ReadUnary`); `none` = ran out of bits -/
def readUnary : List Bool → Option (Nat × List Bool)
  | [] => none
  | false :: rest => some (0, rest)
  | true :: rest => (readUnary rest).map fun (n, r) => (n + 1, r)

/-- `loadLabel(size, c, key)`: the label bits and the remaining data bits; `none` = a read failed (Go error) -/
def loadLabel (size : Nat) (bits : List Bool) : Option (List Bool × List Bool) :=
  match bits with
  | false :: rest => do            -- hml_short$0
    let (n, r) ← readUnary rest
    if r.length < n then none else some (r.take n, r.drop n)
  | true :: false :: rest =>       -- hml_long$10
    let w := bitLen size
    if rest.length < w then none
    else
      let n := Bits.bitsToNat (rest.take w)
      let r := rest.drop w
      if r.length < n then none else some (r.take n, r.drop n)
  | true :: true :: v :: rest =>   -- hml_same$11
    let w := bitLen size
    if rest.length < w then none
    else some (List.replicate (Bits.bitsToNat (rest.take w)) v, rest.drop w)
  | _ => none

/-- result of the walk of `ProveKeyInHashmap`: the leaf cell, the data bits left after its label, the paths pruned -/
structure Walk where
  leaf : Cell
  rest : List Bool
  pruned : List (List Nat)
  pfx : List Bool
  deriving Inhabited

/-- the loop of `ProveKeyInHashmap`. `key` = key bits not yet consumed, `pfx` = reconstructed prefix (capacity
`keySize`: writing beyond it is a Go error), `path` = cursor position, `fuel` bounds the iterations (each one descends) -/
def walk (keySize : Nat) : Nat → Nat → Cell → List Nat → List Bool → List Bool → List (List Nat) → Outcome Walk
  | 0, _, _, _, _, _, _ => .err "fuel"
  | fuel + 1, remaining, cell, path, key, pfx, pruned =>
    match loadLabel remaining cell.bits with
    | none => .err "label"
    | some (label, rest) =>
      -- loadLabel writes the label bit by bit into the prefix, whose capacity is keySize
      if pfx.length + label.length > keySize then .err "prefix overflow"
      else
        let pfx := pfx ++ label
        let size := label.length
        if remaining ≤ size then .ok { leaf := cell, rest := rest, pruned := pruned, pfx := pfx }
        else if key.length < size then .err "key bits"
        else
          match key.drop size with
          | [] => .err "key bit"
          | isRight :: key' =>
            if pfx.length + 1 > keySize then .err "prefix overflow"
            else
              match cell.refs[0]? with
              | none => .err "no ref"                       -- cell.NextRef()
              | some r0 =>
                if isRight then
                  -- cursor.Ref(0).Prune(); next = cell.NextRef(); cursor = cursor.Ref(1)
                  match cell.refs[1]? with
                  | none => .err "no ref"
                  | some r1 => walk keySize fuel (remaining - size - 1) r1 (path ++ [1]) key' (pfx ++ [true])
                                 (pruned ++ [path ++ [0]])
                else
                  -- cursor.Ref(1).Prune(): indexes the immutable cell's refs slice
                  match cell.refs[1]? with
                  | none => .panic "index out of range (Cursor.Ref)"
                  | some _ => walk keySize fuel (remaining - size - 1) r0 (path ++ [0]) key' (pfx ++ [false])
                                 (pruned ++ [path ++ [1]])

/-- `ProveKeyInHashmap` for a value type that reads `valueBits` bits: (value bits, proof cell) -/
def proveKey (H : List UInt8 → List UInt8) (valueBits : Nat) (root : Cell) (key : List Bool) :
    Outcome (List Bool × Cell) := do
  -- NewMerkleProver(root) is called by the caller and fails if hashing fails
  let _ ← Cell.info H root
  let keySize := key.length
  let w ← walk keySize (keySize + 2) keySize root [] key [] []
  -- Unmarshal(cell, &t)
  if w.rest.length < valueBits then .err "value"
  else
    -- prefix.ReadBits(keySize); constructedKey == key
    if w.pfx.length < keySize then .err "prefix too short"
    else if w.pfx.take keySize ≠ key then .err "key is not found"
    else do
      let proof ← createProof H (fun p => w.pruned.contains p) root
      pure (w.rest.take valueBits, proof)

/-- the dictionary lookup of the TON specification (labels must match the key): the leaf's remaining bits and refs -/
def dictLookup : Nat → Nat → Cell → List Bool → Option (List Bool × List Cell)
  | 0, _, _, _ => none
  | fuel + 1, n, cell, key =>
    match loadLabel n cell.bits with
    | none => none
    | some (label, rest) =>
      if label.length > n then none
      else if key.take label.length ≠ label then none
      else if label.length = n then some (rest, cell.refs)
      else
        match key.drop label.length with
        | [] => none
        | b :: key' =>
          match cell.refs[if b then 1 else 0]? with
          | none => none
          | some k => dictLookup fuel (n - label.length - 1) k key'

/-! ### conversion of a tree to a table (for the canonical dump of results) -/

mutual
def toRows : Cell → Array CellRow → Nat × Array CellRow
  | .mk ty mask bits refs, acc =>
    let me := acc.size
    let acc := acc.push { ty := ty, mask := mask, bits := bits, refs := [] }
    let (ids, acc) := toRowsList refs acc
    (me, acc.modify me fun r => { r with refs := ids })
def toRowsList : List Cell → Array CellRow → List Nat × Array CellRow
  | [], acc => ([], acc)
  | c :: cs, acc =>
    let (i, acc) := toRows c acc
    let (is, acc) := toRowsList cs acc
    (i :: is, acc)
end

/-- the tree as a table in pre-order (row 0 = root, refs point to later rows, no sharing) -/
def toTable (c : Cell) : Table := (toRows c #[]).2

end Tongo.Merkle
