import TongoModel.Outcome
import TongoModel.Bits
import TongoModel.Prim.Hex
import TongoModel.Prim.Dec
/-! JSON forms of chain values (property C20): every hand-rolled / generated `MarshalJSON` as a printer
`value → Str` and every `UnmarshalJSON` as a parser `Str → Outcome value`, mirroring the Go code function by function
(tlb/integers.go, tlb/models.go, tlb/primitives.go, tlb/messages.go, boc/bitString.go, ton/bits.go,
tl/basic_types.go). `Str = List Char`; a Go byte `b` is the character `Char.ofNat b`.

The parsers take the bytes handed to the `UnmarshalJSON` METHOD (what encoding/json passes after its own syntax
scan: the value text without surrounding white space). `valid` below is a transcription of encoding/json's
scanner (checkValid) used where the Go code itself calls `json.Unmarshal` (Maybe, Int256, AccountID) and as the
predicate of `json_valid`; it is compared with Go's json.Valid on every generated document. -/
namespace Tongo.Json
open Tongo Tongo.Dec

def quote (s : Str) : Str := '"' :: s ++ ['"']

def hasPrefix (p s : Str) : Bool := p.isPrefixOf s
/-- strings.HasSuffix(s, "c") for a one-byte suffix -/
def hasSuffixChar (c : Char) (s : Str) : Bool := s.getLast? == some c

/-! ## encoding/json syntax scan (scanner.go) -/

def isWs (c : Char) : Bool := c == ' ' || c == '\t' || c == '\r' || c == '\n'
def skipWs (s : Str) : Str := s.dropWhile isWs
def isHexDigit (c : Char) : Bool := (Hex.charNibble? c).isSome

/-- the string states of the scanner (after the opening quote); returns the rest after the closing quote.
`st`: 0 inside the string, 1 after a backslash, k+2 inside `\u` with k+1 hex digits still to come -/
def scanStr : Nat → Str → Option Str
  | _, [] => none
  | 0, c :: r =>
    if c == '"' then some r
    else if c == '\\' then scanStr 1 r
    else if c.toNat < 0x20 then none
    else scanStr 0 r
  | 1, c :: r =>
    if c == 'u' then scanStr 5 r
    else if c == '"' || c == '\\' || c == '/' || c == 'b' || c == 'f' || c == 'n' || c == 'r' || c == 't' then scanStr 0 r
    else none
  | k + 2, c :: r => if isHexDigit c then scanStr (if k = 0 then 0 else k + 1) r else none

def scanString (s : Str) : Option Str := scanStr 0 s

def scanDigits1 (s : Str) : Option Str :=
  match s with
  | c :: _ => if isDigit c then some (s.dropWhile isDigit) else none
  | [] => none

def stripMinus : Str → Str
  | '-' :: r => r
  | s => s

def stripSign : Str → Str
  | '-' :: r => r
  | '+' :: r => r
  | s => s

/-- `0 | [1-9][0-9]*` -/
def scanIntPart : Str → Option Str
  | [] => none
  | c :: r => if c == '0' then some r else if isDigit c then some (r.dropWhile isDigit) else none

def scanFrac : Str → Option Str
  | '.' :: r => scanDigits1 r
  | s => some s

def scanExp : Str → Option Str
  | [] => some []
  | c :: r => if c == 'e' || c == 'E' then scanDigits1 (stripSign r) else some (c :: r)

/-- `-? (0 | [1-9][0-9]*) (. [0-9]+)? ([eE] [+-]? [0-9]+)?` -/
def scanNumber (s : Str) : Option Str :=
  (scanIntPart (stripMinus s)).bind fun s => (scanFrac s).bind scanExp

inductive ScanMode where
  | value | elems | members

/-- one JSON value (`.value`), the elements of an array after `[` (`.elems`, non-empty) or the members of an object
after `{` (`.members`) at the head of the input; `fuel` bounds the call depth -/
def scanJ : Nat → ScanMode → Str → Option Str
  | 0, _, _ => none
  | fuel + 1, .value, s =>
    match s with
    | '"' :: r => scanString r
    | '[' :: r =>
      match skipWs r with
      | ']' :: r' => some r'
      | r' => scanJ fuel .elems r'
    | '{' :: r =>
      match skipWs r with
      | '}' :: r' => some r'
      | r' => scanJ fuel .members r'
    | 't' :: 'r' :: 'u' :: 'e' :: r => some r
    | 'f' :: 'a' :: 'l' :: 's' :: 'e' :: r => some r
    | 'n' :: 'u' :: 'l' :: 'l' :: r => some r
    | _ => scanNumber s
  | fuel + 1, .elems, s =>
    match scanJ fuel .value s with
    | none => none
    | some r =>
      match skipWs r with
      | ']' :: r' => some r'
      | ',' :: r' => scanJ fuel .elems (skipWs r')
      | _ => none
  | fuel + 1, .members, s =>
    match s with
    | '"' :: r =>
      match scanString r with
      | none => none
      | some r =>
        match skipWs r with
        | ':' :: r =>
          match scanJ fuel .value (skipWs r) with
          | none => none
          | some r =>
            match skipWs r with
            | '}' :: r' => some r'
            | ',' :: r' => scanJ fuel .members (skipWs r')
            | _ => none
        | _ => none
    | _ => none

def scanValue (fuel : Nat) (s : Str) : Option Str := scanJ fuel .value s

/-- json.Valid -/
def valid (p : Str) : Bool :=
  match scanValue (2 * p.length + 2) (skipWs p) with
  | some r => (skipWs r).isEmpty
  | none => false

def trimWs (s : Str) : Str := ((s.dropWhile isWs).reverse.dropWhile isWs).reverse

/-! ### UTF-8 decoding as Go does it for rune-wise code (`range` over a string, fmt's ReadRune)

`utf8.DecodeRune`: a well-formed sequence gives its code point; anything else (stray continuation byte, overlong
form, surrogate, value above U+10FFFF, truncated sequence) gives U+FFFD and consumes ONE byte. Input characters are
bytes (below 256); a character that is not a byte is passed through. -/

def isCont (c : Char) : Bool := 0x80 ≤ c.toNat && c.toNat ≤ 0xBF
def runeError : Char := Char.ofNat 0xFFFD

/-- the first rune of a non-empty byte string and the number of bytes it occupies -/
def decodeRune1 (c : Char) (r : Str) : Char × Nat :=
  let b0 := c.toNat
  if b0 < 0x80 ∨ 0x100 ≤ b0 then (c, 1)
  else if 0xC2 ≤ b0 ∧ b0 ≤ 0xDF then
    match r with
    | c1 :: _ => if isCont c1 then (Char.ofNat ((b0 % 32) * 64 + c1.toNat % 64), 2) else (runeError, 1)
    | _ => (runeError, 1)
  else if 0xE0 ≤ b0 ∧ b0 ≤ 0xEF then
    match r with
    | c1 :: c2 :: _ =>
      let lo := if b0 = 0xE0 then 0xA0 else 0x80
      let hi := if b0 = 0xED then 0x9F else 0xBF
      if lo ≤ c1.toNat ∧ c1.toNat ≤ hi ∧ isCont c2 then
        (Char.ofNat (((b0 % 16) * 64 + c1.toNat % 64) * 64 + c2.toNat % 64), 3)
      else (runeError, 1)
    | _ => (runeError, 1)
  else if 0xF0 ≤ b0 ∧ b0 ≤ 0xF4 then
    match r with
    | c1 :: c2 :: c3 :: _ =>
      let lo := if b0 = 0xF0 then 0x90 else 0x80
      let hi := if b0 = 0xF4 then 0x8F else 0xBF
      if lo ≤ c1.toNat ∧ c1.toNat ≤ hi ∧ isCont c2 ∧ isCont c3 then
        (Char.ofNat ((((b0 % 8) * 64 + c1.toNat % 64) * 64 + c2.toNat % 64) * 64 + c3.toNat % 64), 4)
      else (runeError, 1)
    | _ => (runeError, 1)
  else (runeError, 1)

/-- the runes of a byte string; `fuel` (the length suffices) bounds the recursion -/
def utf8DecodeF : Nat → Str → Str
  | 0, _ => []
  | _, [] => []
  | fuel + 1, c :: r =>
    let (ru, w) := decodeRune1 c r
    ru :: utf8DecodeF fuel (r.drop (w - 1))

def utf8Decode (s : Str) : Str := utf8DecodeF s.length s

/-- `for _, x := range s { … uint8(x) … }`: the runes truncated to a byte (how BitStringFromFiftHex read its input
before it was made byte-wise; kept for the record) -/
def runeBytes (s : Str) : Str := (utf8Decode s).map fun r => Char.ofNat (r.toNat % 256)

/-- utf8.EncodeRune (surrogates and values above U+10FFFF become U+FFFD) -/
def utf8EncodeRune (n : Nat) : Str :=
  let n := if (0xD800 ≤ n ∧ n ≤ 0xDFFF) ∨ 0x10FFFF < n then 0xFFFD else n
  if n < 0x80 then [Char.ofNat n]
  else if n < 0x800 then [Char.ofNat (0xC0 + n / 64), Char.ofNat (0x80 + n % 64)]
  else if n < 0x10000 then [Char.ofNat (0xE0 + n / 4096), Char.ofNat (0x80 + n / 64 % 64), Char.ofNat (0x80 + n % 64)]
  else [Char.ofNat (0xF0 + n / 262144), Char.ofNat (0x80 + n / 4096 % 64), Char.ofNat (0x80 + n / 64 % 64),
    Char.ofNat (0x80 + n % 64)]

def utf8Encode (s : Str) : Str := s.flatMap fun c => utf8EncodeRune c.toNat

def hex4 (a b c d : Char) : Option Nat :=
  match Hex.charNibble? a, Hex.charNibble? b, Hex.charNibble? c, Hex.charNibble? d with
  | some a, some b, some c, some d => some (((a * 16 + b) * 16 + c) * 16 + d)
  | _, _, _, _ => none

/-- encoding/json's unquote without the final UTF-8 sanitation: the bytes of the string with the escapes resolved
(`\uXXXX` becomes the UTF-8 encoding of the code point; a high surrogate followed by an escaped low surrogate is one
code point, any other surrogate is U+FFFD) -/
def unescape : Str → Str
  | [] => []
  | '\\' :: 'u' :: a :: b :: c :: d :: '\\' :: 'u' :: e :: f :: g :: h :: r =>
    match hex4 a b c d, hex4 e f g h with
    | some hi, some lo =>
      if 0xD800 ≤ hi ∧ hi ≤ 0xDBFF ∧ 0xDC00 ≤ lo ∧ lo ≤ 0xDFFF then
        utf8EncodeRune (0x10000 + (hi - 0xD800) * 0x400 + (lo - 0xDC00)) ++ unescape r
      else utf8EncodeRune hi ++ unescape ('\\' :: 'u' :: e :: f :: g :: h :: r)
    | some hi, none => utf8EncodeRune hi ++ unescape ('\\' :: 'u' :: e :: f :: g :: h :: r)
    | none, _ => unescape ('\\' :: 'u' :: e :: f :: g :: h :: r)
  | '\\' :: 'u' :: a :: b :: c :: d :: r =>
    match hex4 a b c d with
    | some x => utf8EncodeRune x ++ unescape r
    | none => unescape r
  | '\\' :: e :: r =>
    (if e == 'b' then Char.ofNat 8 else if e == 'f' then Char.ofNat 12 else if e == 'n' then '\n'
     else if e == 'r' then '\r' else if e == 't' then '\t' else e) :: unescape r
  | c :: r => c :: unescape r
termination_by s => s.length

/-- the Go string a JSON string literal denotes: escapes resolved, every invalid UTF-8 byte replaced by U+FFFD -/
def goUnquote (body : Str) : Str := utf8Encode (utf8Decode (unescape body))

/-- json.Unmarshal(data, &s) for a Go `string` target with s = "" before: syntax error, type error for anything but a
string or null; `null` leaves the string empty -/
def unmarshalString (data : Str) : Outcome Str :=
  if !valid data then .err "syntax"
  else
    let v := trimWs data
    match v with
    | '"' :: r => .ok (goUnquote r.dropLast)
    | 'n' :: _ => .ok []
    | _ => .err "type"

/-! ## generated integer types (tlb/integers.go) -/

/-- the generator quotes widths of 57 bits and more -/
def quotedWidth (bits : Nat) : Bool := decide (bits ≥ 57)

def printUintN (bits : Nat) (v : Nat) : Str := if quotedWidth bits then quote (printNat v) else printNat v
def printIntN (bits : Nat) (v : Int) : Str := if quotedWidth bits then quote (printInt v) else printInt v

/-- `strconv.ParseUint(strings.Trim(string(p), "\""), 10, bits)` -/
def parseUintN (bits : Nat) (p : Str) : Outcome Nat := (parseUint (trimQuote p) 10 bits).toOutcome
/-- `strconv.ParseInt(strings.Trim(string(p), "\""), 10, bits)` -/
def parseIntN (bits : Nat) (p : Str) : Outcome Int := parseInt (trimQuote p) 10 bits

/-- big.Int based types (Uint128…Int257, VarUIntegerN): `"` + i.String() + `"` -/
def printBig (v : Int) : Str := quote (printInt v)
def parseBigJson (p : Str) : Outcome Int := parseBig (trimQuote p)

/-! ## byte arrays -/

def hexLower (bs : List UInt8) : Str :=
  bs.flatMap fun b => [Hex.nibbleChar (b.toNat / 16), Hex.nibbleChar (b.toNat % 16)]

/-- BitsN ([n]byte): `"%x"` -/
def printBitsN (bs : List UInt8) : Str := quote (hexLower bs)
/-- hex.DecodeString(Trim) then the length check -/
def parseBitsN (n : Nat) (p : Str) : Outcome (List UInt8) :=
  match Hex.decodeChars (trimQuote p) with
  | none => .err "hex"
  | some bs => if bs.length ≠ n then .err "length" else .ok bs

/-- tl.Int256: json.Marshal(hex) / json.Unmarshal into a string, hex.DecodeString, length 32 -/
def printInt256 (bs : List UInt8) : Str := quote (hexLower bs)
def parseInt256 (p : Str) : Outcome (List UInt8) :=
  match unmarshalString p with
  | .ok h =>
    match Hex.decodeChars h with
    | none => .err "hex"
    | some bs => if bs.length ≠ 32 then .err "length" else .ok bs
  | .err e => .err e
  | .panic e => .panic e

/-! ### ton.Bits256: `fmt.Fscanf(r, "\"%x\"", &sl)` (fmt/scan.go) -/

/-- fmt's isSpace (a copy of unicode.White_Space below U+10000) -/
def isScanSpace (c : Char) : Bool :=
  let n := c.toNat
  (9 ≤ n && n ≤ 13) || n == 32 || n == 0x85 || n == 0xa0 || n == 0x1680 || (0x2000 ≤ n && n ≤ 0x200a) ||
    n == 0x2028 || n == 0x2029 || n == 0x202f || n == 0x205f || n == 0x3000

/-- ss.SkipSpace with nlIsSpace = false: a newline is an error ("unexpected newline") -/
def scanSkipSpace : Str → Outcome Str
  | [] => .ok []
  | c :: r =>
    if c == '\n' then .err "unexpected newline"
    else if isScanSpace c then scanSkipSpace r
    else .ok (c :: r)

/-- ss.hexString's loop: pairs of hex digits; a lone hex digit followed by a non-hex rune or EOF is an error -/
def scanHexPairs : Str → Outcome (List UInt8 × Str)
  | [] => .ok ([], [])
  | [a] => if isHexDigit a then .err "unexpected EOF" else .ok ([], [a])
  | a :: b :: r =>
    match Hex.charNibble? a with
    | none => .ok ([], a :: b :: r)
    | some x =>
      match Hex.charNibble? b with
      | none => .err "illegal hex digit"
      | some y =>
        match scanHexPairs r with
        | .ok (bs, r') => .ok (UInt8.ofNat (x * 16 + y) :: bs, r')
        | .err e => .err e
        | .panic e => .panic e

/-- the scan over the runes of the input -/
def parseBits256ScanR (buf : Str) : Outcome (List UInt8) :=
  match buf with
  | '"' :: r =>
    match scanSkipSpace r with
    | .ok r =>
      if r.isEmpty then .err "EOF"
      else
        match scanHexPairs r with
        | .ok (bs, r') =>
          if bs.isEmpty then .err "no hex data"
          else if bs.length ≠ 32 then .err "length"   -- checked first in Go; every other failure is an error too
          else match r' with
            | '"' :: _ => .ok bs
            | _ => .err "input does not match format"
        | .err e => .err e
        | .panic e => .panic e
    | .err e => .err e
    | .panic e => .panic e
  | _ => .err "input does not match format"

def parseBits256Scan (buf : Str) : Outcome (List UInt8) := parseBits256ScanR (utf8Decode buf)

/-! ## Grams, SignedCoins, Magic, Maybe -/

def trimCoins (s : Str) : Str := trimSet ['"', ' ', '\n'] s

def printGrams (v : Nat) : Str := quote (printNat v)
def parseGrams (p : Str) : Outcome Nat := (parseUint (trimCoins p) 10 64).toOutcome

def printSignedCoins (v : Int) : Str := quote (printInt v)
/-- as shipped: `strconv.ParseUint` (defect #14: rejects every negative amount its own printer emits) -/
def parseSignedCoinsShipped (p : Str) : Outcome Int :=
  match parseUint (trimCoins p) 10 64 with
  | .ok n => .ok (if n ≥ 2 ^ 63 then (n : Int) - 2 ^ 64 else n)   -- SignedCoins(uint64) conversion wraps
  | _ => .err "parse"
/-- repaired (`fix:` commit): `strconv.ParseInt(…, 10, 64)` -/
def parseSignedCoins (p : Str) : Outcome Int := parseInt (trimCoins p) 10 64

/-- Magic (uint32): json.Marshal("0x%x") -/
def printMagic (v : Nat) : Str := quote ('0' :: 'x' :: printHexNat v)
/-- Trim, optional `0x`, ParseUint(…, 16, 64), conversion to uint32 truncates -/
def parseMagic (p : Str) : Outcome Nat :=
  let s := trimQuote p
  let s := if hasPrefix ['0', 'x'] s then s.drop 2 else s
  match parseUint s 16 64 with
  | .ok n => .ok (n % 2 ^ 32)
  | _ => .err "parse"

def nullLit : Str := ['n', 'u', 'l', 'l']

def printMaybe {α} (pr : α → Str) : Option α → Str
  | none => nullLit
  | some v => pr v

/-- `if string(b) == "null" {…}; json.Unmarshal(b, &m.Value)`: encoding/json checks the syntax, then hands the value
text (white space trimmed) to the inner UnmarshalJSON -/
def parseMaybe {α} (pa : Str → Outcome α) (b : Str) : Outcome (Option α) :=
  if b = nullLit then .ok none
  else if !valid b then .err "syntax"
  else match pa (trimWs b) with
    | .ok v => .ok (some v)
    | .err e => .err e
    | .panic e => .panic e

/-! ## Fift hex (boc.BitString.ToFiftHex / BitStringFromFiftHex) -/

def nibblesOf : List Bool → List Nat
  | a :: b :: c :: d :: r => (8 * a.toNat + 4 * b.toNat + 2 * c.toNat + d.toNat) :: nibblesOf r
  | _ => []

def toFift (bits : List Bool) : Str :=
  if bits.length % 4 = 0 then (nibblesOf bits).map Hex.nibbleCharUpper
  else (nibblesOf (bits ++ true :: List.replicate (3 - bits.length % 4) false)).map Hex.nibbleCharUpper ++ ['_']

/-- suffixToBits: the data bits of a final padded nibble (`0_` and `8_` are not in the table) -/
def endingBits (n : Nat) : Option (List Bool) :=
  match Bits.stripTag (Bits.natToBits 4 n) with
  | some [] => none
  | r => r

def nibblesToBits (ns : List Nat) : List Bool := ns.flatMap (Bits.natToBits 4)

/-- hexToInt on every byte (since `fix: BitStringFromFiftHex rejects non-ASCII characters` the loop is byte-wise) -/
def nibblesOfHex : Str → Option (List Nat)
  | [] => some []
  | c :: r =>
    match Hex.charNibble? c, nibblesOfHex r with
    | some n, some ns => some (n :: ns)
    | _, _ => none

def fromFift (s : Str) : Outcome (List Bool) :=
  if hasSuffixChar '_' s then
    if s.length < 2 then .err "invalid hex"
    else
      let body := s.take (s.length - 2)          -- hexRepr[:len-2]
      match s[s.length - 2]? with               -- first byte of hexRepr[len-2:]
      | none => .panic "index out of range"
      | some c =>
        match (Hex.charNibble? c).bind endingBits, nibblesOfHex body with
        | some e, some ns => .ok (nibblesToBits ns ++ e)
        | _, _ => .err "invalid hex"
  else
    match nibblesOfHex s with
    | some ns => .ok (nibblesToBits ns)
    | none => .err "invalid hex"

def printBitString (b : List Bool) : Str := quote (toFift b)
def parseBitString (p : Str) : Outcome (List Bool) := fromFift (trimQuote p)

/-! ## MsgAddress (tlb/messages.go) -/

structure Anycast where
  depth : Nat    -- uint32
  pfx : Nat      -- uint32
  deriving Repr, DecidableEq

inductive MsgAddr where
  | none
  | extern (bits : List Bool)
  | std (any : Option Anycast) (wc : Int) (addr : List UInt8)   -- int8, 32 bytes
  | var (any : Option Anycast) (wc : Int) (bits : List Bool)    -- int32, AddrLen = bits.length
  deriving Repr, DecidableEq

def anycastLit : Str := "Anycast(".toList

def anySuffix : Option Anycast → Str
  | none => []
  | some a => ':' :: anycastLit ++ printNat a.depth ++ ',' :: printNat a.pfx ++ [')']

def printMsgAddr : MsgAddr → Str
  | .none => quote []
  | .extern b => quote (toFift b)
  | .std any wc addr => quote (printInt wc ++ ':' :: hexLower addr ++ anySuffix any)
  | .var any wc b => quote (printInt wc ++ ':' :: toFift b ++ anySuffix any)

/-- strings.Split(s, sep) for a one-byte separator: always at least one part -/
def splitOn (sep : Char) : Str → List Str
  | [] => [[]]
  | c :: r =>
    if c == sep then [] :: splitOn sep r
    else match splitOn sep r with
      | p :: ps => (c :: p) :: ps
      | [] => [[c]]

/-- `%d` of fmt.Sscanf into a *uint32: skip spaces, the longest non-empty run of decimal digits,
strconv.ParseUint(tok, 10, 64), then the 32-bit overflow check -/
def scanUint32 (s : Str) : Outcome (Nat × Str) :=
  match scanSkipSpace s with
  | .ok s =>
    if s.isEmpty then .err "EOF"
    else
      let tok := s.takeWhile isDigit
      if tok.isEmpty then .err "expected integer"
      else match parseUint tok 10 64 with
        | .ok n => if n < 2 ^ 32 then .ok (n, s.drop tok.length) else .err "overflow"
        | _ => .err "parse"
  | .err e => .err e
  | .panic e => .panic e

/-- fmt.Sscanf(s, "%d,%d", &depth, &prefix): trailing input is ignored -/
def scanAnycastR (s : Str) : Outcome Anycast :=
  match scanUint32 s with
  | .ok (d, r) =>
    match r with
    | ',' :: r' =>
      match scanUint32 r' with
      | .ok (p, _) => .ok ⟨d, p⟩
      | .err e => .err e
      | .panic e => .panic e
    | _ => .err "input does not match format"
  | .err e => .err e
  | .panic e => .panic e

def scanAnycast (s : Str) : Outcome Anycast := scanAnycastR (utf8Decode s)

/-- Go slice expression `s[lo:hi]` on a string: panics unless lo ≤ hi ≤ len -/
def goSlice (s : Str) (lo hi : Nat) : Outcome Str :=
  if lo ≤ hi ∧ hi ≤ s.length then .ok ((s.take hi).drop lo) else .panic "slice bounds out of range"

/-- the third part of the text: `Anycast(` … `)`, the inside scanned with Sscanf("%d,%d") -/
def parseAnycastPart (p2 : Str) : Outcome Anycast :=
  if !hasPrefix anycastLit p2 || !hasSuffixChar ')' p2 then .err "unknown MsgAddress format"
  else (goSlice p2 anycastLit.length (p2.length - 1)).bind scanAnycast

/-- `num, err := strconv.ParseInt(parts[0], 10, 32); err == nil && MinInt8 <= num && num <= MaxInt8` -/
def isInt8Text (p0 : Str) : Bool :=
  match parseInt p0 10 32 with
  | .ok n => decide (-128 ≤ n) && decide (n ≤ 127)
  | _ => false

/-- "try AddrStd first": a 64-character second part without `_` at the end in an 8-bit workchain is a standard
address, everything else a variable-length one -/
def parseAddrBody (any : Option Anycast) (p0 p1 : Str) : Outcome MsgAddr :=
  if p1.length = 64 ∧ isInt8Text p0 ∧ !hasSuffixChar '_' p1 then
    match Hex.decodeChars p1 with
    | Option.none => .err "hex"
    | some dst => (parseInt p0 10 8).bind fun wc => .ok (.std any wc dst)
  else
    (fromFift p1).bind fun bits => (parseInt p0 10 32).bind fun wc => .ok (.var any wc bits)

def parseMsgAddr (b : Str) : Outcome MsgAddr :=
  let value := trimQuote b
  if value.isEmpty then .ok .none
  else
    match splitOn ':' value with
    | [] => .panic "unreachable: Split returned no parts"
    | [_] => (fromFift value).bind fun bits => .ok (.extern bits)
    | [p0, p1] => parseAddrBody Option.none p0 p1
    | [p0, p1, p2] => (parseAnycastPart p2).bind fun a => parseAddrBody (some a) p0 p1
    | _ => .err "unknown MsgAddress format"

/-! ## wrappers around codecs owned by other slices (modelled as parameters) -/

/-- boc.Cell / tlb.Any: `"` + BOC hex + `"`; ton.AccountID: json string of the raw form -/
def printWrapped {α} (toText : α → Str) (v : α) : Str := quote (toText v)
def parseTrimmed {α} (ofText : Str → Outcome α) (p : Str) : Outcome α := ofText (trimQuote p)
def parseViaString {α} (ofText : Str → Outcome α) (p : Str) : Outcome α :=
  match unmarshalString p with
  | .ok s => ofText s
  | .err e => .err e
  | .panic e => .panic e

end Tongo.Json

namespace Tongo.Json
open Tongo Tongo.Dec
/-! ## message-body envelopes: abi.InMsgBody / abi.ExtOutMsgBody (abi/messages.go)

    MarshalJSON:   {}                                                      (SumType = "", the empty body)
                   {"SumType": "<name>",["OpCode":<n>,]"Value":<value>}    value = `"` + BOC hex + `"` for "Unknown",
                                                                           json.Marshal(body.Value) for a known type
    UnmarshalJSON: json.Unmarshal(data, &struct{SumType string; OpCode *uint32; Value json.RawMessage}), then the
                   dispatch on SumType ("" ⇒ done, "Unknown" ⇒ Cell.UnmarshalJSON(Value), known ⇒ json.Unmarshal(Value))

The cell codec and the codecs of the known body types are parameters. encoding/json's object decoding is modelled:
members in order, keys matched after unescaping by simple case folding (ASCII, `ſ` ↦ S, `K` (Kelvin) ↦ K), later
duplicates win, unknown keys skipped, a value of the wrong JSON type for a field is an error (encoding/json saves the
first such error and returns it at the end). -/

/-- the text of the JSON value at the head of `s` and what follows it -/
def rawValue (fuel : Nat) (s : Str) : Option (Str × Str) :=
  match scanJ fuel .value s with
  | some rest => some (s.take (s.length - rest.length), rest)
  | none => none

/-- the members of an object after `{` (white space skipped, not `}`): key text (between the quotes) and value text -/
def rawMembers (vfuel : Nat) : Nat → Str → Option (List (Str × Str))
  | 0, _ => none
  | n + 1, s =>
    match s with
    | '"' :: r =>
      match scanString r with
      | none => none
      | some rest =>
        let key := r.take (r.length - rest.length - 1)
        match skipWs rest with
        | ':' :: r2 =>
          match rawValue vfuel (skipWs r2) with
          | none => none
          | some (v, r3) =>
            match skipWs r3 with
            | '}' :: _ => some [(key, v)]
            | ',' :: r4 => (rawMembers vfuel n (skipWs r4)).map fun ms => (key, v) :: ms
            | _ => none
        | _ => none
    | _ => none

/-- members of the object `v` (`v` is a valid, trimmed JSON value); `none` when `v` is not an object -/
def objectMembers (v : Str) : Option (List (Str × Str)) :=
  match v with
  | '{' :: r =>
    match skipWs r with
    | '}' :: _ => some []
    | r' => rawMembers (2 * v.length + 2) (v.length + 1) r'
  | _ => none

/-- encoding/json's foldName on one rune -/
def foldChar (c : Char) : Char :=
  let n := c.toNat
  if 97 ≤ n ∧ n ≤ 122 then Char.ofNat (n - 32)
  else if n = 0x17F then 'S'
  else if n = 0x212A then 'K'
  else c

def foldKey (k : Str) : Str := (utf8Decode (unescape k)).map foldChar

/-- the state of the anonymous struct while its members are stored -/
structure EnvFields where
  sumType : Str := []
  opCode : Option Nat := none
  value : Option Str := none

/-- literalStore for the three field types -/
def storeMember (st : EnvFields) (key val : Str) : Outcome EnvFields :=
  let fk := foldKey key
  if fk = ['S', 'U', 'M', 'T', 'Y', 'P', 'E'] then
    match val with
    | '"' :: r => .ok { st with sumType := goUnquote r.dropLast }
    | 'n' :: _ => .ok st
    | _ => .err "cannot unmarshal into string"
  else if fk = ['O', 'P', 'C', 'O', 'D', 'E'] then
    match val with
    | 'n' :: _ => .ok { st with opCode := none }
    | c :: _ =>
      if c == '"' || c == '{' || c == '[' || c == 't' || c == 'f' then .err "cannot unmarshal into uint32"
      else match parseUint val 10 64 with
        | .ok n => if n < 2 ^ 32 then .ok { st with opCode := some n } else .err "overflow"
        | _ => .err "cannot unmarshal number into uint32"
    | [] => .err "empty"
  else if fk = ['V', 'A', 'L', 'U', 'E'] then .ok { st with value := some val }
  else .ok st

def storeMembers (st : EnvFields) : List (Str × Str) → Outcome EnvFields
  | [] => .ok st
  | (k, v) :: ms => (storeMember st k v).bind fun st' => storeMembers st' ms

/-- json.Unmarshal(data, &r) for the anonymous struct -/
def unmarshalEnvelope (data : Str) : Outcome EnvFields :=
  if !valid data then .err "syntax"
  else
    let v := trimWs data
    match v with
    | 'n' :: _ => .ok {}
    | _ =>
      match objectMembers v with
      | some ms => storeMembers {} ms
      | none => .err "cannot unmarshal into struct"

/-- a decoded message body: empty, unknown (a cell), or a known type -/
inductive Body (C V : Type) where
  | empty (op : Option Nat)
  | unknown (op : Option Nat) (c : C)
  | known (name : Str) (op : Option Nat) (v : V)

def unknownName : Str := ['U', 'n', 'k', 'n', 'o', 'w', 'n']

/-- InMsgBody.UnmarshalJSON / ExtOutMsgBody.UnmarshalJSON; `parseCell` is Cell.UnmarshalJSON, `parseKnown name` the
decoder of the registered type of that name (`none`: not registered) -/
def parseEnvelope {C V} (parseCell : Str → Outcome C) (parseKnown : Str → Option (Str → Outcome V)) (data : Str) :
    Outcome (Body C V) :=
  (unmarshalEnvelope data).bind fun r =>
    if r.sumType = [] then .ok (.empty r.opCode)
    else if r.sumType = unknownName then
      match r.value with
      | none => .err "unexpected end of JSON input"
      | some raw => (parseCell raw).bind fun c => .ok (.unknown r.opCode c)
    else
      match parseKnown r.sumType with
      | none => .err "unknown message body type"
      | some pk =>
        match r.value with
        | none => .err "unexpected end of JSON input"
        | some raw => (pk raw).bind fun v => .ok (.known r.sumType r.opCode v)

def kSum : Str := ['S', 'u', 'm', 'T', 'y', 'p', 'e']
def kOp : Str := ['O', 'p', 'C', 'o', 'd', 'e']
def kVal : Str := ['V', 'a', 'l', 'u', 'e']

/-- `"OpCode":<n>,` -/
def printOp : Option Nat → Str
  | none => []
  | some n => '"' :: kOp ++ '"' :: ':' :: printNat n ++ [',']

/-- `{"SumType": "<name>",["OpCode":<n>,]"Value":<value>}` (the blank after the first colon is in the Go source) -/
def envText (name : Str) (op : Option Nat) (pv : Str) : Str :=
  '{' :: ('"' :: kSum ++ '"' :: ':' :: [' '] ++ quote name ++ ',' :: (printOp op ++ ('"' :: kVal ++ '"' :: ':' :: pv ++ ['}'])))

/-- InMsgBody.MarshalJSON (an empty body drops its op code) -/
def printEnvelope {C V} (printCell : C → Str) (printKnown : V → Str) : Body C V → Str
  | .empty _ => ['{', '}']
  | .unknown op c => envText unknownName op (printCell c)
  | .known name op v => envText name op (printKnown v)

/-! ## a composite record through encoding/json's default struct codec: tlb.Anycast inside tlb.Maybe

`Maybe[Anycast]` is the optional value of a record WITHOUT JSON methods of its own: json.Marshal writes
`{"Depth":<d>,"RewritePfx":<p>}`, json.Unmarshal stores the members by (case-folded) name into two uint32 fields. -/

def kDepth : Str := ['D', 'e', 'p', 't', 'h']
def kPfx : Str := ['R', 'e', 'w', 'r', 'i', 't', 'e', 'P', 'f', 'x']

def printAnycastJson (a : Anycast) : Str :=
  '{' :: ('"' :: kDepth ++ '"' :: ':' :: printNat a.depth ++ ',' :: ('"' :: kPfx ++ '"' :: ':' :: printNat a.pfx ++ ['}']))

/-- literalStore into a uint32 field: `null` leaves it, a number must be a decimal integer that fits -/
def storeUint32 (old : Nat) (val : Str) : Outcome Nat :=
  match val with
  | 'n' :: _ => .ok old
  | c :: _ =>
    if c == '"' || c == '{' || c == '[' || c == 't' || c == 'f' then .err "cannot unmarshal into uint32"
    else match parseUint val 10 64 with
      | .ok n => if n < 2 ^ 32 then .ok n else .err "overflow"
      | _ => .err "cannot unmarshal number into uint32"
  | [] => .err "empty"

def storeAnycastMember (a : Anycast) (key val : Str) : Outcome Anycast :=
  let fk := foldKey key
  if fk = ['D', 'E', 'P', 'T', 'H'] then (storeUint32 a.depth val).bind fun d => .ok { a with depth := d }
  else if fk = ['R', 'E', 'W', 'R', 'I', 'T', 'E', 'P', 'F', 'X'] then (storeUint32 a.pfx val).bind fun p => .ok { a with pfx := p }
  else .ok a

def storeAnycastMembers (a : Anycast) : List (Str × Str) → Outcome Anycast
  | [] => .ok a
  | (k, v) :: ms => (storeAnycastMember a k v).bind fun a' => storeAnycastMembers a' ms

/-- json.Unmarshal(data, &anycast) on a zero value -/
def parseAnycastJson (data : Str) : Outcome Anycast :=
  if !valid data then .err "syntax"
  else
    let v := trimWs data
    match v with
    | 'n' :: _ => .ok ⟨0, 0⟩
    | _ =>
      match objectMembers v with
      | some ms => storeAnycastMembers ⟨0, 0⟩ ms
      | none => .err "cannot unmarshal into struct"

end Tongo.Json

namespace Tongo.Json
/-! ## facts extracted from tlb/integers.go (translator IntJson → TongoGen/IntJson.lean) -/

inductive GenFamily where
  | uint | int | big | bits
  deriving DecidableEq, Repr

/-- one generated type: `fmtCode` 0 `%d`, 1 `"%d"`, 2 `"%s"` of i.String(), 3 `"%x"` of u[:]; `parseCode`
1 strconv.ParseUint, 2 strconv.ParseInt, 3 big.Int.SetString, 4 hex.DecodeString; `bitSize` the literal bit size
(8 × the checked byte length for arrays); `kindWidth` the width of the underlying machine integer (byte length for
arrays, 0 for big.Int); `trimOK` the parsed text is `strings.Trim(string(p), "\"")` -/
structure GenType where
  name : String
  family : GenFamily
  nameWidth : Nat
  kindWidth : Nat
  fmtCode : Nat
  parseCode : Nat
  base : Nat
  bitSize : Nat
  trimOK : Bool
  deriving Repr

/-- the obligation decided for every generated type: the model functions `printUintN/parseUintN nameWidth` (resp.
Int, Big, BitsN) are the ones this type's methods implement -/
def GenType.wf (e : GenType) : Bool :=
  e.trimOK &&
  match e.family with
  | .uint => e.fmtCode == (if quotedWidth e.nameWidth then 1 else 0) && e.parseCode == 1 && e.base == 10 &&
      e.bitSize == e.nameWidth && decide (1 ≤ e.nameWidth) && decide (e.nameWidth ≤ e.kindWidth) &&
      decide (e.kindWidth ≤ 64)
  | .int => e.fmtCode == (if quotedWidth e.nameWidth then 1 else 0) && e.parseCode == 2 && e.base == 10 &&
      e.bitSize == e.nameWidth && decide (1 ≤ e.nameWidth) && decide (e.nameWidth ≤ e.kindWidth) &&
      decide (e.kindWidth ≤ 64)
  | .big => e.fmtCode == 2 && e.parseCode == 3 && e.base == 10
  | .bits => e.fmtCode == 3 && e.parseCode == 4 && e.bitSize == e.nameWidth && e.nameWidth == 8 * e.kindWidth

end Tongo.Json
