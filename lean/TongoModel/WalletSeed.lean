import TongoModel.Outcome
import TongoModel.Prim.Sha512
/-! Mnemonic → key (wallet/seed.go): `SeedToPrivateKey`, `checkSumSeed`, `randSeed` / `RandomSeed`.

The key-derivation functions are parameters (`Kdf`); the driver instantiates them with HMAC-SHA-512 and
PBKDF2-HMAC-SHA-512 from `Prim/Sha512.lean`. Ed25519 is not re-implemented: the model returns the 32-byte Ed25519 seed
that `ed25519.NewKeyFromSeed` is given (`PrivateKey.Seed()` on the Go side). Strings are byte lists. The code has no
password variant and does not look the words up in the word list: any text with at least 12 space-separated fields whose
version byte is 0 is a seed. -/
namespace Tongo.Wallet.Seed
open Tongo

structure Kdf where
  hmac : List UInt8 → List UInt8 → List UInt8                      -- key, message
  pbkdf2 : List UInt8 → List UInt8 → Nat → Nat → List UInt8        -- password, salt, iterations, key length

def sha512Kdf : Kdf := { hmac := Sha512.hmac, pbkdf2 := Sha512.pbkdf2 }

def saltVersion : List UInt8 := "TON seed version".toUTF8.toList
def saltDefault : List UInt8 := "TON default seed".toUTF8.toList
/-- `100000/256` -/
def versionIters : Nat := 390
def keyIters : Nat := 100000

/-- `len(strings.Split(seed, " "))`: one more than the number of spaces (empty fields count) -/
def fieldCount (seed : List UInt8) : Nat := (seed.filter (· == 32)).length + 1

/-- `hmac.New(sha512.New, []byte(seed)).Sum(nil)`: the MAC of the EMPTY message under the seed text as key -/
def seedHash (K : Kdf) (seed : List UInt8) : List UInt8 := K.hmac seed []

/-- `pbkdf2.Key(hash, "TON seed version", 100000/256, 1, sha512.New)[0] == 0`; indexing an empty result would panic -/
def versionOk (K : Kdf) (iters : Nat) (seed : List UInt8) : Outcome Bool :=
  match K.pbkdf2 (seedHash K seed) saltVersion iters 1 with
  | b :: _ => .ok (b == 0)
  | [] => .panic "index out of range"

/-- `checkSumSeed(seed)` -/
def checkSumSeed (K : Kdf) (seed : List UInt8) : Outcome Bool := versionOk K versionIters seed

/-- `SeedToPrivateKey(seed)` with the iteration counts as parameters (`versionIters`, `keyIters` in the code): the
32-byte Ed25519 seed. `ed25519.NewKeyFromSeed` panics unless it gets 32 bytes. -/
def seedToKeyWith (K : Kdf) (vIters kIters : Nat) (seed : List UInt8) : Outcome (List UInt8) :=
  if fieldCount seed < 12 then .err "seed should have at least 12 words"
  else
    match versionOk K vIters seed with
    | .panic p => .panic p
    | .err e => .err e
    | .ok false => .err "invalid seed"
    | .ok true =>
      let pk := K.pbkdf2 (seedHash K seed) saltDefault kIters 32
      if pk.length ≠ 32 then .panic "ed25519: bad seed length" else .ok pk

def seedToPrivateKey (K : Kdf) (seed : List UInt8) : Outcome (List UInt8) := seedToKeyWith K versionIters keyIters seed

/-- `randSeed` from its 33 random bytes: 24 indices of 11 bits (big-endian bit order) into the word list -/
def wordIndices (bits : List Bool) : Nat → List Nat
  | 0 => []
  | n + 1 => (bits.take 11).foldl (fun acc b => 2 * acc + b.toNat) 0 :: wordIndices (bits.drop 11) n

def byteBits (b : UInt8) : List Bool := (List.range 8).map fun i => b.toNat.testBit (7 - i)

def joinWords : List (List UInt8) → List UInt8
  | [] => []
  | [w] => w
  | w :: ws => w ++ [32] ++ joinWords ws

def randSeed (words : Nat → List UInt8) (rnd : List UInt8) : List UInt8 :=
  joinWords ((wordIndices (rnd.flatMap byteBits) 24).map words)

/-- `RandomSeed()`: draw until `checkSumSeed` accepts; `draws` are the successive 33-byte reads of crypto/rand -/
def randomSeed (K : Kdf) (words : Nat → List UInt8) : List (List UInt8) → Outcome (Option (List UInt8))
  | [] => .ok none
  | d :: ds =>
    match checkSumSeed K (randSeed words d) with
    | .ok true => .ok (some (randSeed words d))
    | .ok false => randomSeed K words ds
    | .err e => .err e
    | .panic p => .panic p

end Tongo.Wallet.Seed
