import TongoModel.Outcome
/-! Model of the ADNL-over-TCP transport of tongo (`liteclient/adnl.go`, `liteclient/encrypted_conn.go`,
`liteclient/keys.go`) and of the SPECIFICATION side of the handshake (a server written from the ADNL-over-TCP
description, `serverAccept`).

Parameters of the whole model (never axioms):
* `H   : Bytes → Bytes`              the hash (SHA-256 in the driver),
* `ks  : Nat → UInt8`                one direction's keystream; the *offset* into it is connection state,
* `ctr : Bytes → Bytes → Nat → UInt8` key, iv ↦ keystream (AES-256-CTR in the driver).

Go facts mirrored here, function by function:
* `Packet.marshal`  = le32(|payload|+64) ++ nonce(32) ++ payload ++ H(nonce ++ payload)
* `ParsePacket`     : ReadFull 4 bytes, decrypt, bounds 64..8 MiB, ReadFull `length` bytes, decrypt, compare the last 32
  bytes with H(nonce ++ payload). `io.ReadFull` on a stream that has not delivered enough bytes yet is modelled as
  `ok none` ("not yet": nothing is consumed, the result is a function of the byte stream only); at end of stream the
  same situation is Go's `io.EOF`/`io.ErrUnexpectedEOF`.
* `encryptedConn.send` / `handleIncomingPackets`: one `cipher.Stream` per direction, never re-created: the keystream
  offset only grows.
* `params` accessors and `encryptedConn.handshake`. -/
namespace Tongo.Adnl

abbrev Bytes := List UInt8

/-- binary.LittleEndian.PutUint32 of `uint32(n)` -/
def le32 (n : Nat) : Bytes :=
  [UInt8.ofNat (n % 256), UInt8.ofNat (n / 256 % 256), UInt8.ofNat (n / 65536 % 256), UInt8.ofNat (n / 16777216 % 256)]

/-- binary.LittleEndian.Uint32 of a 4-byte slice -/
def readLe32 : Bytes → Nat
  | [a, b, c, d] => a.toNat + 256 * b.toNat + 65536 * c.toNat + 16777216 * d.toNat
  | _ => 0

/-- `cipher.Stream.XORKeyStream` of a stream positioned at keystream offset `off` -/
def xorStream (ks : Nat → UInt8) (off : Nat) (bs : Bytes) : Bytes :=
  bs.mapIdx fun i b => b ^^^ ks (off + i)

structure Packet where
  nonce : Bytes
  payload : Bytes
  deriving DecidableEq, Repr, Inhabited

/-- `8 << 20` -/
def maxLen : Nat := 8388608

/-- what Go's types guarantee about a packet that can be built at all: `nonce [32]byte`, and a payload whose frame
length is within the accepted bound -/
def Packet.WF (p : Packet) : Prop := p.nonce.length = 32 ∧ p.payload.length + 64 ≤ maxLen

instance (p : Packet) : Decidable p.WF := by unfold Packet.WF; infer_instance

section
variable (H : Bytes → Bytes)

/-- `Packet.hash` -/
def Packet.hash (p : Packet) : Bytes := H (p.nonce ++ p.payload)

/-- `Packet.marshal` -/
def marshal (p : Packet) : Bytes :=
  le32 (p.payload.length + 64) ++ p.nonce ++ p.payload ++ p.hash H

/-- number of stream bytes one frame occupies -/
def frameLen (p : Packet) : Nat := 68 + p.payload.length

/-- `ParsePacket(r, decryptor)` where `s` is what the reader can deliver so far and `off` the decryptor position.
`ok (some (p, rest))` : packet delivered, `rest` is the unread remainder (decryptor now at `off + 4 + length`);
`ok none` : blocked in `io.ReadFull` (not an error; nothing delivered); `err` : the connection is abandoned. -/
def parsePacket (ks : Nat → UInt8) (off : Nat) (s : Bytes) : Outcome (Option (Packet × Bytes)) :=
  if s.length < 4 then .ok none else
  let length := readLe32 (xorStream ks off (s.take 4))
  if length < 64 ∨ length > maxLen then .err "invalid length of data" else
  let body := s.drop 4
  if body.length < length then .ok none else
  let data := xorStream ks (off + 4) (body.take length)
  let p : Packet := ⟨data.take 32, (data.drop 32).take (length - 64)⟩
  if data.drop (length - 32) = p.hash H then .ok (some (p, body.drop length)) else .err "checksum error"

theorem parsePacket_rest_lt {ks : Nat → UInt8} {off : Nat} {s : Bytes} {p : Packet} {rest : Bytes}
    (h : parsePacket H ks off s = .ok (some (p, rest))) : rest.length < s.length := by
  unfold parsePacket at h
  split at h
  · cases h
  · simp only at h
    split at h
    · cases h
    · split at h
      · cases h
      · split at h
        · cases h
          simp only [List.length_drop]
          omega
        · cases h

/-- how a receive loop ends on the bytes available: still waiting for more bytes, or abandoned after an error -/
inductive RxEnd | waiting | dead
  deriving DecidableEq, Repr, Inhabited

/-- the loop of `handleIncomingPackets`: parse packets one after the other with ONE decryptor whose offset carries
over, until the stream has no complete frame left (`waiting`) or a parse error closes the channel (`dead`). -/
def recvAll (ks : Nat → UInt8) (off : Nat) (s : Bytes) : List Packet × RxEnd :=
  match h : parsePacket H ks off s with
  | .ok (some (p, rest)) =>
    let r := recvAll ks (off + frameLen p) rest
    (p :: r.1, r.2)
  | .ok none => ([], .waiting)
  | _ => ([], .dead)
termination_by s.length
decreasing_by exact parsePacket_rest_lt H h

/-- `encryptedConn.send` applied to `marshal p`, the cipher being at offset `off`: bytes written and new offset -/
def send (ks : Nat → UInt8) (off : Nat) (p : Packet) : Bytes × Nat :=
  (xorStream ks off (marshal H p), off + (marshal H p).length)

/-- the bytes put on the wire by sending a list of packets one after the other through the same cipher -/
def sendAll (ks : Nat → UInt8) : Nat → List Packet → Bytes
  | _, [] => []
  | off, p :: ps => (send H ks off p).1 ++ sendAll ks (send H ks off p).2 ps

/-! ### `Connection.reader`: which received packets reach `Responses()`

`Packet.MagicType` is the little-endian uint32 of the first four payload bytes (0 for shorter payloads). The reader
consumes exactly the transport-level messages of ADNL-over-TCP: a `tcp.pong` — magic 0xdc69fb03 AND exactly 12 bytes —
and a `tcp.authentificationNonce` message (magic 0xe35d4ab6, any length); every other packet is forwarded. -/

def magicType (payload : Bytes) : Nat := if payload.length < 4 then 0 else readLe32 (payload.take 4)

def magicTcpPong : Nat := 0xdc69fb03
def magicTcpAuthNonce : Nat := 0xe35d4ab6

inductive ReaderAction | pong | authNonce | forward
  deriving DecidableEq, Repr, Inhabited

def connReader (payload : Bytes) : ReaderAction :=
  if magicType payload = magicTcpPong ∧ payload.length = 12 then .pong
  else if magicType payload = magicTcpAuthNonce then .authNonce
  else .forward

/-- what `Responses()` yields for a list of received packets -/
def forwarded (ps : List Packet) : List Packet := ps.filter fun p => connReader p.payload == .forward

/-! ### session parameters and handshake -/

/-- `params.rxKey` = p[0:32] -/
def rxKey (p : Bytes) : Bytes := p.take 32
/-- `params.txKey` = p[32:64] -/
def txKey (p : Bytes) : Bytes := (p.drop 32).take 32
/-- `params.rxNonce` = p[64:80] -/
def rxNonce (p : Bytes) : Bytes := (p.drop 64).take 16
/-- `params.txNonce` = p[80:96] -/
def txNonce (p : Bytes) : Bytes := (p.drop 80).take 16
/-- `params.padding` = p[96:160] -/
def padding (p : Bytes) : Bytes := (p.drop 96).take 64

def addrMagic : Bytes := [0xc6, 0xb4, 0x13, 0x48]

/-- `Address.hash`: the key id, H(0xc6b41348 ++ pub) -/
def keyId (pub : Bytes) : Bytes := H (addrMagic ++ pub)

/-- AES key of the handshake: shared[0:16] ++ H(params)[16:32] -/
def hsKey (shared h : Bytes) : Bytes := shared.take 16 ++ (h.drop 16).take 16
/-- CTR iv of the handshake: H(params)[0:4] ++ shared[20:32] -/
def hsIv (shared h : Bytes) : Bytes := h.take 4 ++ (shared.drop 20).take 12

variable (ctr : Bytes → Bytes → Nat → UInt8)

/-- the 256 bytes written by `encryptedConn.handshake`. `keys.shared[:16]`, `keys.shared[20:32]` and
`params.hash()[16:32]` are slice expressions that panic when the operand is too short. -/
def handshakePacket (serverPub ephPub shared params : Bytes) : Outcome Bytes :=
  let h := H params
  if shared.length < 32 ∨ h.length < 32 then .panic "slice bounds out of range" else
  .ok (keyId H serverPub ++ ephPub ++ h ++ xorStream (ctr (hsKey shared h) (hsIv shared h)) 0 params)

/-- keystream with which the client encrypts what it sends (`cipher: NewCTR(txKey, txNonce)`) -/
def clientTx (params : Bytes) : Nat → UInt8 := ctr (txKey params) (txNonce params)
/-- keystream with which the client decrypts what it receives (`decipher: NewCTR(rxKey, rxNonce)`) -/
def clientRx (params : Bytes) : Nat → UInt8 := ctr (rxKey params) (rxNonce params)

/-- the last step of `encryptedConn.handshake`: one `ParsePacket` on the decipher at offset 0; any well-formed packet
completes the handshake -/
def clientFinish (params reply : Bytes) : Outcome (Option (Packet × Bytes)) :=
  parsePacket H (clientRx ctr params) 0 reply

/-! ### specification side: an ADNL-over-TCP server (not tongo code)

Written from the protocol description: the first 256 bytes of a connection are
`key id (32) ‖ client ephemeral public key (32) ‖ SHA-256(params) (32) ‖ E(params) (160)`; the server finds its key by
the id, derives the shared secret from ITS private key and the ephemeral key (`sharedOf`, X25519 — a parameter), forms
key = shared[0..16] ‖ hash[16..32], iv = hash[0..4] ‖ shared[20..32], decrypts, checks the hash, and from then on
sends with (params[0..32], params[64..80]) and receives with (params[32..64], params[80..96]); it confirms with an
empty packet. -/

def serverAccept (serverPub : Bytes) (sharedOf : Bytes → Bytes) (pkt : Bytes) : Outcome Bytes :=
  if pkt.length < 256 then .err "short handshake" else
  if pkt.take 32 ≠ keyId H serverPub then .err "unknown key id" else
  let eph := (pkt.drop 32).take 32
  let h := (pkt.drop 64).take 32
  let shared := sharedOf eph
  let params := xorStream (ctr (hsKey shared h) (hsIv shared h)) 0 ((pkt.drop 96).take 160)
  if H params = h then .ok params else .err "params hash mismatch"

/-- keystream the spec server sends with -/
def serverTx (params : Bytes) : Nat → UInt8 := ctr (params.take 32) ((params.drop 64).take 16)
/-- keystream the spec server receives with -/
def serverRx (params : Bytes) : Nat → UInt8 := ctr ((params.drop 32).take 32) ((params.drop 80).take 16)

/-- the confirmation: an empty packet (any 32-byte nonce) under the server's sending keystream at offset 0 -/
def serverReply (params nonce : Bytes) : Bytes :=
  (send H (serverTx ctr params) 0 ⟨nonce, []⟩).1

/-! ### key agreement (`liteclient/keys.go`)

`newKeys` draws an Ed25519 key pair and sends its PUBLIC key; `sharedKey` converts the server's Ed25519 public key to a
Montgomery u-coordinate (`NewCompressedEdwardsYFromBytes` + `SetCompressedY` + `SetEdwards`, which fail on an invalid
encoding), converts its own Ed25519 private key to an X25519 scalar (`x25519.EdPrivateKeyToX25519`: the first 32 bytes
of SHA-512 of the seed, clamped) and multiplies. Only the curve operations are parameters. -/

structure Curve where
  /-- SHA-512 -/
  sha512 : Bytes → Bytes
  /-- Ed25519 public key of a 32-byte seed -/
  edPub : Bytes → Bytes
  /-- compressed Edwards point → Montgomery u (`none`: not a valid point encoding) -/
  toMont : Bytes → Option Bytes
  /-- X25519 scalar multiplication: scalar, u-coordinate ↦ u-coordinate -/
  x25519 : Bytes → Bytes → Bytes

/-- RFC 7748 clamping of a 32-byte scalar: clear the three low bits of byte 0, clear bit 7 and set bit 6 of byte 31 -/
def clamp (b : Bytes) : Bytes :=
  b.mapIdx fun i x => if i = 0 then x &&& 248 else if i = 31 then (x &&& 127) ||| 64 else x

/-- `x25519.EdPrivateKeyToX25519` -/
def scalarOf (cv : Curve) (seed : Bytes) : Bytes := clamp ((cv.sha512 seed).take 32)

/-- `sharedKey(ourKey, serverKey)`: the conversion fails on an invalid encoding, and `x25519.X25519` returns an error
when the result is all zero (the peer's point has small order) -/
def sharedKey (cv : Curve) (ourSeed peerPub : Bytes) : Outcome Bytes :=
  match cv.toMont peerPub with
  | none => .err "invalid public key"
  | some u =>
    let r := cv.x25519 (scalarOf cv ourSeed) u
    if r.all (· == 0) then .err "low order point" else .ok r

/-! #### executable Edwards → Montgomery conversion (specification level, compared with the code on every run)

p = 2^255 − 19, Edwards curve −x² + y² = 1 + d·x²·y² with d = −121665/121666. A 32-byte string encodes y (little endian,
bit 255 is the sign of x). It is a point iff (y² − 1)/(d·y² + 1) is a square; its Montgomery form is u = (1+y)/(1−y).
The u-coordinates of the points of small order (RFC 7748 §6.1 / the usual blacklist) make X25519 return zero. -/

def p25519 : Nat := 2 ^ 255 - 19

def powMod (b e m : Nat) : Nat := Id.run do
  let mut r := 1
  let mut base := b % m
  let mut ex := e
  for _ in [0:256] do
    if ex % 2 = 1 then r := r * base % m
    base := base * base % m
    ex := ex / 2
  return r

def invMod (a : Nat) : Nat := powMod a (p25519 - 2) p25519

def edD : Nat := (p25519 - 121665 % p25519) * invMod 121666 % p25519

def leToNat (b : Bytes) : Nat := b.foldr (fun x acc => x.toNat + 256 * acc) 0

def natToLe32 (n : Nat) : Bytes := (List.range 32).map fun i => UInt8.ofNat (n / 256 ^ i % 256)

def lowOrderU : List Nat := [0, 1, p25519 - 1,
  325606250916557431795983626356110631294008115727848805560023387167927233504,
  39382357235489614581723060781553021112529911719440698176882885853963445705823]

/-- `some u` for an encoding of a curve point, `none` otherwise -/
def toMontSpec (pub : Bytes) : Option Bytes :=
  if pub.length ≠ 32 then none else
  let y := leToNat pub % 2 ^ 255 % p25519
  let num := (y * y + p25519 - 1) % p25519
  let den := (edD * (y * y % p25519) + 1) % p25519
  let x2 := num * invMod den % p25519
  if x2 = 0 ∨ powMod x2 ((p25519 - 1) / 2) p25519 = 1 then
    some (natToLe32 ((1 + y) * invMod ((1 + p25519 - y) % p25519) % p25519))
  else none

def isLowOrderU (u : Bytes) : Bool := lowOrderU.contains (leToNat u % 2 ^ 255 % p25519)

/-- `newKeys(peerPublicKey)` for the seed drawn from `rand.Reader`: (public key that is SENT, shared secret) -/
def newKeys (cv : Curve) (seed peerPub : Bytes) : Outcome (Bytes × Bytes) :=
  match sharedKey cv seed peerPub with
  | .ok sh => .ok (cv.edPub seed, sh)
  | .err e => .err e
  | .panic p => .panic p

end
section
variable (H : Bytes → Bytes) (ctr : Bytes → Bytes → Nat → UInt8)

/-- `newEncryptedConnection` up to the handshake write: keys from `newKeys`, then `handshake` -/
def clientHandshake (cv : Curve) (seed serverPub params : Bytes) : Outcome Bytes :=
  match newKeys cv seed serverPub with
  | .ok (pub, shared) => handshakePacket H ctr serverPub pub shared params
  | .err e => .err e
  | .panic p => .panic p

/-- the specification server's side of the agreement: ITS scalar times the Montgomery form of the key it RECEIVED -/
def serverShared (cv : Curve) (serverSeed eph : Bytes) : Bytes :=
  match cv.toMont eph with
  | some u => cv.x25519 (scalarOf cv serverSeed) u
  | none => []

end
end Tongo.Adnl
