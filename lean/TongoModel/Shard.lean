import TongoModel.GoInt
/-! Shard identifiers (ton/shards.go, ton/block.go): hand model on `BitVec 64`, mirroring the Go integer code
(`int64`/`uint64` wrap-around, shifts by ≥ 64 give 0, arithmetic right shift never used here). -/
namespace Tongo.Shard

/-- number of trailing zero bits, 64 for 0 (math/bits.TrailingZeros64) -/
def ctz64 (x : BitVec 64) : Nat := Tongo.GoInt.ctz x

/-- `x & (^x + 1)`: lowest set bit -/
def lowerBit (s : BitVec 64) : BitVec 64 := s &&& (~~~s + 1)

/-- ton/block.go shardChild -/
def shardChild (s : BitVec 64) (left : Bool) : BitVec 64 :=
  let x := lowerBit s >>> 1
  if left then s - x else s + x

/-- ton/block.go shardParent -/
def shardParent (s : BitVec 64) : BitVec 64 :=
  let x := lowerBit s
  (s - x) ||| (x <<< 1)

structure ShardID where
  pfx : BitVec 64
  mask : BitVec 64
  deriving DecidableEq, Repr

/-- ton/shards.go ParseShardID; `none` = the error for m = 0 -/
def parseShardID (m : BitVec 64) : Option ShardID :=
  if m = 0 then none
  else
    let tz := ctz64 m
    some { pfx := m ^^^ (1#64 <<< tz), mask := (BitVec.allOnes 64) <<< (tz + 1) }

/-- ShardID.Encode: `prefix | (1 << (tz(mask) - 1))`; Go's shift count is an `int`, a negative count panics -/
def encode (s : ShardID) : Option (BitVec 64) :=
  let tz := ctz64 s.mask
  if tz = 0 then none else some (s.pfx ||| (1#64 <<< (tz - 1)))

/-- MatchAccountID on the first 8 address bytes read big-endian -/
def matchPrefix (s : ShardID) (aPrefix : BitVec 64) : Bool := (aPrefix &&& s.mask) == s.pfx

/-- MatchBlockID -/
def matchBlock (s : ShardID) (blockShard : BitVec 64) : Bool :=
  match parseShardID blockShard with
  | none => false
  | some sub =>
    if ctz64 s.mask < ctz64 sub.mask then (s.pfx &&& sub.mask) == sub.pfx
    else (sub.pfx &&& s.mask) == s.pfx

/-- convertShardIdent: `prefix | uint64(1) << (63 - pfxBits)`; pfxBits is a tlb.Uint6, i.e. a Go `uint8`: the count is
computed in 8-bit unsigned arithmetic (a value > 63 wraps to a count ≥ 192, the shift then gives 0; no panic) -/
def convertShardIdent (pfx : BitVec 64) (pfxBits : BitVec 8) : BitVec 64 :=
  pfx ||| (1#64 <<< (63#8 - pfxBits).toNat)

/-- the anycast rewrite of ton.AccountIDFromTlb on the first 4 address bytes (big-endian): keep the low `32 - depth`
bits, put `rewritePfx << (32 - depth)` on top (32-bit unsigned arithmetic; a shift count ≥ 32 gives 0) -/
def anycastRewrite (addr4 depth rewritePfx : BitVec 32) : BitVec 32 :=
  (addr4 &&& ((1#32 <<< (32#32 - depth).toNat) - 1#32)) ||| (rewritePfx <<< (32#32 - depth).toNat)

end Tongo.Shard
