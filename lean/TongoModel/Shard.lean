/-! Shard identifiers (ton/shards.go, ton/block.go): hand model on `BitVec 64`, mirroring the Go integer code
(`int64`/`uint64` wrap-around, shifts by ≥ 64 give 0, arithmetic right shift never used here). -/
namespace Tongo.Shard

/-- number of trailing zero bits, 64 for 0 (math/bits.TrailingZeros64) -/
def ctz64 (x : BitVec 64) : Nat :=
  (List.range 64).find? (fun i => x.getLsbD i) |>.getD 64

/-- `x & (^x + 1)`: lowest set bit -/
def lowerBit (s : BitVec 64) : BitVec 64 := s &&& (~~~s + 1)

/-- ton/block.go shardChild -/
def shardChild (s : BitVec 64) (left : Bool) : BitVec 64 :=
  let x := lowerBit s >>> 1
  if left then s - x else s + x

/-- ton/block.go shardParent -/
def shardParent (s : BitVec 64) : BitVec 64 :=
  let x := lowerBit s
  (s - x) ||| (x <<< 1)

structure ShardID where
  pfx : BitVec 64
  mask : BitVec 64
  deriving DecidableEq, Repr

/-- ton/shards.go ParseShardID; `none` = the error for m = 0 -/
def parseShardID (m : BitVec 64) : Option ShardID :=
  if m = 0 then none
  else
    let tz := ctz64 m
    some { pfx := m ^^^ (1#64 <<< tz), mask := (BitVec.allOnes 64) <<< (tz + 1) }

/-- ShardID.Encode: `prefix | (1 << (tz(mask) - 1))`; Go's shift count is an `int`, a negative count panics -/
def encode (s : ShardID) : Option (BitVec 64) :=
  let tz := ctz64 s.mask
  if tz = 0 then none else some (s.pfx ||| (1#64 <<< (tz - 1)))

/-- MatchAccountID on the first 8 address bytes read big-endian -/
def matchPrefix (s : ShardID) (aPrefix : BitVec 64) : Bool := (aPrefix &&& s.mask) == s.pfx

/-- MatchBlockID -/
def matchBlock (s : ShardID) (blockShard : BitVec 64) : Bool :=
  match parseShardID blockShard with
  | none => false
  | some sub =>
    if ctz64 s.mask < ctz64 sub.mask then (s.pfx &&& sub.mask) == sub.pfx
    else (sub.pfx &&& s.mask) == s.pfx

/-- convertShardIdent: `prefix | 1 << (63 - pfxBits)`; pfxBits is a Go `int` field (a count > 63 is negative ⇒ panic) -/
def convertShardIdent (pfx : BitVec 64) (pfxBits : Nat) : Option (BitVec 64) :=
  if pfxBits > 63 then none else some (pfx ||| (1#64 <<< (63 - pfxBits)))

end Tongo.Shard
