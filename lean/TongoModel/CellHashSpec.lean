import TongoModel.Cell
/-! SPECIFICATION of the TON cell representation hash, depth and level, written directly from the definition
(TON whitepaper 3.1.4–3.1.7, `crypto/vm/cells/DataCell.cpp`), independently of the control flow of
`newImmutableCell`:

* a 3-bit level mask `m`; level `j ≥ 1` is *significant* iff bit `j-1` of `m` is set, level 0 always is;
  `level = bitlen m`; the number of stored/computed hashes is `popcount m + 1`;
* a pruned branch of mask `m` stores, for every significant level below its own level, the hash and depth of the
  cell it replaces: data = `01 m h_0 … h_{k-1} d_0 … d_{k-1}` (`k = popcount m`, 32-byte hashes, 2-byte depths);
* the hash of a cell at level `l`:
    - pruned branch and `l < level`: the stored hash number `popcount (m mod 2^l)`;
    - `l` not significant: the hash at level `l-1`;
    - otherwise `H(d1(m mod 2^l) d2 ++ body ++ depths of children ++ hashes of children)` where the children are taken
      at level `l` (at `l+1` under a Merkle proof / Merkle update cell) and `body` is the data with completion tag when
      `l` is the lowest level computed for this cell (level 0, or the own level of a pruned branch) and the cell's own
      hash at level `l-1` otherwise;
* depth likewise (0 without children, else 1 + max of the children's depths at the child level).

`H` is a parameter. Core Lean only; executable (exponential on heavily shared DAGs: specification, not algorithm). -/
namespace Tongo.Spec
open Tongo

/-- number of set bits among the low 32 -/
def popcount (m : Nat) : Nat := ((List.range 32).filter (fun i => m.testBit i)).length
/-- the mask restricted to levels `< l` … i.e. `m ∧ (2^l − 1)` -/
def maskBelow (m l : Nat) : Nat := m % 2 ^ l
/-- level `l` carries its own hash -/
def significant (m l : Nat) : Bool := l == 0 || m.testBit (l - 1)
/-- level of a cell = bit length of its mask -/
def level (m : Nat) : Nat := (List.range 32).foldl (fun acc i => if m.testBit i then i + 1 else acc) 0

def isMerkle (ty : Nat) : Bool := ty == tyMerkleProof || ty == tyMerkleUpdate
/-- children of Merkle cells are taken one level higher -/
def childLevel (ty l : Nat) : Nat := if isMerkle ty then l + 1 else l

/-! Byte-level formulas, written here from the TON documentation (whitepaper 3.1.4: descriptor bytes
`d1 = r + 8s + 32l`, `d2 = ⌊b/8⌋ + ⌈b/8⌉`; data padded with a 1 bit and zero bits to a byte boundary; depths as 2 bytes
big endian). They do NOT use the model's `d1`, `d2`, `be16`, `Bits.toppedUp`, `Bits.bitsToBytes`: `impl_eq_spec`
compares two separately written byte layouts (the equalities are lemmas in TongoProofs/Lemmas/CellHash.lean). -/

/-- value of at most eight bits, most significant first, as the HIGH bits of a byte (missing low bits are zero) -/
def byteOfBits (bs : List Bool) : UInt8 :=
  UInt8.ofNat (bs.foldl (fun acc b => 2 * acc + (if b then 1 else 0)) 0 * 2 ^ (8 - bs.length))

/-- the bytes of a bit string: byte `i` holds bits `8i … 8i+7`; a last incomplete byte is filled with zero bits -/
def packBytes (bits : List Bool) : List UInt8 :=
  (List.range ((bits.length + 7) / 8)).map fun i => byteOfBits ((bits.drop (8 * i)).take 8)

/-- cell data as hashed: if the bit length is not a multiple of 8, a single 1 bit and then 0 bits up to the byte
boundary are appended (the completion tag) -/
def paddedData (bits : List Bool) : List UInt8 :=
  if bits.length % 8 = 0 then packBytes bits
  else packBytes (bits ++ [true] ++ List.replicate (7 - bits.length % 8) false)

/-- a depth as two bytes, big endian -/
def depthBytes (d : Nat) : List UInt8 := [UInt8.ofNat (d / 256), UInt8.ofNat (d % 256)]

/-- `k`-th hash stored in a pruned branch -/
def storedHash (bits : List Bool) (k : Nat) : List UInt8 := ((packBytes bits).drop (2 + 32 * k)).take 32
/-- `k`-th depth stored in a pruned branch carrying `n` hashes (two bytes big endian; bytes the branch does not have
count as zero: the definition applies to well-formed pruned branches, see `wfNode`) -/
def storedDepth (bits : List Bool) (n k : Nat) : Nat :=
  let b := packBytes bits
  (b.getD (2 + 32 * n + 2 * k) 0).toNat * 256 + (b.getD (2 + 32 * n + 2 * k + 1) 0).toNat

/-- descriptor bytes at level `l`: `d1 = refs + 8·exotic + 32·(mask restricted to levels < l)`,
`d2 = ⌊bits/8⌋ + ⌈bits/8⌉` -/
def descr (ty mask : Nat) (bits : List Bool) (nrefs l : Nat) : List UInt8 :=
  [UInt8.ofNat (nrefs + (if ty = 0 then 0 else 8) + 32 * maskBelow mask l),
   UInt8.ofNat (2 * (bits.length / 8) + (if bits.length % 8 = 0 then 0 else 1))]

/-- depths (2 bytes big endian each) then hashes of the children at the child level of `l` -/
def childrenPart (ty : Nat) (kh : List (Nat → List UInt8)) (kd : List (Nat → Nat)) (l : Nat) : List UInt8 :=
  (kd.map (· (childLevel ty l))).flatMap depthBytes ++ (kh.map (· (childLevel ty l))).flatten

def nodeDepth (ds : List Nat) : Nat := if ds.isEmpty then 0 else ds.foldl max 0 + 1

/-- hash at level `l` of a cell `(ty, mask, bits)` whose children have hash functions `kh` and depth functions `kd` -/
def hashLevel (H : List UInt8 → List UInt8) (ty mask : Nat) (bits : List Bool)
    (kh : List (Nat → List UInt8)) (kd : List (Nat → Nat)) : Nat → List UInt8
  | 0 =>
    if ty = tyPruned ∧ 0 < level mask then storedHash bits 0
    else H (descr ty mask bits kh.length 0 ++ paddedData bits ++ childrenPart ty kh kd 0)
  | l + 1 =>
    if ty = tyPruned ∧ l + 1 < level mask then storedHash bits (popcount (maskBelow mask (l + 1)))
    else if !significant mask (l + 1) then hashLevel H ty mask bits kh kd l
    else if ty = tyPruned then
      -- own level of a pruned branch: the lowest level computed for it
      H (descr ty mask bits kh.length (l + 1) ++ paddedData bits ++ childrenPart ty kh kd (l + 1))
    else
      H (descr ty mask bits kh.length (l + 1) ++ hashLevel H ty mask bits kh kd l ++ childrenPart ty kh kd (l + 1))

/-- depth at level `l` -/
def depthLevel (ty mask : Nat) (bits : List Bool) (kd : List (Nat → Nat)) : Nat → Nat
  | 0 =>
    if ty = tyPruned ∧ 0 < level mask then storedDepth bits (popcount mask) 0
    else nodeDepth (kd.map (· (childLevel ty 0)))
  | l + 1 =>
    if ty = tyPruned ∧ l + 1 < level mask then storedDepth bits (popcount mask) (popcount (maskBelow mask (l + 1)))
    else if !significant mask (l + 1) then depthLevel ty mask bits kd l
    else nodeDepth (kd.map (· (childLevel ty (l + 1))))

mutual
/-- depth of a cell at level `l` -/
def depthAt : Cell → Nat → Nat
  | .mk ty mask bits refs => depthLevel ty mask bits (depthAtL refs)
def depthAtL : List Cell → List (Nat → Nat)
  | [] => []
  | c :: cs => depthAt c :: depthAtL cs
end

mutual
/-- representation hash of a cell at level `l` -/
def hashAt (H : List UInt8 → List UInt8) : Cell → Nat → List UInt8
  | .mk ty mask bits refs => hashLevel H ty mask bits (hashAtL H refs) (depthAtL refs)
def hashAtL (H : List UInt8 → List UInt8) : List Cell → List (Nat → List UInt8)
  | [] => []
  | c :: cs => hashAt H c :: hashAtL H cs
end

/-! ### the representations that are hashed (inputs of `H`), for statements about collision-freedom -/

/-- level `l` of a cell `(ty, mask)` has a representation of its own: it is significant and not one of the lower
levels a pruned branch merely stores -/
def computed (ty mask l : Nat) : Bool := significant mask l && !(ty == tyPruned && decide (l < level mask))

/-- the byte string hashed at a computed level `l` -/
def reprLevel (H : List UInt8 → List UInt8) (ty mask : Nat) (bits : List Bool)
    (kh : List (Nat → List UInt8)) (kd : List (Nat → Nat)) (l : Nat) : List UInt8 :=
  descr ty mask bits kh.length l ++
    (if l = 0 ∨ ty = tyPruned then paddedData bits else hashLevel H ty mask bits kh kd (l - 1)) ++
    childrenPart ty kh kd l

mutual
/-- every byte string that is hashed when the hashes of `c` at levels 0..3 are computed: the representations of all
computed levels of all its sub-cells (a finite list; `CollisionFree H (allReprs H c)` is the local idealisation) -/
def allReprs (H : List UInt8 → List UInt8) : Cell → List (List UInt8)
  | .mk ty mask bits refs =>
    ((List.range 4).filter (computed ty mask)).map (reprLevel H ty mask bits (hashAtL H refs) (depthAtL refs)) ++
      allReprsL H refs
def allReprsL (H : List UInt8 → List UInt8) : List Cell → List (List UInt8)
  | [] => []
  | c :: cs => allReprs H c ++ allReprsL H cs
end

mutual
/-- the cell and all cells below it -/
def subcells : Cell → List Cell
  | .mk ty mask bits refs => .mk ty mask bits refs :: subcellsL refs
def subcellsL : List Cell → List Cell
  | [] => []
  | c :: cs => subcells c ++ subcellsL cs
end

/-- level of a cell -/
def cellLevel (c : Cell) : Nat := level c.mask

/-- `Cell.Hash()`: the representation hash is the hash at the highest level -/
def reprHash (H : List UInt8 → List UInt8) (c : Cell) : List UInt8 := hashAt H c 3

/-! ### exotic-cell well-formedness (decidable) -/

def orMasks (cs : List Cell) : Nat := cs.foldl (fun acc c => acc ||| c.mask) 0

/-- the conditions on one cell given its children -/
def wfNode (ty mask : Nat) (bits : List Bool) (kids : List Cell) : Bool :=
  decide (mask ≤ 7) && decide (bits.length ≤ 1023) && decide (kids.length ≤ 4) &&
  (if ty = tyOrdinary then mask == orMasks kids
   else if ty = tyPruned then
     kids.isEmpty && mask != 0 && bits.length == 8 + 8 + popcount mask * (256 + 16)
   else if ty = tyLibrary then kids.isEmpty && mask == 0 && bits.length == 8 + 256
   else if ty = tyMerkleProof then
     kids.length == 1 && bits.length == 8 + (256 + 16) && mask == orMasks kids >>> 1
   else if ty = tyMerkleUpdate then
     kids.length == 2 && bits.length == 8 + 2 * (256 + 16) && mask == orMasks kids >>> 1
   else false)

mutual
/-- well-formed exotic structure of a whole tree -/
def wfExotic : Cell → Bool
  | .mk ty mask bits refs => wfNode ty mask bits refs && wfExoticL refs
def wfExoticL : List Cell → Bool
  | [] => true
  | c :: cs => wfExotic c && wfExoticL cs
end

abbrev WFExotic (c : Cell) : Prop := wfExotic c = true

/-- the part of `WFExotic` that the agreement of implementation and definition actually needs:
3-bit masks, and pruned branches without children and long enough to hold the hashes and depths their mask announces -/
def sizesNode (ty mask : Nat) (bits : List Bool) (kids : List Cell) : Bool :=
  decide (mask ≤ 7) &&
  (ty != tyPruned || (kids.isEmpty && decide (8 + 8 + popcount mask * (256 + 16) ≤ bits.length)))

mutual
def wfSizes : Cell → Bool
  | .mk ty mask bits refs => sizesNode ty mask bits refs && wfSizesL refs
def wfSizesL : List Cell → Bool
  | [] => true
  | c :: cs => wfSizes c && wfSizesL cs
end

mutual
/-- every level mask of the tree has three bits (all a bag of cells can encode) -/
def wfMasks : Cell → Bool
  | .mk _ mask _ refs => decide (mask ≤ 7) && wfMasksL refs
def wfMasksL : List Cell → Bool
  | [] => true
  | c :: cs => wfMasks c && wfMasksL cs
end

/-! ### depth limit -/

def maxDepth : Nat := 1024

/-- a cell that is not a pruned branch and whose depth at some level exceeds the limit (a pruned branch merely
*stores* depths; it is its parent that becomes too deep) -/
def deepNode (ty mask : Nat) (bits : List Bool) (kd : List (Nat → Nat)) : Bool :=
  ty != tyPruned && (List.range 4).any (fun l => decide (maxDepth < depthLevel ty mask bits kd l))

mutual
/-- some cell of the tree is too deep: exactly the trees for which hashing reports `ErrDepthIsTooBig` -/
def tooDeep : Cell → Bool
  | .mk ty mask bits refs => tooDeepL refs || deepNode ty mask bits (depthAtL refs)
def tooDeepL : List Cell → Bool
  | [] => false
  | c :: cs => tooDeep c || tooDeepL cs
end

end Tongo.Spec
