import TongoModel.Tlb.BlockTlb
import TongoModel.Tlb.Agree
import TongoModel.Tlb.TyText
/-! # TL-B schema text → what the declaration denotes (property C09, TL-B half)

The subset of TL-B that `tlb/parser` compiles and `abi/schemas` uses: declarations `ctor$0101 | ctor#ab | ctor | _
field:T … = Type;` with `T` among `uintN intN (## n) # bitsN Bool Coins Grams (VarUInteger n) MsgAddress Cell X ^T
(Maybe T) (Maybe ^T) (Either X Y) (HashmapE n X)`.

Two independent readings of a parsed schema:
* `goTy`: the reflection descriptor (`Tlb.Ty`, field tags, constructor tags) of the Go struct that
  `tlb/parser.GenerateGolangTypes` is supposed to emit for the declaration — compared EXACTLY with the descriptor the
  harness extracts by reflection from the compiled output of the generator (op `tlbs.desc`);
* `spec`: the TL-B prescription (`Tlb.Spec.SType`, the schema language of C04 whose semantics `specChunk` says which
  bits and references a value serialises to).
`TongoProofs/C09.lean: tlb_schema_sound` proves, for every schema of the subset, that the reflection codec run on
`goTy` writes exactly what `spec` prescribes. -/
namespace Tongo.TlbSchema
open Tongo Tongo.Tlb Tongo.Tlb.Spec Tongo.Bits

/-- type expressions -/
inductive TExpr where
  | uint (n : Nat)                  -- uintN
  | int (n : Nat)                   -- intN
  | natN (n : Nat)                  -- (## n); `#` is (## 32)
  | bits (n : Nat)                  -- bitsN
  | bool                            -- Bool
  | coins                           -- Coins, Grams
  | varUint (n : Nat)               -- (VarUInteger n)
  | msgAddress                      -- MsgAddress, MsgAddressInt, MsgAddressExt
  | cell                            -- Cell: the rest of the current cell (a whole cell under ^)
  | named (name : String)
  | ref (t : TExpr)                 -- ^T
  | maybe (t : TExpr)               -- (Maybe T)
  | either (l r : TExpr)            -- (Either X Y)
  | hashmapE (n : Nat) (v : TExpr)  -- (HashmapE n X)
  deriving DecidableEq, Repr, Inhabited

structure TField where
  name : String
  ty : TExpr
  deriving DecidableEq, Repr, Inhabited

/-- `tag`: the bits written after `$` / `#` (empty: no tag, `$_`, `#_`) -/
structure TDecl where
  ctor : String
  tag : List Bool
  fields : List TField
  type : String
  deriving DecidableEq, Repr, Inhabited

structure TSchema where
  decls : List TDecl
  deriving Repr, Inhabited

/-! ### naming conventions of the generator -/

/-- utils.ToCamelCase -/
def camel (s : String) : String :=
  let step := fun (st : List Char × Bool) (c : Char) =>
    let (out, capNext) := st
    if c.isAlpha then ((if capNext then c.toUpper else c) :: out, false)
    else if c.isDigit then (c :: out, true)
    else (out, c == '_' || c == ' ' || c == '-' || c == '.')
  String.ofList ((s.trimAscii.toString.toList.foldl step ([], true)).1.reverse)

/-! ### the types of a schema -/

def dedup : List String → List String
  | [] => []
  | x :: xs => x :: (dedup xs).filter (· != x)

/-- result types in order of first appearance: the type environment (`Ty.named i` = the i-th) -/
def TSchema.typeNames (S : TSchema) : List String := dedup (S.decls.map (·.type))

def TSchema.ctorsOf (S : TSchema) (t : String) : List TDecl := S.decls.filter (·.type == t)

def idxOf (names : List String) (n : String) : Nat := names.findIdx (· == n)

/-! ### (a) the Go descriptor -/

/-- the Go key type of a dictionary with `n`-bit keys (tlb/parser mapBitsSizeToType): tlb.UintN up to 64 bits, tlb.BitsN
above -/
def dictKeyTy (n : Nat) : Ty := if n ≤ 64 then .uint n else .bytes (n / 8)

/-- the schema type of an `n`-bit dictionary key, as the Go key type holds it -/
def dictKeySpec (n : Nat) : SType := if n ≤ 64 then .nat n else .bits n

/-- type in inline position (a Go type without a struct tag) -/
def goTyI (names : List String) : TExpr → Ty
  | .uint n => if n ≤ 64 then .uint n else .prim (.bigUint n)
  | .natN n => if n ≤ 64 then .uint n else .prim (.bigUint n)
  | .int n => if n ≤ 64 then .int n else .prim (.bigInt n)
  | .bits n => .bytes (n / 8)
  | .bool => .bool
  | .coins => .prim .grams
  | .varUint n => .prim (.varUint n)
  | .msgAddress => .prim .msgAddress
  | .cell => .prim .any
  | .named n => .named (idxOf names n)
  | .ref t => .refT (goTyI names t)
  | .maybe t => .maybe (goTyI names t)
  | .either l r => if r = .ref l then .eitherRef (goTyI names l) else .either (goTyI names l) (goTyI names r)
  | .hashmapE n v => .dictE (dictKeyTy n) (goTyI names v)

/-- does the Go type of the expression have a value-receiver `MarshalTLB` (so that a pointer to it is a marshaler)?
Go's own integer kinds, `bool`, the byte arrays `tlb.BitsN` and generated structs have none; the other types of package
tlb have one. -/
def goMarshaler : TExpr → Bool
  | .uint n | .natN n | .int n => !(n == 8 || n == 16 || n == 32 || n == 64)
  | .bool => false
  | .bits _ => false          -- tlb.BitsN are plain byte arrays
  | .named _ => false
  | _ => true

/-- struct field: the `tlb:"…"` tag class and the field's Go type -/
def goField (names : List String) : TExpr → FieldTag × Ty
  | .ref t => (.ref, goTyI names t)
  | .maybe (.ref t) => (.maybeRef, .ptr (goMarshaler t) (goTyI names t))
  | .maybe t => (.maybe, .ptr (goMarshaler t) (goTyI names t))
  | e => (.plain, goTyI names e)

def goFields (names : List String) : List TField → Fields
  | [] => .nil
  | f :: fs => .cons f.name (goField names f.ty).1 (goField names f.ty).2 (goFields names fs)

/-- the tag as `ParseTag` delivers it -/
def goTag (bits : List Bool) : Tag := ⟨bits.length, bitsToNat bits⟩

def goCtors (names : List String) : List TDecl → Ctors
  | [] => .nil
  | d :: ds => .cons (camel d.ctor) (some (goTag d.tag)) (.struct (goFields names d.fields)) (goCtors names ds)

/-- body of a declared type: one constructor → a struct (with a leading `Magic` field when tagged), several → a sum -/
def goBody (names : List String) (cs : List TDecl) : Ty :=
  match cs with
  | [d] =>
    if d.tag.isEmpty then .struct (goFields names d.fields)
    else .struct (.cons "Magic" .plain (.magic (some (goTag d.tag))) (goFields names d.fields))
  | _ => .sum (goCtors names cs)

def TSchema.goBodies (S : TSchema) : List Ty := S.typeNames.map fun t => goBody S.typeNames (S.ctorsOf t)

def TSchema.goEnv (S : TSchema) : Env := envOfList S.goBodies

/-! ### (b) the TL-B prescription -/

def specI : TExpr → SType
  | .uint n => .nat n
  | .natN n => .nat n
  | .int n => .int n
  | .bits n => .bits n
  | .bool => .bool
  | .coins => .varUint 16
  | .varUint n => .varUint n
  | .msgAddress => .msgAddress
  | .cell => .any
  | .named n => .named n
  | .ref t => .ref (specI t)
  | .maybe t => .maybe (specI t)
  | .either l r => .either (specI l) (specI r)
  | .hashmapE n v => .hashmapE n (dictKeySpec n) (specI v)

def specFields : List TField → SFields
  | [] => .nil
  | f :: fs => .cons f.name (specI f.ty) (specFields fs)

def specCtors : List TDecl → SCtors
  | [] => .nil
  | d :: ds => .cons d.ctor d.tag (camel d.ctor) (.seq (specFields d.fields)) (specCtors ds)

/-- a single tagged constructor: the tag, then the fields (the Go value carries a `Magic` placeholder for the tag) -/
def specBody (cs : List TDecl) : SType :=
  match cs with
  | [d] =>
    if d.tag.isEmpty then .seq (specFields d.fields)
    else .seq (.cons "Magic" (.tag d.tag) (specFields d.fields))
  | _ => .sum (specCtors cs)

def TSchema.specEnv (S : TSchema) : SEnv := fun n =>
  if S.typeNames.contains n then some (specBody (S.ctorsOf n)) else none

/-! ### the subset (decidable) -/

/-- expression in inline position, inside the type with index `cur` (references go to EARLIER types only) -/
def exprOkI (names : List String) (cur : Nat) : TExpr → Bool
  | .uint n | .natN n => n ≤ 64 || n == 128 || n == 256 || n == 257
  | .int n => (1 ≤ n && n ≤ 64) || n == 128 || n == 256 || n == 257
  | .bits n => n % 8 == 0
  | .bool | .coins | .msgAddress | .cell => true
  | .varUint n => 1 ≤ n && n ≤ 32
  | .named n => names.contains n && idxOf names n < cur
  | .ref t => exprOkI names cur t
  | .maybe _ => false                       -- the generator supports Maybe on struct fields only
  | .either l r => exprOkI names cur l && exprOkI names cur r
  | .hashmapE n v => (n ≤ 64 || n % 8 == 0) && exprOkI names cur v

def fieldOk (names : List String) (cur : Nat) : TExpr → Bool
  | .ref t => exprOkI names cur t
  | .maybe (.ref t) => exprOkI names cur t
  | .maybe t => exprOkI names cur t
  | e => exprOkI names cur e

def declOk (names : List String) (cur : Nat) (d : TDecl) : Bool :=
  d.tag.length ≤ 32 && d.fields.all (fun f => fieldOk names cur f.ty)

def bodyOk (names : List String) (cur : Nat) (cs : List TDecl) : Bool :=
  cs.all (declOk names cur) &&
    (match cs with
     | [_] => true
     | _ => cs.all (fun d => !d.tag.isEmpty))

def TSchema.ok (S : TSchema) : Bool :=
  (List.range S.typeNames.length).all fun i =>
    match S.typeNames[i]? with
    | some t => bodyOk S.typeNames i (S.ctorsOf t)
    | none => false

/-! ### nesting depth (fuel bounds of the soundness theorem) -/

def TExpr.depth : TExpr → Nat
  | .ref t => t.depth + 1
  | .maybe t => t.depth + 1
  | .either l r => Nat.max l.depth r.depth + 1
  | .hashmapE _ v => v.depth + 1
  | _ => 1

def TSchema.depth (S : TSchema) : Nat :=
  (S.decls.map fun d => (d.fields.map fun f => f.ty.depth).foldl Nat.max 0).foldl Nat.max 0

def TSchema.maxFields (S : TSchema) : Nat := (S.decls.map (·.fields.length)).foldl Nat.max 0

/-- matcher fuel per declared type that suffices (soundness theorem) -/
def TSchema.bound (S : TSchema) : Nat := S.decls.length + S.maxFields + 2 * S.depth + 8

/-! ### parser for the textual subset -/

inductive Tok where
  | word (s : String)
  | lpar | rpar | hat | colon | eq | semi
  deriving DecidableEq, Repr, Inhabited

def isWordChar (c : Char) : Bool := c.isAlphanum || c == '_' || c == '#' || c == '$' || c == '<' || c == '='

/-- `=` is a word character only inside `#<=`; a lone `=` is the separator -/
def tokenizeAux : List Char → Bool → List Char → List Tok → List Tok
  | [], _, acc, out => (if acc.isEmpty then out else .word (String.ofList acc.reverse) :: out).reverse
  | c :: cs, true, acc, out => tokenizeAux cs (c != '\n') acc out
  | c :: cs, false, acc, out =>
    let flush := if acc.isEmpty then out else .word (String.ofList acc.reverse) :: out
    if c == '/' && cs.head? == some '/' then tokenizeAux cs true [] flush
    else if c == '=' && !(acc.head? == some '<') then tokenizeAux cs false [] (.eq :: flush)
    else if isWordChar c then tokenizeAux cs false (c :: acc) out
    else if c == '(' then tokenizeAux cs false [] (.lpar :: flush)
    else if c == ')' then tokenizeAux cs false [] (.rpar :: flush)
    else if c == '^' then tokenizeAux cs false [] (.hat :: flush)
    else if c == ':' then tokenizeAux cs false [] (.colon :: flush)
    else if c == ';' then tokenizeAux cs false [] (.semi :: flush)
    else tokenizeAux cs false [] flush

def tokenize (s : String) : List Tok := tokenizeAux s.toList false [] []

def numSuffix (pre : String) (w : String) : Option Nat :=
  if w.startsWith pre && w.length > pre.length then (w.drop pre.length).toString.toNat? else none

def hexDigitVal (c : Char) : Option Nat :=
  if c.isDigit then some (c.toNat - 48) else if 'a' ≤ c ∧ c ≤ 'f' then some (c.toNat - 87) else none

/-- `$0101` / `#ab` / `$_` / `#_` → bits -/
def tagOfText (cs : List Char) : Option (List Bool) :=
  match cs with
  | ['$', '_'] | ['#', '_'] | [] => some []
  | '$' :: rest => if rest.all (fun c => c == '0' || c == '1') then some (rest.map (· == '1')) else none
  | '#' :: rest =>
    rest.foldr (fun c acc => match hexDigitVal c, acc with
      | some d, some bs => some (natToBits 4 d ++ bs)
      | _, _ => none) (some [])
  | _ => none

def simpleTy (w : String) : Option TExpr :=
  if w == "#" then some (.natN 32) else if w == "Bool" then some .bool
  else if w == "Coins" || w == "Grams" then some .coins
  else if w == "MsgAddress" || w == "MsgAddressInt" || w == "MsgAddressExt" then some .msgAddress
  else if w == "Cell" then some .cell
  else match numSuffix "uint" w, numSuffix "int" w, numSuffix "bits" w with
    | some n, _, _ => some (.uint n)
    | _, some n, _ => some (.int n)
    | _, _, some n => some (.bits n)
    | _, _, _ =>
      match w.toList with
      | c :: _ => if c.isUpper && w.toList.all (fun c => c.isAlphanum || c == '_') then some (.named w) else none
      | [] => none

def parseTy : Nat → List Tok → Option (TExpr × List Tok)
  | 0, _ => none
  | fuel + 1, toks =>
    match toks with
    | .hat :: r => (parseTy fuel r).map fun (t, r') => (.ref t, r')
    | .word w :: r => (simpleTy w).map fun t => (t, r)
    | .lpar :: .word h :: r =>
      if h == "##" then
        match r with
        | .word n :: .rpar :: r' => n.toNat?.map fun k => (.natN k, r')
        | _ => none
      else if h == "VarUInteger" then
        match r with
        | .word n :: .rpar :: r' => n.toNat?.map fun k => (.varUint k, r')
        | _ => none
      else if h == "Maybe" then
        match parseTy fuel r with
        | some (t, .rpar :: r') => some (.maybe t, r')
        | _ => none
      else if h == "Either" then
        match parseTy fuel r with
        | some (a, r1) =>
          match parseTy fuel r1 with
          | some (b, .rpar :: r') => some (.either a b, r')
          | _ => none
        | none => none
      else if h == "HashmapE" then
        match r with
        | .word n :: r1 =>
          match n.toNat?, parseTy fuel r1 with
          | some k, some (v, .rpar :: r') => some (.hashmapE k v, r')
          | _, _ => none
        | _ => none
      else none
    | _ => none

def parseFields : Nat → List Tok → Option (List TField × List Tok)
  | 0, _ => none
  | fuel + 1, toks =>
    match toks with
    | .eq :: r => some ([], r)
    | .word name :: .colon :: r =>
      match parseTy (r.length + 1) r with
      | some (t, r') => (parseFields fuel r').map fun (fs, r'') => ({ name := name, ty := t } :: fs, r'')
      | none => none
    | _ => none

def parseDecl (toks : List Tok) : Option (TDecl × List Tok) :=
  match toks with
  | .word head :: r =>
    let cs := head.toList
    let name := cs.takeWhile (fun c => c != '$' && c != '#')
    match tagOfText (cs.dropWhile (fun c => c != '$' && c != '#')), parseFields (r.length + 1) r with
    | some tag, some (fs, .word ty :: .semi :: r') =>
      some ({ ctor := String.ofList name, tag := tag, fields := fs, type := ty }, r')
    | _, _ => none
  | _ => none

def parseDecls : Nat → List Tok → Option (List TDecl)
  | 0, _ => none
  | _ + 1, [] => some []
  | fuel + 1, toks =>
    match parseDecl toks with
    | some (d, r) => (parseDecls fuel r).map (d :: ·)
    | none => none

def parse (s : String) : Option TSchema :=
  let toks := tokenize s
  (parseDecls (toks.length + 1) toks).map fun ds => { decls := ds }

end Tongo.TlbSchema
