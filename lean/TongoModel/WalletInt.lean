import TongoModel.WalletMsg
import TongoModel.Hashmap
/-! Outgoing (internal) messages a wallet is asked to send: `wallet.Message`, `wallet.SimpleTransfer`,
`wallet.ContractDeploy` and their `ToInternal` + `tlb.Marshal` (wallet/models.go; tlb.Message / CommonMsgInfo /
StateInit / Grams marshalling), with the state init they may carry, and the reading side (what a validator's
`tlb.Message` decoder sees in the signed message). -/
namespace Tongo.Wallet
open Tongo Tongo.Bits

/-- what the caller asks for (the fields of `wallet.Message`; the other Sendables reduce to it) -/
structure OutMsg where
  bounce : Bool
  dest : Address
  amount : Nat            -- tlb.Grams (uint64)
  body : Option Cell := none
  code : Option Cell := none
  data : Option Cell := none
  mode : Nat := 3
  extra : List (Nat × Nat) := []   -- `SimpleTransfer.ExtraCurrency`: (uint32(currency id), amount), ids distinct

/-- `len(big.Int.Bytes())`: the number of base-256 digits -/
def byteLen (n : Nat) : Nat := if n = 0 then 0 else byteLen (n / 256) + 1
decreasing_by omega

/-- `Grams` = `VarUInteger 16`: byte length on 4 bits, then the bytes -/
def gramsBits (n : Nat) : List Bool := natToBits 4 (byteLen n) ++ natToBits (8 * byteLen n) n

def writeGrams (b : CellB) (n : Nat) : Outcome CellB :=
  if byteLen n > 15 then .err "WriteLimUint: value is greater than the limit" else b.write (gramsBits n)

/-- `VarUInteger 32` (the value type of `ExtraCurrencyCollection`): byte length on 5 bits, then the bytes; more than 31
bytes is an error -/
def varUInt32Bits (n : Nat) : List Bool := natToBits 5 (byteLen n) ++ natToBits (8 * byteLen n) n

/-- the value codec of `HashmapE 32 (VarUInteger 32)` -/
def extraCodec : Hashmap.Codec Nat where
  enc n := if byteLen n > 31 then .err "WriteLimUint: value is greater than the limit" else .ok (varUInt32Bits n, [])
  dec bits refs := (CellR.readUint { bits := bits, refs := refs } 5).bind fun x => (x.2.readUint (x.1 * 8)).bind fun y => .ok y.1

/-- the entries `info.Value.Other.Dict.Put(tlb.Uint32(k), v)` leaves in the dictionary: key = the id on 32 bits -/
def extraKvs (extra : List (Nat × Nat)) : List (Hashmap.Key × Nat) := extra.map fun p => (natToBits 32 p.1, p.2)

/-- `ExtraCurrencyCollection` = `HashmapE 32 (VarUInteger 32)`: `hme_empty$0`, or `hme_root$1` and a reference to the
dictionary (the shared model of C05: entries ordered by key bits, canonical labels) -/
def writeExtra (b : CellB) (extra : List (Nat × Nat)) : Outcome CellB :=
  if extra.isEmpty then b.write [false]
  else (Hashmap.marshal extraCodec 32 (extraKvs extra)).bind fun d => (b.write [true]).bind fun b => b.addRef d

/-- `Message.ToInternal`: a state init is attached only when BOTH code and data are given; then the code and the data
are both marked present (`just$1 ^code`, `just$1 ^data`), nothing else is -/
def OutMsg.init (m : OutMsg) : Option Cell :=
  match m.code, m.data with
  | some c, some d => some (stateInitCell c d)
  | _, _ => none

/-- `Either X ^X` with `IsRight` set whenever there is a body: the body is copied (`tlb.Any`) into a referenced cell -/
def writeBodyRef (b : CellB) : Option Cell → Outcome CellB
  | none => b.write [false]
  | some x => (b.write [true]).bind fun b => b.addRef (.ordinary x.bits x.refs)

/-- `ToInternal` + `tlb.Marshal`: `int_msg_info$0 ihr_disabled:1 bounce bounced:0 src:addr_none$00 dest:addr_std$10
nothing$0 wc:int8 addr:bits256 value:(Grams, hme_empty$0) ihr_fee:0000 fwd_fee:0000 created_lt:0 created_at:0`,
init `nothing$0` or `just$1 right$1 ^StateInit`, body `left$0` (empty) or `right$1 ^body` -/
def internalMsg (m : OutMsg) : Outcome Cell := do
  let b ← CellB.empty.write [false, true, m.bounce, false]
  let b ← b.write [false, false]
  let b ← b.write ([true, false, false] ++ intToBits 8 (toI8 m.dest.workchain))
  let b ← b.writeBytes (m.dest.hash.take 32 ++ List.replicate (32 - m.dest.hash.length) 0)
  let b ← writeGrams b m.amount
  let b ← writeExtra b m.extra
  let b ← writeGrams b 0
  let b ← writeGrams b 0
  let b ← b.writeUint 0 64
  let b ← b.writeUint 0 32
  let b ← writeInit b m.init
  let b ← writeBodyRef b m.body
  pure b.toCell

/-- the message written out (what `internalMsg` returns for a 32-byte address, a `uint64` amount and no extra currencies) -/
def internalLayout (m : OutMsg) : Cell :=
  .ordinary ([false, true, m.bounce, false] ++ [false, false] ++ ([true, false, false] ++ intToBits 8 (toI8 m.dest.workchain)) ++
      bytesToBits m.dest.hash ++ gramsBits m.amount ++ [false] ++ gramsBits 0 ++ gramsBits 0 ++ natToBits 64 0 ++ natToBits 32 0 ++
      (if m.init.isSome then [true, true] else [false]) ++ [m.body.isSome])
    (m.init.toList ++ (m.body.map fun x => Cell.ordinary x.bits x.refs).toList)

/-! ### the Sendables -/

/-- `SnakeData.MarshalTLB`: the bits that fit go into the current cell (which already holds `pre`), the rest into a
referenced cell, recursively -/
def snake : (fuel : Nat) → (pre bits : List Bool) → Cell
  | 0, pre, bits => .ordinary (pre ++ bits) []
  | fuel + 1, pre, bits =>
    if bits.length ≤ 1023 - pre.length then .ordinary (pre ++ bits) []
    else .ordinary (pre ++ bits.take (1023 - pre.length)) [snake fuel [] (bits.drop (1023 - pre.length))]

/-- `TextComment.MarshalTLB`: 32 zero bits, then the text as snake data -/
def commentBody (text : List UInt8) : Cell := snake text.length (natToBits 32 0) (bytesToBits text)

/-- `SimpleTransfer.ToInternal`: default mode 3; no body for an empty comment; the extra currencies go into the value's
`ExtraCurrencyCollection` -/
def simpleTransfer (amount : Nat) (dest : Address) (comment : List UInt8) (bounce : Bool) (extra : List (Nat × Nat) := []) : OutMsg :=
  { bounce := bounce, dest := dest, amount := amount, mode := 3, extra := extra,
    body := if comment.isEmpty then none else some (commentBody comment) }

/-- `ContractDeploy.ToInternal` (code, data, body already cells): both code and data are required; the destination is
the hash of the state init, bounce is set, mode 3 -/
def contractDeploy (H : List UInt8 → List UInt8) (wc : Int) (code data body : Option Cell) (amount : Nat) : Outcome OutMsg :=
  match code, data with
  | some c, some d => do
    let h ← (stateInitCell c d).hashO? H
    pure { bounce := true, dest := { workchain := wc, hash := h }, amount := amount, body := body, code := some c, data := some d, mode := 3 }
  | _, _ => .err "code and data must be set"

/-! ### reading an internal message (tlb.Message.UnmarshalTLB on the int_msg_info fragment) -/

def readGrams (r : CellR) : Outcome (Nat × CellR) := (r.readUint 4).bind fun x => x.2.readUint (x.1 * 8)

def readRefIf (r : CellR) (flag : Bool) : Outcome (Option Cell × CellR) :=
  if flag then (r.nextRef).bind fun x => .ok (some x.1, x.2) else .ok (none, r)

def failIf (b : Bool) (msg : String) : Outcome Unit := if b then .err msg else .ok ()

/-- `ExtraCurrencyCollection` decode: `HashmapE 32 (VarUInteger 32)` at the cursor (one bit, then a reference) -/
def readExtra (r : CellR) : Outcome (List (Nat × Nat) × CellR) :=
  (r.readBit).bind fun x =>
    if x.1 then
      (x.2.nextRef).bind fun y =>
        (if y.1.ty = tyPruned then .ok [] else Hashmap.unmarshal extraCodec 32 y.1).bind fun kvs =>
          .ok (kvs.map fun kv => (bitsToNat kv.1, kv.2), y.2)
    else .ok ([], x.2)

/-- `StateInit` struct decode returning the code and the data; a set library bit is outside the modelled fragment -/
def readStateInit (r : CellR) : Outcome ((Option Cell × Option Cell) × CellR) := do
  let (sd, r) ← r.readBit
  let r ← r.skipIf sd 5
  let (sp, r) ← r.readBit
  let r ← r.skipIf sp 2
  let (c, r) ← r.readBit
  let (code, r) ← readRefIf r c
  let (d, r) ← r.readBit
  let (data, r) ← readRefIf r d
  let (lib, r) ← r.readBit
  let _ ← failIf lib "unmodelled: state-init with libraries"
  pure ((code, data), r)

/-- what is read of the init: the referenced state-init cell (if by reference), the code, the data -/
structure InitRead where
  cell : Option Cell := none
  code : Option Cell := none
  data : Option Cell := none
  deriving Inhabited

def readInitRef (r : CellR) : Outcome (InitRead × CellR) :=
  (r.nextRef).bind fun y =>
    if y.1.ty = tyLibrary then .err "library cell decoding is not configured properly"
    else (readStateInit (CellR.ofCell y.1)).bind fun z => .ok ({ cell := some y.1, code := z.1.1, data := z.1.2 }, y.2)

def readInitIf (r : CellR) (has : Bool) : Outcome (InitRead × CellR) :=
  if has then
    (r.readBit).bind fun x =>
      if x.1 then readInitRef x.2
      else (readStateInit x.2).bind fun z => .ok ({ code := z.1.1, data := z.1.2 }, z.2)
  else .ok ({}, r)

structure IntMsg where
  bounce : Bool
  dest : Option (Int × List Bool)
  amount : Nat
  hasInit : Bool
  init : InitRead
  body : Cell
  extra : List (Nat × Nat) := []
  deriving Inhabited

def decodeIntInfo (r : CellR) : Outcome IntMsg := do
  let (_, r) ← r.readBit                 -- ihr_disabled
  let (bounce, r) ← r.readBit
  let (_, r) ← r.readBit                 -- bounced
  let (_, r) ← readMsgAddress r
  let (dest, r) ← readMsgAddress r
  let (amount, r) ← readGrams r
  let (extra, r) ← readExtra r
  let (_, r) ← readGrams r
  let (_, r) ← readGrams r
  let (_, r) ← r.readBits 64
  let (_, r) ← r.readBits 32
  let (hasInit, r) ← r.readBit
  let (i, r) ← readInitIf r hasInit
  let body ← readBody r
  pure { bounce := bounce, dest := dest, amount := amount, hasInit := hasInit, init := i, body := body, extra := extra }

def decodeInternal (c : Cell) : Outcome IntMsg :=
  if c.ty = tyLibrary then .err "library cell decoding is not configured properly"
  else if c.depthO > maxDepth then .err "depth is too big"
  else
    match c.bits with
    | false :: rest => decodeIntInfo { bits := rest, refs := c.refs }
    | _ => .err "unmodelled: not int_msg_info"

end Tongo.Wallet
