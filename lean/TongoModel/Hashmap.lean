import TongoModel.Bits
import TongoModel.Cell
import TongoModel.Outcome
/-! Model of tlb/hashmap.go (Hashmap, HashmapE; decode side of HashmapAug shares loadLabel/mapInner).

Keys are bit lists (the encoded form of the Go key: `Marshal(cell, k)`), values are abstract with a codec parameter.
The dictionary state is the list of (key, value) pairs in slice order (Go keeps two parallel slices of equal length;
`NewHashmap` with slices of different lengths is outside the model).

MODEL (mirrors the code): `commonLabel`/`encLabelBits`/`allSame` = encodeLabel, `splitKeys` + `encodeMap` = Hashmap.encodeMap,
`sortKV` + `marshal`/`marshalE` = Hashmap.MarshalTLB / HashmapE.MarshalTLB, `loadLabel` = loadLabel, `mapInner`,
`unmarshal`/`unmarshalE`, `get`, `put`.
SPEC: `Lbl`, `HTree`, `HTree.Valid`, `HTree.meaning`, `HTree.toCell` — the TL-B definition of `Hashmap n X` with any of the
three label forms on any edge — and `lexLt`, the ascending order of key bits. -/
namespace Tongo.Hashmap
open Tongo

abbrev Key := List Bool

/-! ## integer helpers -/

def bitLenAux : Nat → Nat → Nat
  | 0, _ => 0
  | f + 1, v => if v = 0 then 0 else bitLenAux f (v / 2) + 1

/-- boc.minBitsRequired(uint64): the bit length of `v` (exact for `v < 2^64`, the domain of the Go function) -/
def minBitsRequired (v : Nat) : Nat := bitLenAux 64 v

/-- width of the length field of hml_long / hml_same: `minBitsRequired(uint64(m))`; a negative Go int converts to a
uint64 ≥ 2^63, whose bit length is 64 -/
def lenWidth (m : Int) : Nat := if m < 0 then 64 else minBitsRequired m.toNat

/-- value codec: `enc` = what `Marshal(c, v)` appends to the leaf cell (bits, refs); `dec` = `decoder.Unmarshal(c, &v)`
on the rest of the leaf cell (remaining bits, all refs) -/
structure Codec (V : Type) where
  enc : V → Outcome (List Bool × List Cell)
  dec : List Bool → List Cell → Outcome V

/-- a cell under construction overflows beyond 1023 bits / 4 refs: every write error surfaces as `err` -/
def mkCell (bits : List Bool) (refs : List Cell) : Outcome Cell :=
  if bits.length > 1023 then .err "BitString overflow"
  else if refs.length > 4 then .err "too many refs"
  else .ok (Cell.ordinary bits refs)

/-! ## encoder -/

/-- WriteUnary(n): n ones and a zero -/
def unary (n : Nat) : List Bool := List.replicate n true ++ [false]

/-- the loop of encodeLabel for two different slice elements. `bitLeft` is the bit already read from keyFirst,
`room` = label capacity (keySize) minus bits written so far. Loop runs while keyFirst has bits left, so the label never
contains the last bit of keyFirst. -/
def labelLoop (room : Int) (bitLeft : Bool) : Key → Key → Outcome Key
  | [], _ => .ok []                                   -- keyFirst.BitsAvailableForRead() == 0
  | _ :: _, [] => .err "not enough bits"              -- keyLast.ReadBit()
  | b' :: rest', bR :: last' =>
    if bitLeft != bR then .ok []
    else if room ≤ 0 then .err "BitString overflow"   -- label.WriteBit beyond cap = keySize
    else match labelLoop (room - 1) b' rest' last' with
      | .ok l => .ok (bitLeft :: l)
      | e => e

/-- encodeLabel, `keyFirst != keyLast` branch: the common prefix of first and last key -/
def commonLabel (keySize : Int) (first last : Key) : Outcome Key :=
  match first with
  | [] => .err "not enough bits"
  | b :: rest => labelLoop keySize b rest last

/-- allBitsEqual -/
def allSame : Key → Bool
  | [] => true
  | b :: r => r.all (· == b)

/-- the bits encodeLabel writes for `label`: TON's shortest form (crypto/vm/dict.cpp append_dict_label). With
`k` = width of the length field: hml_same (3 + k bits) for an all-equal label of n > 1 bits when k < 2n − 1; else
hml_long (2 + k + n) when k < n; else hml_short (2 + 2n). -/
def encLabelBits (label : Key) (keySize : Int) : List Bool :=
  let n := label.length
  let k := lenWidth keySize
  if n > 1 ∧ k < 2 * n - 1 ∧ allSame label = true then
    true :: true :: label.headD false :: Bits.natToBits k n
  else if k < n then true :: false :: (Bits.natToBits k n ++ label)
  else false :: (unary n ++ label)

/-- the partition loop of encodeMap: skip `l` label bits, branch on the next bit, keep the rest; relative order kept -/
def splitKeys {V : Type} (l : Nat) : List (Key × V) → Outcome (List (Key × V) × List (Key × V))
  | [] => .ok ([], [])
  | (k, v) :: rest =>
    if k.length < l then .err "not enough bits"       -- keys[i].ReadBits(len(label))
    else match k.drop l with
      | [] => .err "not enough bits"                   -- keys[i].ReadBit()
      | b :: k' =>
        match splitKeys l rest with
        | .ok (L, R) => .ok (if b then (L, (k', v) :: R) else ((k', v) :: L, R))
        | .err e => .err e
        | .panic p => .panic p

/-- the `len(keys) > 1` part of encodeMap: label = common prefix of first and last key, partition, two refs.
`recur` is the recursive call. -/
def encodeFork {V : Type} (recur : List (Key × V) → Int → Outcome Cell) (kvs : List (Key × V)) (keySize : Int)
    (first last : Key) : Outcome Cell :=
  match commonLabel keySize first last with
  | .ok label =>
    match splitKeys label.length kvs with
    | .ok (L, R) =>
      match recur L (keySize - label.length - 1) with
      | .ok l =>
        match recur R (keySize - label.length - 1) with
        | .ok r => mkCell (encLabelBits label keySize) [l, r]
        | e => e
      | e => e
    | .err e => .err e
    | .panic p => .panic p
  | .err e => .err e
  | .panic p => .panic p

/-- Hashmap.encodeMap into a fresh cell. `fuel` bounds the recursion depth (every level shortens every key, so
`length of the first key + 1` suffices; the theorems show it is never exhausted on well-formed input). -/
def encodeMap {V : Type} (C : Codec V) : Nat → List (Key × V) → Int → Outcome Cell
  | 0, _, _ => .err "fuel"
  | fuel + 1, kvs, keySize =>
    match kvs with
    | [] => .err "keys or values are empty"
    | [(k, v)] =>
      -- keyFirst == keyLast: label = whole (remaining) key; then the value
      match C.enc v with
      | .ok (vb, vr) => mkCell (encLabelBits k keySize ++ vb) vr
      | .err e => .err e
      | .panic p => .panic p
    | (k0, _) :: kv1 :: more =>
      encodeFork (encodeMap C fuel) kvs keySize k0 ((kv1 :: more).getLast (by simp)).1

/-- ascending order of key bits (lexicographic; a proper prefix is smaller) -/
def lexLt : Key → Key → Bool
  | [], [] => false
  | [], _ :: _ => true
  | _ :: _, [] => false
  | a :: as, b :: bs => (!a && b) || (a == b && lexLt as bs)

/-- stable insertion: before the first entry whose key is not smaller -/
def insertKV {V : Type} (x : Key × V) : List (Key × V) → List (Key × V)
  | [] => [x]
  | y :: ys => if lexLt y.1 x.1 then y :: insertKV x ys else x :: y :: ys

/-- sortByKeyBits (sort.SliceStable by compareKeyBits) -/
def sortKV {V : Type} (l : List (Key × V)) : List (Key × V) := l.foldr insertKV []

def maxKeyLen {V : Type} (kvs : List (Key × V)) : Nat := kvs.foldl (fun m kv => max m kv.1.length) 0

/-- Hashmap.MarshalTLB into a fresh cell (the `Ref` of HashmapE); an empty dictionary writes nothing -/
def marshal {V : Type} (C : Codec V) (keySize : Nat) (kvs : List (Key × V)) : Outcome Cell :=
  if kvs.isEmpty then .ok (Cell.ordinary [] [])
  else encodeMap C (maxKeyLen kvs + 1) (sortKV kvs) keySize

/-- the encoder as it was before the repair (no sort step): encodeMap applied to the slice order -/
def marshalUnsorted {V : Type} (C : Codec V) (keySize : Nat) (kvs : List (Key × V)) : Outcome Cell :=
  if kvs.isEmpty then .ok (Cell.ordinary [] [])
  else encodeMap C (maxKeyLen kvs + 1) kvs keySize

/-- HashmapE.MarshalTLB into a fresh cell: Maybe ^(Hashmap n X) -/
def marshalE {V : Type} (C : Codec V) (keySize : Nat) (kvs : List (Key × V)) : Outcome Cell :=
  if kvs.isEmpty then .ok (Cell.ordinary [false] [])
  else match marshal C keySize kvs with
    | .ok r => .ok (Cell.ordinary [true] [r])
    | e => e

/-! ## decoder -/

/-- ReadUnary: count ones up to the terminating zero -/
def readUnary : List Bool → Option (Nat × List Bool)
  | [] => none
  | false :: r => some (0, r)
  | true :: r => match readUnary r with
    | some (n, r') => some (n + 1, r')
    | none => none

/-- ReadUint(w) for w ≤ 64 (always the case for a Go int argument of ReadLimUint) -/
def readUint (w : Nat) (bits : List Bool) : Option (Nat × List Bool) :=
  if bits.length < w then none else some (Bits.bitsToNat (bits.take w), bits.drop w)

/-- loadLabel(size = m, c, key): parses one label from `bits`, appends its bits to the key prefix (capacity `cap`);
returns (label length, new prefix, rest of the cell bits). Every failure (cell exhausted, prefix overflow) is `err`. -/
def loadLabel (m : Int) (cap : Nat) (pfx : Key) (bits : List Bool) : Outcome (Nat × Key × List Bool) :=
  match bits with
  | [] => .err "not enough bits"
  | false :: r =>                                     -- hml_short$0
    match readUnary r with
    | none => .err "not enough bits"
    | some (ln, r') =>
      if r'.length < ln then .err "not enough bits"
      else if pfx.length + ln > cap then .err "BitString overflow"
      else .ok (ln, pfx ++ r'.take ln, r'.drop ln)
  | true :: [] => .err "not enough bits"
  | true :: false :: r =>                             -- hml_long$10
    match readUint (lenWidth m) r with
    | none => .err "not enough bits"
    | some (ln, r') =>
      if r'.length < ln then .err "not enough bits"
      else if pfx.length + ln > cap then .err "BitString overflow"
      else .ok (ln, pfx ++ r'.take ln, r'.drop ln)
  | true :: true :: [] => .err "not enough bits"
  | true :: true :: b :: r =>                         -- hml_same$11
    match readUint (lenWidth m) r with
    | none => .err "not enough bits"
    | some (ln, r') =>
      if pfx.length + ln > cap then .err "BitString overflow"
      else .ok (ln, pfx ++ List.replicate ln b, r')

/-- Hashmap.mapInner. `left` = leftKeySize (a Go int), `pfx` = keyPrefix (capacity keySize). Pruned branches are
skipped; a leaf is reached when the prefix has keySize bits; a library cell cannot be decoded as a value. -/
def mapInner {V : Type} (C : Codec V) (keySize : Nat) : Nat → Int → Cell → Key → Outcome (List (Key × V))
  | 0, _, _, _ => .err "fuel"
  | fuel + 1, left, .mk ty _ bits refs, pfx =>
    if ty = tyPruned then .ok []
    else match loadLabel left keySize pfx bits with
      | .ok (size, pfx', rest) =>
        if pfx'.length < keySize then
          match refs with
          | [] => .err "not enough refs"
          | l :: refs' =>
            match mapInner C keySize fuel (left - (1 + (size : Int))) l (pfx' ++ [false]) with
            | .ok a =>
              match refs' with
              | [] => .err "not enough refs"
              | r :: _ =>
                match mapInner C keySize fuel (left - (1 + (size : Int))) r (pfx' ++ [true]) with
                | .ok b => .ok (a ++ b)
                | e => e
            | e => e
        else if ty = tyLibrary then .err "library cell decoding is not configured properly"
        else match C.dec rest refs with
          | .ok v => .ok [(pfx', v)]
          | .err e => .err e
          | .panic p => .panic p
      | .err e => .err e
      | .panic p => .panic p

/-- Hashmap.UnmarshalTLB -/
def unmarshal {V : Type} (C : Codec V) (keySize : Nat) (c : Cell) : Outcome (List (Key × V)) :=
  if c.ty = tyLibrary then .err "library cell decoding is not configured properly"
  else mapInner C keySize (keySize + 1) keySize c []

/-- HashmapE.UnmarshalTLB: Maybe ^(Hashmap n X); a pruned ref decodes as the empty dictionary -/
def unmarshalE {V : Type} (C : Codec V) (keySize : Nat) (c : Cell) : Outcome (List (Key × V)) :=
  if c.ty = tyLibrary then .err "library cell decoding is not configured properly"
  else match c.bits with
    | [] => .err "not enough bits"
    | false :: _ => .ok []
    | true :: _ =>
      match c.refs with
      | [] => .err "not enough refs"
      | r :: _ => if r.ty = tyPruned then .ok [] else unmarshal C keySize r

/-! ## HashmapAug / HashmapAugE (decode side only: MarshalTLB is "not implemented") -/

/-- decoder of one extra `Y` from the current position of a cell: the value and what is left (bits, refs) -/
abbrev XDec (Y : Type) := List Bool → List Cell → Outcome (Y × List Bool × List Cell)

/-- HashMapAugExtraList: the tree of extras Go builds next to keys/values. A leaf has Left = Right = nil; below a
pruned branch (and for an empty dictionary) the node keeps Go's zero value, i.e. looks like a leaf holding `zero`. -/
inductive AugExtras (Y : Type) where
  | leaf (data : Y)
  | fork (data : Y) (left right : AugExtras Y)
  deriving Repr, Inhabited

/-- HashmapAug.mapInner. A fork decodes its extra after both branches (from the rest of the fork cell: the bits after the
label, the refs after the two branches), a leaf decodes extra then value. -/
def mapInnerAug {V Y : Type} (xdec : XDec Y) (zero : Y) (C : Codec V)
    (keySize : Nat) : Nat → Int → Cell → Key → Outcome (List (Key × V) × AugExtras Y)
  | 0, _, _, _ => .err "fuel"
  | fuel + 1, left, .mk ty _ bits refs, pfx =>
    if ty = tyPruned then .ok ([], .leaf zero)
    else match loadLabel left keySize pfx bits with
      | .ok (size, pfx', rest) =>
        if pfx'.length < keySize then
          match refs with
          | [] => .err "not enough refs"
          | l :: refs' =>
            match mapInnerAug xdec zero C keySize fuel (left - (1 + (size : Int))) l (pfx' ++ [false]) with
            | .ok (a, xa) =>
              match refs' with
              | [] => .err "not enough refs"
              | r :: refs'' =>
                match mapInnerAug xdec zero C keySize fuel (left - (1 + (size : Int))) r (pfx' ++ [true]) with
                | .ok (b, xb) =>
                  if ty = tyLibrary then .err "library cell decoding is not configured properly"
                  else match xdec rest refs'' with
                    | .ok (y, _, _) => .ok (a ++ b, .fork y xa xb)
                    | .err e => .err e
                    | .panic p => .panic p
                | .err e => .err e
                | .panic p => .panic p
            | .err e => .err e
            | .panic p => .panic p
        else if ty = tyLibrary then .err "library cell decoding is not configured properly"
        else match xdec rest refs with
          | .ok (y, rest', refs') =>
            match C.dec rest' refs' with
            | .ok v => .ok ([(pfx', v)], .leaf y)
            | .err e => .err e
            | .panic p => .panic p
          | .err e => .err e
          | .panic p => .panic p
      | .err e => .err e
      | .panic p => .panic p

/-- HashmapAug.UnmarshalTLB (also used inline, e.g. AccountBlock.transactions) -/
def unmarshalAug {V Y : Type} (xdec : XDec Y) (zero : Y) (C : Codec V) (keySize : Nat) (c : Cell) :
    Outcome (List (Key × V) × AugExtras Y) :=
  if c.ty = tyLibrary then .err "library cell decoding is not configured properly"
  else mapInnerAug xdec zero C keySize (keySize + 1) keySize c []

/-- HashmapAugE.UnmarshalTLB: struct { M Maybe ^(HashmapAug n X Y); Extra Y } — entries, extras tree, root extra -/
def unmarshalAugE {V Y : Type} (xdec : XDec Y) (zero : Y) (C : Codec V)
    (keySize : Nat) (c : Cell) : Outcome (List (Key × V) × AugExtras Y × Y) :=
  if c.ty = tyLibrary then .err "library cell decoding is not configured properly"
  else match c.bits with
    | [] => .err "not enough bits"
    | false :: rest => match xdec rest c.refs with
      | .ok (y, _, _) => .ok ([], .leaf zero, y)
      | .err e => .err e
      | .panic p => .panic p
    | true :: rest =>
      match c.refs with
      | [] => .err "not enough refs"
      | r :: refs' =>
        let m : Outcome (List (Key × V) × AugExtras Y) :=
          if r.ty = tyPruned then .ok ([], .leaf zero)
          else unmarshalAug xdec zero C keySize r
        match m with
        | .ok (kvs, xs) => match xdec rest refs' with
          | .ok (y, _, _) => .ok (kvs, xs, y)
          | .err e => .err e
          | .panic p => .panic p
        | .err e => .err e
        | .panic p => .panic p

/-! ## Get / Put -/

/-- Hashmap.Get: first entry whose key is Equal -/
def get {V : Type} : List (Key × V) → Key → Option V
  | [], _ => none
  | (k', v) :: rest, k => if k' == k then some v else get rest k

/-- first loop of Put: overwrite the value of the first Equal key -/
def replaceKV {V : Type} (k : Key) (v : V) : List (Key × V) → Option (List (Key × V))
  | [] => none
  | (k', v') :: rest =>
    if k' == k then some ((k', v) :: rest)
    else match replaceKV k v rest with
      | some r => some ((k', v') :: r)
      | none => none

/-- second loop of Put: insert before the first key with `key.Compare(other) < 0` -/
def insertBefore {V : Type} (lt : Key → Key → Bool) (k : Key) (v : V) : List (Key × V) → List (Key × V)
  | [] => [(k, v)]
  | (k', v') :: rest => if lt k k' then (k, v) :: (k', v') :: rest else (k', v') :: insertBefore lt k v rest

/-- Hashmap.Put; `lt a b` = `a.Compare(b) < 0` of the key family -/
def put {V : Type} (lt : Key → Key → Bool) (kvs : List (Key × V)) (k : Key) (v : V) : List (Key × V) :=
  match replaceKV k v kvs with
  | some r => r
  | none => insertBefore lt k v kvs

/-- Compare of UintN, BitsN (bytes.Compare) and AddressWithWorkchain (uint32 of the sign-extended workchain, then
bytes.Compare), expressed on the encoded key: unsigned big-endian order -/
def ltUnsigned (a b : Key) : Bool := Bits.bitsToNat a < Bits.bitsToNat b

/-- `bytes.Compare(a, b) < 0` (Compare of the BitsN key types, on the Go byte arrays) -/
def ltBytes : List UInt8 → List UInt8 → Bool
  | [], [] => false
  | [], _ :: _ => true
  | _ :: _, [] => false
  | a :: as, b :: bs => decide (a < b) || (a == b && ltBytes as bs)

/-- Compare of IntN: two's complement numeric order -/
def ltSigned (a b : Key) : Bool := Bits.bitsToInt a < Bits.bitsToInt b

/-- executable forms of the two comparisons for keys of one width (used by the driver; proved equal to `ltUnsigned` /
`ltSigned` in TongoProofs.C05: `ltUnsigned_eq_fast`, `ltSigned_eq_fast`): unsigned order is the bit order; signed
order puts a set sign bit first and otherwise compares the remaining bits -/
def ltUnsignedFast (a b : Key) : Bool := lexLt a b

def ltSignedFast : Key → Key → Bool
  | x :: as, y :: bs => if x == y then lexLt as bs else x
  | _, _ => false

/-- a dictionary built by successive Put from empty -/
def buildPut {V : Type} (lt : Key → Key → Bool) (ops : List (Key × V)) : List (Key × V) :=
  ops.foldl (fun d kv => put lt d kv.1 kv.2) []

/-! ## SPEC: valid TON `Hashmap n X` trees -/

/-- one edge label in one of the three TL-B forms -/
inductive Lbl where
  | short (s : Key)
  | long (s : Key)
  | same (b : Bool) (n : Nat)
  deriving Repr, DecidableEq, Inhabited

namespace Lbl
def bits : Lbl → Key
  | short s => s
  | long s => s
  | same b n => List.replicate n b

/-- serialisation of `HmLabel ~n m` -/
def enc (m : Nat) : Lbl → List Bool
  | short s => false :: (unary s.length ++ s)
  | long s => true :: false :: (Bits.natToBits (minBitsRequired m) s.length ++ s)
  | same b n => true :: true :: b :: Bits.natToBits (minBitsRequired m) n
end Lbl

/-- hm_edge / hmn_leaf / hmn_fork -/
inductive HTree (V : Type) where
  | leaf (l : Lbl) (v : V)
  | fork (l : Lbl) (lo hi : HTree V)

namespace HTree
variable {V : Type}

/-- `Valid m t`: t is a `Hashmap m X`: label length ≤ m on every edge, a leaf exactly when the label exhausts the key -/
def Valid : Nat → HTree V → Prop
  | m, leaf l _ => l.bits.length = m
  | m, fork l lo hi => l.bits.length < m ∧ Valid (m - l.bits.length - 1) lo ∧ Valid (m - l.bits.length - 1) hi

/-- the key→value mapping represented by the tree, listed left to right -/
def meaning : HTree V → List (Key × V)
  | leaf l v => [(l.bits, v)]
  | fork l lo hi =>
    (meaning lo).map (fun kv => (l.bits ++ false :: kv.1, kv.2)) ++
    (meaning hi).map (fun kv => (l.bits ++ true :: kv.1, kv.2))

/-- the cell tree of `t`; `pay v` = serialised value (bits, refs) -/
def toCell (pay : V → List Bool × List Cell) : Nat → HTree V → Cell
  | m, leaf l v => Cell.ordinary (l.enc m ++ (pay v).1) (pay v).2
  | m, fork l lo hi =>
    Cell.ordinary (l.enc m) [toCell pay (m - l.bits.length - 1) lo, toCell pay (m - l.bits.length - 1) hi]

end HTree

/-! ## The typed layer: Go key values and the two parallel slices -/

/-- tlb.UintN.MarshalTLB = WriteUint(uint64(u), n): the low `n` bits, silently (a value outside 0..2^n−1 is truncated) -/
def encUintKey (n : Nat) (v : Nat) : Outcome Key := .ok (Bits.natToBits n v)

/-- tlb.IntN.MarshalTLB = WriteInt(int64(u), n): width 1 accepts only 0 and −1 (else an error); width ≥ 2 writes the
sign bit and the low n−1 bits of the value (two's complement of the magnitude for negatives) — values outside
−2^(n−1)..2^(n−1)−1 are truncated silently -/
def encIntKey (n : Nat) (v : Int) : Outcome Key :=
  if n = 0 then .err "integer can't be zero size"
  else if n = 1 then
    (if v = -1 then .ok [true] else if v = 0 then .ok [false] else .err "bit length is too small")
  else .ok (decide (v < 0) :: Bits.natToBits (n - 1) (v % (2 ^ (n - 1) : Int)).toNat)

/-- Hashmap.MarshalTLB on the two slices as Go keeps them (`NewHashmap` may be given slices of different lengths):
fewer values than keys is an error, surplus values are ignored, no values writes nothing -/
def marshalSlices {V : Type} (C : Codec V) (keySize : Nat) (keys : List Key) (values : List V) : Outcome Cell :=
  if values.length < keys.length then .err "hashmap has more keys than values"
  else if values.isEmpty then .ok (Cell.ordinary [] [])
  else encodeMap C (maxKeyLen (keys.zip values) + 1) (sortKV (keys.zip values)) keySize

/-- HashmapE.MarshalTLB on the two slices: `Exists` is decided by the keys -/
def marshalSlicesE {V : Type} (C : Codec V) (keySize : Nat) (keys : List Key) (values : List V) : Outcome Cell :=
  if keys.isEmpty then .ok (Cell.ordinary [false] [])
  else match marshalSlices C keySize keys values with
    | .ok r => .ok (Cell.ordinary [true] [r])
    | e => e

/-- Items() on the two slices: `h.values[i]` for every key index — an index panic when values are missing -/
def itemsSlices {V : Type} (keys : List Key) (values : List V) : Outcome (List (Key × V)) :=
  if values.length < keys.length then .panic "index out of range" else .ok (keys.zip values)

/-! ## SPEC: dictionaries inside Merkle proofs — some subtrees replaced by pruned-branch cells -/

/-- a `Hashmap n X` tree in which any subtree may be a pruned-branch cell (arbitrary mask / data / refs) -/
inductive PTree (V : Type) where
  | leaf (l : Lbl) (v : V)
  | fork (l : Lbl) (lo hi : PTree V)
  | pruned (mask : Nat) (bits : List Bool) (refs : List Cell)

namespace PTree
variable {V : Type}

def Valid : Nat → PTree V → Prop
  | m, leaf l _ => l.bits.length = m
  | m, fork l lo hi => l.bits.length < m ∧ Valid (m - l.bits.length - 1) lo ∧ Valid (m - l.bits.length - 1) hi
  | _, pruned _ _ _ => True

/-- the pairs of the un-pruned part, left to right -/
def meaning : PTree V → List (Key × V)
  | leaf l v => [(l.bits, v)]
  | fork l lo hi =>
    (meaning lo).map (fun kv => (l.bits ++ false :: kv.1, kv.2)) ++
    (meaning hi).map (fun kv => (l.bits ++ true :: kv.1, kv.2))
  | pruned _ _ _ => []

def toCell (pay : V → List Bool × List Cell) : Nat → PTree V → Cell
  | m, leaf l v => Cell.ordinary (l.enc m ++ (pay v).1) (pay v).2
  | m, fork l lo hi =>
    Cell.ordinary (l.enc m) [toCell pay (m - l.bits.length - 1) lo, toCell pay (m - l.bits.length - 1) hi]
  | _, pruned mask bits refs => Cell.mk tyPruned mask bits refs

/-- `Prunes p t`: `p` is `t` with some subtrees replaced by pruned-branch cells -/
inductive Prunes : PTree V → HTree V → Prop where
  | leaf (l : Lbl) (v : V) : Prunes (.leaf l v) (.leaf l v)
  | fork (l : Lbl) {plo phi : PTree V} {lo hi : HTree V} : Prunes plo lo → Prunes phi hi →
      Prunes (.fork l plo phi) (.fork l lo hi)
  | pruned (mask : Nat) (bits : List Bool) (refs : List Cell) (t : HTree V) : Prunes (.pruned mask bits refs) t

/-- the path of key `k` is not pruned: walking down along `k` never enters a pruned-branch cell (a key that leaves
the tree at a label mismatch is covered: its absence is revealed) -/
def covers : PTree V → Key → Bool
  | leaf _ _, _ => true
  | pruned _ _ _, _ => false
  | fork l lo hi, k =>
    if k.take l.bits.length == l.bits then
      match k.drop l.bits.length with
      | false :: r => covers lo r
      | true :: r => covers hi r
      | [] => true
    else true

end PTree

end Tongo.Hashmap
