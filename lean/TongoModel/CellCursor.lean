import TongoModel.Cell
import TongoModel.BitOps
/-! Cells WITH read cursors, for the clause "the hash does not depend on what has already been read from the cell"
(C02). A Go `*boc.Cell` carries a `BitString` with a read cursor and a reference cursor; `newImmutableCell` reads
`bits.buf` up to `bits.len` and the reference slots, never the cursors. `RCell` keeps agent bits' byte-level
`BitString` (buffer, length, capacity, read cursor) and the reference cursor at every node; `content` is the cell the
hashing model sees. Reads are the read-only operations of TongoModel/BitOps.lean (the model of boc/bitString.go proved
against the ideal bit list in C06) applied to the bit string of any node, plus `NextRef`/`ResetCounters` moving the
reference cursor. -/
namespace Tongo.Cursor
open Tongo

inductive RCell where
  | mk (ty mask : Nat) (bits : BitString) (refs : List RCell) (refCursor : Nat)

mutual
/-- what hashing sees: the bits `buf[0 .. len)` (`abs`), no cursors -/
def content : RCell → Cell
  | .mk ty mask bits refs _ => .mk ty mask (BitString.abs bits) (contentL refs)
def contentL : List RCell → List Cell
  | [] => []
  | c :: cs => content c :: contentL cs
end

/-- the operations that only read (everything callable on a cell that does not write data) -/
def isRead : Op → Bool
  | .readBit | .skip _ | .readUint _ | .pickUint _ | .readInt _ | .readByte | .readBytes _ | .readBits _
  | .readRemainingBits | .readBigUint _ | .readBigInt _ | .readUnary | .readLimUint _ | .resetCounter => true
  | _ => false

/-- one read somewhere in the tree: a read-only bit-string operation on the node's data, any change of the node's
reference cursor (`NextRef`, `ResetCounters`), or a read inside the `i`-th child -/
inductive ReadStep : RCell → RCell → Prop where
  | bits (ty mask : Nat) (s : BitString) (refs : List RCell) (rc : Nat) (op : Op) :
      isRead op = true → op.WF → BitString.Inv s →
      ReadStep (.mk ty mask s refs rc) (.mk ty mask (op.run s).2 refs rc)
  | refCursor (ty mask : Nat) (s : BitString) (refs : List RCell) (rc rc' : Nat) :
      ReadStep (.mk ty mask s refs rc) (.mk ty mask s refs rc')
  | child (ty mask : Nat) (s : BitString) (pre post : List RCell) (c c' : RCell) (rc : Nat) :
      ReadStep c c' → ReadStep (.mk ty mask s (pre ++ c :: post) rc) (.mk ty mask s (pre ++ c' :: post) rc)

/-- any number of reads -/
inductive Reads : RCell → RCell → Prop where
  | refl (c : RCell) : Reads c c
  | step {a b c : RCell} : ReadStep a b → Reads b c → Reads a c

end Tongo.Cursor
