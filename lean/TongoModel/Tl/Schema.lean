/-! TL schemas (the subset used by `liteclient/lite_api.tl` and accepted by `tl/parser`): declarations
`ctor#id name:[flag.N?]type … = Result;`, a types section and a functions section.

Type references follow the TL convention: a name whose last dotted component starts with a lower-case letter names a
*constructor* and is **bare** (fields only), a name whose last component starts with an upper-case letter names a
*type* and is **boxed** (32-bit constructor id, then the fields of that constructor). -/
namespace Tongo.Tl

/-- type expressions -/
inductive Ty where
  | nat                      -- `#`   : 32-bit little-endian, usable as flag field
  | int                      -- `int` : 32-bit little-endian
  | long                     -- `long`: 64-bit little-endian
  | int256                   -- 32 raw bytes
  | bytes                    -- length-prefixed, zero padded
  | string                   -- same layout as bytes
  | bool                     -- `Bool`: boolTrue#997275b5 / boolFalse#bc799737
  | tru                      -- `true`: the constructor without fields (no bytes)
  | bare (ctor : String)     -- lower-case reference: the fields of that constructor
  | boxed (type : String)    -- upper-case reference: constructor id + fields
  | vector (item : Ty)       -- `(vector T)`: 32-bit count + items
  deriving DecidableEq, Repr, Inhabited

structure Field where
  name : String
  /-- `flag.N?` : present iff bit `N` of the earlier `#` field `flag` is set -/
  cond : Option (String × Nat)
  ty : Ty
  deriving DecidableEq, Repr, Inhabited

structure Decl where
  ctor : String
  id : Nat
  fields : List Field
  result : String
  deriving DecidableEq, Repr, Inhabited

structure Schema where
  types : List Decl
  funcs : List Decl
  deriving DecidableEq, Repr, Inhabited

namespace Schema

/-- the declaration of constructor `c` (bare reference) -/
def ctor? (S : Schema) (c : String) : Option Decl := S.types.find? (fun d => d.ctor == c)

/-- all constructors of type `t`, in schema order -/
def ctorsOf (S : Schema) (t : String) : List Decl := S.types.filter (fun d => d.result == t)

/-- constructor `c` of type `t` -/
def ctorOf? (S : Schema) (t c : String) : Option Decl := S.types.find? (fun d => d.result == t && d.ctor == c)

/-- the constructor of type `t` carrying id `id` (dispatch when decoding a boxed value) -/
def byId? (S : Schema) (t : String) (id : Nat) : Option Decl := S.types.find? (fun d => d.result == t && d.id == id)

def func? (S : Schema) (f : String) : Option Decl := S.funcs.find? (fun d => d.ctor == f)

def funcById? (S : Schema) (id : Nat) : Option Decl := S.funcs.find? (fun d => d.id == id)

end Schema

/-! ### Well-formedness (decidable; `wf_liteapi` is the regenerated obligation `wfSchemaB liteApi = true`) -/

/-- two declarations of the same type never share an id -/
def idClash (a b : Decl) : Bool := a.result == b.result && a.id == b.id

/-- pairwise: no id clash inside a type (Bool version of `List.Pairwise`) -/
def noClashB : List Decl → Bool
  | [] => true
  | d :: ds => ds.all (fun e => !idClash d e) && noClashB ds

def funcIdsDistinctB : List Decl → Bool
  | [] => true
  | d :: ds => ds.all (fun e => !(d.id == e.id)) && funcIdsDistinctB ds

def tyDeclaredB (S : Schema) : Ty → Bool
  | .bare c => (S.ctor? c).isSome
  | .boxed t => !(S.ctorsOf t).isEmpty
  | .vector t => tyDeclaredB S t
  | _ => true

/-- a conditional field names an earlier unconditional `#` field and a bit 0..31 -/
def condOkB (earlier : List Field) (f : Field) : Bool :=
  match f.cond with
  | none => true
  | some (flag, bit) => bit < 32 && earlier.any (fun g => g.name == flag && g.ty == .nat && g.cond.isNone)

def fieldsOkB (S : Schema) : List Field → List Field → Bool
  | _, [] => true
  | earlier, f :: fs => condOkB earlier f && tyDeclaredB S f.ty && fieldsOkB S (earlier ++ [f]) fs

def declOkB (S : Schema) (d : Decl) : Bool := d.id < 2 ^ 32 && fieldsOkB S [] d.fields

def wfSchemaB (S : Schema) : Bool :=
  noClashB S.types && funcIdsDistinctB S.funcs
    && S.types.all (declOkB S) && S.funcs.all (declOkB S)
    && S.funcs.all (fun f => !(S.ctorsOf f.result).isEmpty)

def WFSchema (S : Schema) : Prop := wfSchemaB S = true

instance (S : Schema) : Decidable (WFSchema S) := inferInstanceAs (Decidable (_ = true))

end Tongo.Tl
