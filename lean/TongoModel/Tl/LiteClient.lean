import TongoModel.Tl.Codec
import TongoModel.Tl.Parser
/-! The lite-client layer on top of the schema semantics: the request envelope
`adnl.message.query(query_id, bytes(liteServer.query(bytes(request))))`, the treatment of answers by the generated
`(*Client).LiteServer*` methods, the request decoder table, and the hand-written TL codecs. -/
namespace Tongo.Tl

open Tongo (Outcome)

/-- `liteServer.query#798c06df data:bytes = Object` and `adnl.message.query#b48bf97a query_id:int256 query:bytes =
adnl.Message` (liteclient/client.go: magicLiteServerQuery, magicADNLQuery) -/
def liteServerQueryDecl : Decl :=
  { ctor := "liteServer.query", id := 0x798c06df, fields := [{ name := "data", cond := none, ty := .bytes }],
    result := "Object" }

def adnlQueryDecl : Decl :=
  { ctor := "adnl.message.query", id := 0xb48bf97a,
    fields := [{ name := "query_id", cond := none, ty := .int256 }, { name := "query", cond := none, ty := .bytes }],
    result := "adnl.Message" }

def adnlAnswerDecl : Decl :=
  { ctor := "adnl.message.answer", id := 0x0fac8416,
    fields := [{ name := "query_id", cond := none, ty := .int256 }, { name := "answer", cond := none, ty := .bytes }],
    result := "adnl.Message" }

/-- the declarations the transport layer relies on; `Object` does not occur in lite_api.tl -/
def envelopeSchema : Schema := { types := [adnlQueryDecl, adnlAnswerDecl, liteServerQueryDecl], funcs := [] }

/-- what `(*Client).liteServerRequest` + `(*Client).Request` put on the wire for request bytes `req` under query id
`qid` (32 bytes) -/
def envelope (qid req : Bytes) : Bytes :=
  le 4 adnlQueryDecl.id ++ qid ++ encBytes (le 4 liteServerQueryDecl.id ++ encBytes req)

/-- outcome of a generated client method -/
inductive Answer where
  | result (v : Val)              -- the decoded result (boxed value of the function's result type)
  | serverError (fields : List Val)   -- a `liteServer.error` answer, returned to the caller as a Go error value
  deriving Repr, Inhabited

def errorCtor : String := "liteServer.error"

/-- generated `(*Client).F`: fewer than four bytes → error; id of `liteServer.error` → that error; result type with one
constructor: its id, then its fields (anything else: "invalid tag"); result type with several constructors: a boxed
value. Unread trailing bytes are ignored, as in the generated code. -/
def decodeAnswer (S : Schema) (fuel : Nat) (f : String) (resp : Bytes) : Outcome Answer :=
  match S.func? f, S.ctor? errorCtor with
  | some d, some e =>
    match readLE 4 resp with
    | .ok (tag, r) =>
      if tag = e.id then
        match decodeFields S fuel e.fields [] r with
        | .ok (vs, _) => .ok (.serverError vs)
        | .err x => .err x
        | .panic p => .panic p
      else
        match S.ctorsOf d.result with
        | [c] =>
          if tag = c.id then
            match decodeFields S fuel c.fields [] r with
            | .ok (vs, _) => .ok (.result (.sum c.ctor vs))
            | .err x => .err x
            | .panic p => .panic p
          else .err "invalid tag"
        | _ =>
          match decode S (fuel + 1) (.boxed d.result) resp with
          | .ok (v, _) => .ok (.result v)
          | .err x => .err x
          | .panic p => .panic p
    | .err x => .err x
    | .panic p => .panic p
  | _, _ => .err "undeclared"

/-- `LiteapiRequestDecoder`: the id selects the function, its parameters are decoded; any ERROR yields "Unknown" -/
def requestDecoder (S : Schema) (fuel : Nat) (bs : Bytes) : Outcome (Nat × Option (String × List Val)) :=
  match readLE 4 bs with
  | .ok (tag, _) =>
    match decodeRequest S fuel bs with
    | .ok (name, vs, _) => .ok (tag, some (name, vs))
    | .err _ => .ok (tag, none)               -- Go: any error of the selected decoder, or no decoder → UnknownRequest
    | .panic p => .panic p                    -- a panic (in the model: fuel exhaustion) is NOT turned into "Unknown"
  | .err x => .err x
  | .panic p => .panic p

/-! ### hand-written request builders of liteclient/client.go: `WaitMasterchainSeqno`, `WaitMasterchainBlock` -/

/-- `liteServer.waitMasterchainSeqno#baeab892 seqno:int timeout_ms:int = Object; // query prefix` — present in
lite_api.tl only as a COMMENT (line 114: the repository's TL parser has no prefix queries); client.go spells the id as
`magicLiteServerWaitMasterchainSeqno` -/
def waitSeqnoDecl : Decl :=
  { ctor := "liteServer.waitMasterchainSeqno", id := 0xbaeab892,
    fields := [{ name := "seqno", cond := none, ty := .int }, { name := "timeout_ms", cond := none, ty := .int }],
    result := "Object" }

def waitSchema : Schema := { types := [waitSeqnoDecl], funcs := [] }

/-- the query prefix: the boxed encoding of `liteServer.waitMasterchainSeqno(seqno, timeout)` under its declaration -/
def waitPrefix (seqno timeout : Nat) : Option Bytes :=
  encode waitSchema (.boxed "Object") (.sum "liteServer.waitMasterchainSeqno" [.num seqno, .num timeout])

/-- `(*Client).WaitMasterchainSeqno`: the prefix ALONE is the request -/
def waitSeqnoRequest (seqno timeout : Nat) : Option Bytes := waitPrefix seqno timeout

/-- the parameters `WaitMasterchainBlock` passes to `liteServer.lookupBlock`: mode 1, masterchain (-1 as `int`), the
whole shard, the awaited seqno; no lt, no utime -/
def waitBlockParams (seqno : Nat) : List Val :=
  [.num 1, .tuple [.num 0xffffffff, .num 0x8000000000000000, .num seqno], .absent, .absent]

/-- a value with holes for the awaited seqno (the shape of a struct literal that mentions the parameter `seqno`) -/
inductive TV where
  | lit (v : Val)
  | seqno
  | tuple (l : List TV)
  deriving Repr, Inhabited

mutual
def TV.inst (q : Nat) : TV → Val
  | .lit v => v
  | .seqno => .num q
  | .tuple l => .tuple (TV.instL q l)
def TV.instL (q : Nat) : List TV → List Val
  | [] => []
  | t :: ts => TV.inst q t :: TV.instL q ts
end

/-- equality of the literals that occur in such struct literals -/
def litEq : Val → Val → Bool
  | .num a, .num b => a == b
  | .absent, .absent => true
  | _, _ => false

mutual
def TV.beq : TV → TV → Bool
  | .lit a, .lit b => litEq a b
  | .seqno, .seqno => true
  | .tuple a, .tuple b => TV.beqL a b
  | _, _ => false
def TV.beqL : List TV → List TV → Bool
  | [], [] => true
  | a :: as, b :: bs => TV.beq a b && TV.beqL as bs
  | _, _ => false
end

/-- `waitBlockParams` as a template -/
def waitBlockParamsT : List TV :=
  [.lit (.num 1), .tuple [.lit (.num 0xffffffff), .lit (.num 0x8000000000000000), .seqno], .lit .absent, .lit .absent]

/-- `(*Client).WaitMasterchainBlock`: the prefix, then the request `liteServer.lookupBlock` of the schema -/
def waitBlockRequest (S : Schema) (seqno timeout : Nat) : Option Bytes :=
  match waitPrefix seqno timeout, encodeRequest S "liteServer.lookupBlock" (waitBlockParams seqno) with
  | some p, some r => some (p ++ r)
  | _, _ => none

/-- what `WaitMasterchainSeqno` makes of the answer: only a `liteServer.error` is accepted; code 0 means "done"
(`none`), any other code is returned as that error -/
def waitSeqnoAnswer (S : Schema) (fuel : Nat) (resp : Bytes) : Outcome (Option (List Val)) :=
  match S.ctor? errorCtor with
  | some e =>
    match readLE 4 resp with
    | .ok (tag, r) =>
      if tag = e.id then
        match decodeFields S fuel e.fields [] r with
        | .ok (vs, _) =>
          match vs with
          | .num 0 :: _ => .ok none
          | _ => .ok (some vs)
        | .err x => .err x
        | .panic p => .panic p
      else .err "invalid tag"
    | .err x => .err x
    | .panic p => .panic p
  | none => .err "undeclared"

/-! ### hand-written codecs (ton/account.go, ton/block.go, tl/basic_types.go) -/

/-- `ton.AccountID.MarshalTL`: 4 bytes workchain (two's complement, little-endian) + 32 bytes address -/
def accountIdTL (workchain : Nat) (addr : Bytes) : Bytes := le 4 workchain ++ addr

/-- `ton.BlockIDExt.MarshalTL` -/
def blockIdExtTL (workchain shard seqno : Nat) (root file : Bytes) : Bytes :=
  le 4 workchain ++ le 8 shard ++ le 4 seqno ++ root ++ file

/-- `(*ton.AccountID).UnmarshalTL(r io.Reader)`: `io.ReadFull` of 4 bytes (workchain), then of 32 bytes (address) -/
def accountIdUnTL (bs : Bytes) : Outcome ((Nat × Bytes) × Bytes) :=
  match readLE 4 bs with
  | .ok (wc, r) =>
    match readN 32 r with
    | .ok (a, r') => .ok ((wc, a), r')
    | .err e => .err e
    | .panic p => .panic p
  | .err e => .err e
  | .panic p => .panic p

/-- `(*ton.BlockIDExt).UnmarshalTL(data []byte)`: exactly 80 bytes or "invalid data length", then the five slices -/
def blockIdExtUnTL (data : Bytes) : Outcome (Nat × Nat × Nat × Bytes × Bytes) :=
  if data.length ≠ 80 then .err "invalid data length"
  else .ok (unLe (data.take 4), unLe ((data.drop 4).take 8), unLe ((data.drop 12).take 4),
            (data.drop 16).take 32, (data.drop 48).take 32)

/-- `(*tl.Int256).UnmarshalTL(r io.Reader)`: `io.ReadFull` of 32 bytes -/
def int256UnTL (bs : Bytes) : Outcome (Bytes × Bytes) := readN 32 bs

def accountIdDecl : Decl :=
  { ctor := "liteServer.accountId", id := 0x75a0e2c5,
    fields := [{ name := "workchain", cond := none, ty := .int }, { name := "id", cond := none, ty := .int256 }],
    result := "liteServer.AccountId" }

def blockIdExtDecl : Decl :=
  { ctor := "tonNode.blockIdExt", id := 0x6752eb78,
    fields := [{ name := "workchain", cond := none, ty := .int }, { name := "shard", cond := none, ty := .long },
               { name := "seqno", cond := none, ty := .int }, { name := "root_hash", cond := none, ty := .int256 },
               { name := "file_hash", cond := none, ty := .int256 }],
    result := "tonNode.BlockIdExt" }

/-- declarations of lite_api.tl whose spelled id is NOT the CRC-32 of their text (mirrored in props/C10.py): three
ids computed with the parentheses of `(vector …)` kept (known findings) and one id pinned upstream after the declaration
changed. They are outside C10's statement, which speaks of the id given in the schema line. -/
def crcExceptions : List String :=
  ["liteServer.libraryResultWithProof", "liteServer.lookupBlockResult", "liteServer.getLibrariesWithProof",
   "liteServer.getValidatorStats"]

def crcExceptionCodes : List (List Nat) := crcExceptions.map (fun s => s.toList.map Char.toNat)

end Tongo.Tl
