import TongoModel.Tl.Parser
/-! A kernel-friendly mirror of `Decl`: names are lists of character codes (`Nat`), so that rendering a declaration and
hashing it are plain `Nat`/`List` computations the Lean kernel evaluates quickly (strings are byte arrays in Lean 4 and
`String.toList` is slow to reduce). Translator X3 emits the schema in this form; `DeclC.toDecl` gives the readable
`Decl` all theorems are stated about, and `TongoProofs/Lemmas/TlCompact.lean` proves that rendering / hashing the
compact form IS rendering / hashing the `Decl` it denotes. -/
namespace Tongo.Tl

abbrev Codes := List Nat

def strOf (l : Codes) : String := String.ofList (l.map Char.ofNat)

inductive TyC where
  | nat | int | long | int256 | bytes | string | bool | tru
  | bare (c : Codes) | boxed (t : Codes) | vector (item : TyC)
  deriving DecidableEq, Repr, Inhabited

structure FieldC where
  name : Codes
  cond : Option (Codes × Nat)
  ty : TyC
  deriving DecidableEq, Repr, Inhabited

structure DeclC where
  ctor : Codes
  id : Nat
  fields : List FieldC
  result : Codes
  deriving DecidableEq, Repr, Inhabited

def TyC.toTy : TyC → Ty
  | .nat => .nat | .int => .int | .long => .long | .int256 => .int256 | .bytes => .bytes | .string => .string
  | .bool => .bool | .tru => .tru
  | .bare c => .bare (strOf c) | .boxed t => .boxed (strOf t) | .vector t => .vector t.toTy

def FieldC.toField (f : FieldC) : Field :=
  { name := strOf f.name, cond := f.cond.map (fun p => (strOf p.1, p.2)), ty := f.ty.toTy }

def DeclC.toDecl (d : DeclC) : Decl :=
  { ctor := strOf d.ctor, id := d.id, fields := d.fields.map FieldC.toField, result := strOf d.result }

/-! ### rendering over codes (the same text as `renderDecl` / `crcText`) -/

def hexDigitC (n : Nat) : Nat := if n < 10 then 48 + n else 87 + n

def hex8C (n : Nat) : Codes :=
  [hexDigitC (n / 0x10000000 % 16), hexDigitC (n / 0x1000000 % 16), hexDigitC (n / 0x100000 % 16),
   hexDigitC (n / 0x10000 % 16), hexDigitC (n / 0x1000 % 16), hexDigitC (n / 0x100 % 16), hexDigitC (n / 0x10 % 16),
   hexDigitC (n % 16)]

/-- decimal of a bit number below 100 -/
def dec2C (n : Nat) : Codes := if n < 10 then [48 + n] else [48 + n / 10, 48 + n % 10]

def renderTyC (parens : Bool) : TyC → Codes
  | .nat => [35] | .int => [105, 110, 116] | .long => [108, 111, 110, 103]
  | .int256 => [105, 110, 116, 50, 53, 54] | .bytes => [98, 121, 116, 101, 115]
  | .string => [115, 116, 114, 105, 110, 103] | .bool => [66, 111, 111, 108] | .tru => [116, 114, 117, 101]
  | .bare c => c | .boxed t => t
  | .vector t =>
    if parens then 40 :: [118, 101, 99, 116, 111, 114, 32] ++ renderTyC parens t ++ [41]
    else [118, 101, 99, 116, 111, 114, 32] ++ renderTyC parens t

def renderFieldC (parens : Bool) (f : FieldC) : Codes :=
  f.name ++ [58] ++
    (match f.cond with
     | some (flag, bit) => flag ++ [46] ++ dec2C bit ++ [63]
     | none => []) ++ renderTyC parens f.ty

def renderFieldsC (parens : Bool) (fs : List FieldC) : Codes :=
  fs.flatMap (fun f => renderFieldC parens f ++ [32])

/-- codes of `ctor#id f:t … = Result;\n` -/
def renderDeclC (d : DeclC) : Codes :=
  d.ctor ++ [35] ++ hex8C d.id ++ [32] ++ renderFieldsC true d.fields ++ [61, 32] ++ d.result ++ [59, 10]

/-- codes of the text hashed for the constructor id -/
def crcTextC (d : DeclC) : Codes :=
  d.ctor ++ [32] ++ renderFieldsC false d.fields ++ [61, 32] ++ d.result

/-- CRC-32 of the declaration text, table driven -/
def crcOfC (d : DeclC) : Nat := Tongo.Crc.crc32T (crcTextC d)

/-! ### validity: printable ASCII names, bit numbers below 100 -/

def codesOk (l : Codes) : Bool := l.all (· < 128)

def TyC.ok : TyC → Bool
  | .bare c => codesOk c | .boxed t => codesOk t | .vector t => t.ok | _ => true

def FieldC.ok (f : FieldC) : Bool :=
  codesOk f.name && f.ty.ok && (match f.cond with | some (flag, bit) => codesOk flag && bit < 100 | none => true)

def DeclC.ok (d : DeclC) : Bool := codesOk d.ctor && codesOk d.result && d.fields.all FieldC.ok

end Tongo.Tl
