import TongoModel.Tl.Schema
import TongoModel.Outcome
/-! Schema-level semantics of TL serialisation: `Tl.encode S t v` and `Tl.decode S fuel t bs`.

* `# int` : 4 bytes little-endian; `long` : 8 bytes little-endian; `int256` : 32 raw bytes;
* `bytes string` : length (one byte `< 254`, or `0xFE` + 3 bytes little-endian), the data, zero padding so that the
  whole field is a multiple of 4 bytes;
* `Bool` : the id of `boolTrue#997275b5` / `boolFalse#bc799737`, little-endian; `true` : no bytes;
* `(vector T)` : 32-bit count, then the items;
* bare reference : the fields in order; boxed reference : constructor id (little-endian) then the fields;
* field `name:flag.N?T` : present iff bit `N` of the earlier `#` field `flag` is set;
* request of function `f` : id of `f`, then its parameters.

`encode` is total on values (`none` = the value does not have that type / is not representable, e.g. a byte string of
2^24 bytes or more). `decode` carries a fuel bounding the nesting depth of named types (schemas may be recursive through
vectors); running out of fuel is reported as its own outcome and never confused with a decoding error. -/
namespace Tongo.Tl

/-- values (untyped; `encode S t v = some _` plays the role of the typing judgement `v : t`) -/
inductive Val where
  | num (n : Nat)                         -- `# int long`
  | raw (bs : List UInt8)                 -- `int256 bytes string`
  | bool (b : Bool)
  | unit                                  -- `true`
  | absent                                -- conditional field whose flag bit is clear
  | tuple (fields : List Val)             -- bare constructor
  | sum (ctor : String) (fields : List Val)   -- boxed: constructor name + fields
  | vec (items : List Val)
  deriving Repr, Inhabited

abbrev Bytes := List UInt8

/-- `w` bytes little-endian -/
def le : Nat → Nat → Bytes
  | 0, _ => []
  | w + 1, n => UInt8.ofNat (n % 256) :: le w (n / 256)

/-- little-endian value of a byte list -/
def unLe : Bytes → Nat
  | [] => 0
  | b :: bs => b.toNat + 256 * unLe bs

def boolTrueId : Nat := 0x997275b5
def boolFalseId : Nat := 0xbc799737

/-- length prefix of a byte string -/
def encLen (n : Nat) : Bytes := if n < 254 then [UInt8.ofNat n] else 254 :: le 3 n

/-- number of zero bytes that complete `n` bytes to a multiple of 4 -/
def padLen (n : Nat) : Nat := (4 - n % 4) % 4

def encBytes (bs : Bytes) : Bytes :=
  encLen bs.length ++ bs ++ List.replicate (padLen ((encLen bs.length).length + bs.length)) 0

/-- flag environment: the `#` fields seen so far in the current constructor (latest first) -/
abbrev Env := List (String × Nat)

def envGet? (env : Env) (name : String) : Option Nat := (env.find? (fun p => p.1 == name)).map (·.2)

/-- is the conditional field present? `none` = the flag field is unknown (ill-formed schema) -/
def present? (env : Env) : Option (String × Nat) → Option Bool
  | none => some true
  | some (flag, bit) => (envGet? env flag).map (fun m => m.testBit bit)

/-- environment after an unconditional field -/
def pushEnv (env : Env) (f : Field) (v : Val) : Env :=
  match f.ty, f.cond, v with
  | .nat, none, .num n => (f.name, n) :: env
  | _, _, _ => env

mutual
/-- `encode S t v`: the bytes of value `v` at type `t` -/
def encode (S : Schema) : Ty → Val → Option Bytes
  | .nat, .num n => if n < 2 ^ 32 then some (le 4 n) else none
  | .int, .num n => if n < 2 ^ 32 then some (le 4 n) else none
  | .long, .num n => if n < 2 ^ 64 then some (le 8 n) else none
  | .int256, .raw bs => if bs.length = 32 then some bs else none
  | .bytes, .raw bs => if bs.length < 2 ^ 24 then some (encBytes bs) else none
  | .string, .raw bs => if bs.length < 2 ^ 24 then some (encBytes bs) else none
  | .bool, .bool b => some (le 4 (if b then boolTrueId else boolFalseId))
  | .tru, .unit => some []
  | .bare c, .tuple fs =>
    match S.ctor? c with
    | some d => encodeFields S d.fields [] fs
    | none => none
  | .boxed t, .sum c fs =>
    match S.ctorOf? t c with
    | some d => (encodeFields S d.fields [] fs).map (le 4 d.id ++ ·)
    | none => none
  | .vector t, .vec items =>
    if items.length < 2 ^ 32 then (encodeItems S t items).map (le 4 items.length ++ ·) else none
  | _, _ => none

/-- the fields of one constructor, left to right, under the flags seen so far -/
def encodeFields (S : Schema) : List Field → Env → List Val → Option Bytes
  | [], _, [] => some []
  | f :: fs, env, v :: vs =>
    match present? env f.cond with
    | none => none
    | some false =>
      match v with
      | .absent => encodeFields S fs env vs
      | _ => none
    | some true =>
      match encode S f.ty v with
      | none => none
      | some b => (encodeFields S fs (pushEnv env f v) vs).map (b ++ ·)
  | _, _, _ => none

def encodeItems (S : Schema) (t : Ty) : List Val → Option Bytes
  | [] => some []
  | v :: vs =>
    match encode S t v with
    | none => none
    | some b => (encodeItems S t vs).map (b ++ ·)
end

/-! ### Typing: `v : t` under schema `S`, stated independently of the byte layout -/

mutual
/-- `hasType S t v`: ranges of the integers, lengths of `int256`/byte strings (`< 2^24`, the largest representable),
constructor declared, fields in declaration order with a conditional field present exactly when its flag bit is set -/
def hasType (S : Schema) : Ty → Val → Bool
  | .nat, .num n => n < 2 ^ 32
  | .int, .num n => n < 2 ^ 32
  | .long, .num n => n < 2 ^ 64
  | .int256, .raw bs => bs.length = 32
  | .bytes, .raw bs => bs.length < 2 ^ 24
  | .string, .raw bs => bs.length < 2 ^ 24
  | .bool, .bool _ => true
  | .tru, .unit => true
  | .bare c, .tuple fs =>
    match S.ctor? c with
    | some d => fieldsHaveType S d.fields [] fs
    | none => false
  | .boxed t, .sum c fs =>
    match S.ctorOf? t c with
    | some d => fieldsHaveType S d.fields [] fs
    | none => false
  | .vector t, .vec items => items.length < 2 ^ 32 && itemsHaveType S t items
  | _, _ => false

def fieldsHaveType (S : Schema) : List Field → Env → List Val → Bool
  | [], _, [] => true
  | f :: fs, env, v :: vs =>
    match present? env f.cond with
    | none => false
    | some false =>
      match v with
      | .absent => fieldsHaveType S fs env vs
      | _ => false
    | some true => hasType S f.ty v && fieldsHaveType S fs (pushEnv env f v) vs
  | _, _, _ => false

def itemsHaveType (S : Schema) (t : Ty) : List Val → Bool
  | [] => true
  | v :: vs => hasType S t v && itemsHaveType S t vs
end

/-- request bytes of function `f` applied to the parameter values `ps` -/
def encodeRequest (S : Schema) (f : String) (ps : List Val) : Option Bytes :=
  match S.func? f with
  | some d => (encodeFields S d.fields [] ps).map (le 4 d.id ++ ·)
  | none => none

/-! ### Decoding -/

open Tongo (Outcome)

/-- split off `n` bytes -/
def readN (n : Nat) (bs : Bytes) : Outcome (Bytes × Bytes) :=
  if n ≤ bs.length then .ok (bs.take n, bs.drop n) else .err "short"

/-- the same without walking the whole remaining input (`List.length`) at every read: used by the compiled driver,
proved equal below (`@[csimp]`) -/
def readNFast (n : Nat) (bs : Bytes) : Outcome (Bytes × Bytes) :=
  if n == 0 || !(bs.drop (n - 1)).isEmpty then .ok (bs.take n, bs.drop n) else .err "short"

@[csimp] theorem readN_eq_readNFast : @readN = @readNFast := by
  funext n bs
  unfold readN readNFast
  by_cases h0 : n = 0
  · subst h0; simp
  · have : (n ≤ bs.length) = (¬ (bs.drop (n - 1) = [])) := by
      rw [List.drop_eq_nil_iff]
      apply propext
      omega
    by_cases h : n ≤ bs.length
    · have h' : ¬ (bs.drop (n - 1) = []) := by rwa [← this]
      simp [h, h0, h']
    · have h' : bs.drop (n - 1) = [] := by
        rw [List.drop_eq_nil_iff]; omega
      simp [h, h0, h']

def readLE (w : Nat) (bs : Bytes) : Outcome (Nat × Bytes) :=
  match readN w bs with
  | .ok (a, r) => .ok (unLe a, r)
  | .err e => .err e
  | .panic p => .panic p

/-- a length-prefixed byte string with its padding (padding bytes are skipped, not inspected — as tl/decoder.go) -/
def readBytes (bs : Bytes) : Outcome (Bytes × Bytes) :=
  match bs with
  | [] => .err "short"
  | b :: r =>
    if b.toNat < 254 then
      match readN b.toNat r with
      | .ok (data, r') =>
        match readN (padLen (1 + b.toNat)) r' with
        | .ok (_, r'') => .ok (data, r'')
        | .err e => .err e
        | .panic p => .panic p
      | .err e => .err e
      | .panic p => .panic p
    else if b.toNat = 254 then
      match readLE 3 r with
      | .ok (n, r1) =>
        match readN n r1 with
        | .ok (data, r') =>
          match readN (padLen (4 + n)) r' with
          | .ok (_, r'') => .ok (data, r'')
          | .err e => .err e
          | .panic p => .panic p
        | .err e => .err e
        | .panic p => .panic p
      | .err e => .err e
      | .panic p => .panic p
    else .err "prefix"

def outOfFuel {α} : Outcome α := .panic "fuel"

mutual
/-- `decode S fuel t bs`: a value of type `t` from the front of `bs`, and the unread rest. `fuel` bounds the nesting
depth of type references. -/
def decode (S : Schema) : Nat → Ty → Bytes → Outcome (Val × Bytes)
  | 0, _, _ => outOfFuel
  | fuel + 1, t, bs =>
    match t with
    | .nat | .int =>
      match readLE 4 bs with
      | .ok (n, r) => .ok (.num n, r)
      | .err e => .err e
      | .panic p => .panic p
    | .long =>
      match readLE 8 bs with
      | .ok (n, r) => .ok (.num n, r)
      | .err e => .err e
      | .panic p => .panic p
    | .int256 =>
      match readN 32 bs with
      | .ok (a, r) => .ok (.raw a, r)
      | .err e => .err e
      | .panic p => .panic p
    | .bytes | .string =>
      match readBytes bs with
      | .ok (a, r) => .ok (.raw a, r)
      | .err e => .err e
      | .panic p => .panic p
    | .bool =>
      match readLE 4 bs with
      | .ok (n, r) =>
        if n = boolTrueId then .ok (.bool true, r)
        else if n = boolFalseId then .ok (.bool false, r)
        else .err "bool"
      | .err e => .err e
      | .panic p => .panic p
    | .tru => .ok (.unit, bs)
    | .bare c =>
      match S.ctor? c with
      | some d =>
        match decodeFields S fuel d.fields [] bs with
        | .ok (vs, r) => .ok (.tuple vs, r)
        | .err e => .err e
        | .panic p => .panic p
      | none => .err "undeclared"
    | .boxed t =>
      match readLE 4 bs with
      | .ok (id, r) =>
        match S.byId? t id with
        | some d =>
          match decodeFields S fuel d.fields [] r with
          | .ok (vs, r') => .ok (.sum d.ctor vs, r')
          | .err e => .err e
          | .panic p => .panic p
        | none => .err "tag"
      | .err e => .err e
      | .panic p => .panic p
    | .vector t =>
      match readLE 4 bs with
      | .ok (n, r) =>
        match decodeItems S fuel t n r with
        | .ok (vs, r') => .ok (.vec vs, r')
        | .err e => .err e
        | .panic p => .panic p
      | .err e => .err e
      | .panic p => .panic p
termination_by fuel => (fuel, 0)

def decodeFields (S : Schema) (fuel : Nat) : List Field → Env → Bytes → Outcome (List Val × Bytes)
  | [], _, bs => .ok ([], bs)
  | f :: fs, env, bs =>
    match present? env f.cond with
    | none => .err "flag"
    | some false =>
      match decodeFields S fuel fs env bs with
      | .ok (vs, r) => .ok (.absent :: vs, r)
      | .err e => .err e
      | .panic p => .panic p
    | some true =>
      match decode S fuel f.ty bs with
      | .ok (v, r) =>
        match decodeFields S fuel fs (pushEnv env f v) r with
        | .ok (vs, r') => .ok (v :: vs, r')
        | .err e => .err e
        | .panic p => .panic p
      | .err e => .err e
      | .panic p => .panic p
termination_by fs => (fuel, fs.length + 1)

def decodeItems (S : Schema) (fuel : Nat) (t : Ty) : Nat → Bytes → Outcome (List Val × Bytes)
  | 0, bs => .ok ([], bs)
  | n + 1, bs =>
    match decode S fuel t bs with
    | .ok (v, r) =>
      match decodeItems S fuel t n r with
      | .ok (vs, r') => .ok (v :: vs, r')
      | .err e => .err e
      | .panic p => .panic p
    | .err e => .err e
    | .panic p => .panic p
termination_by n => (fuel, n + 1)
end

mutual
/-- nesting depth of a value = fuel that decoding its encoding needs -/
def Val.depth : Val → Nat
  | .tuple fs => depthList fs + 1
  | .sum _ fs => depthList fs + 1
  | .vec items => depthList items + 1
  | _ => 1
def depthList : List Val → Nat
  | [] => 0
  | v :: vs => max v.depth (depthList vs)
end

/-- a request as the server sees it: function id, then the parameters; trailing bytes are left unread -/
def decodeRequest (S : Schema) (fuel : Nat) (bs : Bytes) : Outcome (String × List Val × Bytes) :=
  match readLE 4 bs with
  | .ok (id, r) =>
    match S.funcById? id with
    | some d =>
      match decodeFields S fuel d.fields [] r with
      | .ok (vs, r') => .ok (d.ctor, vs, r')
      | .err e => .err e
      | .panic p => .panic p
    | none => .err "tag"
  | .err e => .err e
  | .panic p => .panic p

end Tongo.Tl
