import TongoModel.Tl.BindingsMatch
import TongoModel.Tl.LiteClient
/-! The hand-written request builders of liteclient/client.go — `(*Client).WaitMasterchainSeqno`,
`(*Client).WaitMasterchainBlock` — as extracted by translator X7 (`tbWait`: both bodies are matched against the exact
statement sequence of the repository; the literals are the data), their semantics and the matcher against the schema. -/
namespace Tongo.Tl.Bind
open Tongo Tongo.Tl

structure WaitConsts where
  prefixId : Nat            -- const magicLiteServerWaitMasterchainSeqno
  seqnoErrorTag : Nat       -- `if tag == 0x…` of WaitMasterchainSeqno
  lookupRequest : String    -- type of the request struct literal
  lookupId : Nat            -- `tlSumType:"…"` of the anonymous wrapper struct
  errorTag : Nat            -- first `if tag == 0x…` of WaitMasterchainBlock
  resultTag : Nat           -- second one
  result : String           -- result type
  req : List TV             -- the request struct literal, fields in declaration order, unset pointers = absent
  deriving Repr, Inhabited

/-- `data := magic ‖ seqno ‖ timeout` (three `binary.LittleEndian.AppendUint32`) -/
def waitSeqnoGo (W : WaitConsts) (seqno timeout : Nat) : Bytes := le 4 W.prefixId ++ le 4 seqno ++ le 4 timeout

/-- WaitMasterchainBlock: the same prefix, then `tl.Marshal` of the wrapper struct: id literal, then the request struct -/
def waitBlockGo (B : Bindings) (W : WaitConsts) (fuel : Nat) (seqno timeout : Nat) : Option Bytes :=
  (marshalGo B fuel (.named W.lookupRequest) (.tuple (TV.instL seqno W.req))).map
    (fun b => waitSeqnoGo W seqno timeout ++ (le 4 W.lookupId ++ b))

/-- the answer handling of WaitMasterchainBlock is that of a generated client method -/
def WaitConsts.method (W : WaitConsts) : ClientMethod :=
  { name := "WaitMasterchainBlock", requestId := W.lookupId, request := some W.lookupRequest, errorTag := W.errorTag,
    result := W.result, resultTag := some W.resultTag }

/-- the literals against the schema: prefix id = the id of `liteServer.waitMasterchainSeqno`, both error tags = the id of
`liteServer.error`, the wrapper id / request type / result tag / result type = those of `liteServer.lookupBlock`, the
struct literal = `waitBlockParams` -/
def waitAgree (S : Schema) (W : WaitConsts) : Bool :=
  W.prefixId == waitSeqnoDecl.id && W.seqnoErrorTag == errorIdOf S && W.errorTag == errorIdOf S &&
  (match S.func? "liteServer.lookupBlock" with
   | some f =>
     W.lookupId == f.id && W.lookupRequest == camelGo f.ctor ++ "Request" &&
       (match S.ctorsOf f.result with
        | [c] => W.resultTag == c.id && W.result == camelGo c.ctor ++ "C"
        | _ => false)
   | none => false) &&
  TV.beqL W.req waitBlockParamsT

end Tongo.Tl.Bind
