import TongoModel.Tl.Bindings
/-! The decidable matcher between a schema (`Tl.Schema`) and the bindings extracted from generated.go (`Bind.Bindings`):
same fields in the same order under the generator's naming convention, Go types that carry the schema types, every
conditional field guarded by ITS flag field and ITS bit in both methods, constructor ids as tag literals in both
switches, request ids / error id / result ids in the client methods, the request decoder table. One Bool per
declaration, so that a regenerated obligation names the declaration whose binding is wrong. -/
namespace Tongo.Tl.Bind
open Tongo Tongo.Tl

/-- Go type that holds a value of the schema type (inline position) -/
def goTyOf : Ty → GoTy
  | .nat => .u32 | .int => .u32 | .long => .u64 | .int256 => .int256 | .bytes => .bytes | .string => .str
  | .bool => .bool
  | .tru => .bool                                  -- never used: conditional `true` has no Go field
  | .bare c => .named (camelGo c ++ "C")
  | .boxed t => .named (camelGo t)
  | .vector t => .slice (goTyOf t)

/-- Go type of a struct field: a conditional field is a pointer unless its Go type is already a slice -/
def fieldGoTy (f : Field) : GoTy :=
  match f.cond, f.ty with
  | none, t => goTyOf t
  | some _, .bytes => .bytes
  | some _, .vector t => .slice (goTyOf t)
  | some _, t => .ptr (goTyOf t)

def guardOf (f : Field) : Option (String × Nat) := f.cond.map fun p => (camelGo p.1, p.2)

/-- one field against its struct entry and its marshal / unmarshal steps (`n`: the Go name, `g`: the guard) -/
def agreeOne (n : String) (g : Option (String × Nat)) (ty : GoTy) (d : String × GoTy) (m u : Step) : Bool :=
  d.1 == n && d.2 == ty && m.field == some n && m.guard == g && u.field == some n && u.guard == g

/-- a conditional `true`: no Go field, nothing marshalled; UnmarshalTL keeps an empty guarded block -/
def truStep (f : Field) (us : List Step) : Bool :=
  f.cond.isSome &&
    (match us.head? with
     | some u => u.field.isNone && u.guard == guardOf f
     | none => false)

def plainStep (f : Field) (decl : StructDecl) (ms us : List Step) : Bool :=
  match decl.head?, ms.head?, us.head? with
  | some d, some m, some u => agreeOne (camelGo f.name) (guardOf f) (fieldGoTy f) d m u
  | _, _, _ => false

/-- fields of one constructor against a struct declaration and the step lists of its two methods -/
def agreeFields : List Field → StructDecl → List Step → List Step → Bool
  | [], decl, ms, us => decl.isEmpty && ms.isEmpty && us.isEmpty
  | f :: fs, decl, ms, us =>
    if f.ty = .tru then truStep f us && agreeFields fs decl ms us.tail
    else plainStep f decl ms us && agreeFields fs decl.tail ms.tail us.tail

def nodupB : List String → Bool
  | [] => true
  | x :: xs => !xs.contains x && nodupB xs

def declNamesOk (decl : StructDecl) : Bool := nodupB (decl.map (·.1))

/-- a type reference resolves to a binding of the right kind: a bare reference names the constructor of a
single-constructor type (struct `<Ctor>C`); a boxed reference names a type with several constructors (sum struct) or a
single-constructor type for which a hand-written tagged wrapper exists -/
def tyRefsOk (S : Schema) (B : Bindings) : Ty → Bool
  | .bare c =>
    (match S.ctor? c with
     | some d => (S.ctorsOf d.result).length == 1
     | none => false)
  | .boxed t =>
    (match S.ctorsOf t with
     | [] => false
     | [_] => (match B.find (camelGo t) with
       | some (.tagged _ _) => true
       | _ => false)
     | _ => true)
  | .vector t => t != .tru && tyRefsOk S B t    -- `true` has no Go type: only as a conditional field
  | _ => true

def agreeMethod (S : Schema) (B : Bindings) (d : Decl) (m : Method) : Bool :=
  declNamesOk m.fields && agreeFields d.fields m.fields m.marshal m.unmarshal &&
    d.fields.all (fun f => tyRefsOk S B f.ty)

/-- the variants, marshal cases and unmarshal cases of a sum binding against the constructors, in schema order -/
def agreeCases (S : Schema) (B : Bindings) : List Decl → List (String × StructDecl) → List MCase → List UCase → Bool
  | [], [], [], [] => true
  | d :: ds, v :: vs, m :: ms, u :: us =>
    v.1 == camelGo d.ctor && declNamesOk v.2 &&
      m.sumType == camelGo d.ctor && m.variant == camelGo d.ctor && m.tag == d.id &&
      u.sumType == camelGo d.ctor && u.variant == camelGo d.ctor && u.tag == d.id &&
      agreeFields d.fields v.2 m.steps u.steps && d.fields.all (fun f => tyRefsOk S B f.ty) &&
      agreeCases S B ds vs ms us
  | _, _, _, _ => false

/-- the binding of the type named `t`, with the Go names `gBare` (`<Ctor>C`) and `gBoxed` (`<Type>`) given: one
constructor → `gBare` is its struct and, if a binding `gBoxed` exists, it must be the hand-written tagged wrapper with that
constructor's id; several constructors → the sum struct `gBoxed` -/
def agreeTypeG (S : Schema) (B : Bindings) (t gBare gBoxed : String) : Bool :=
  match S.ctorsOf t with
  | [d] =>
    (match B.find gBare with
     | some (.simple m) => agreeMethod S B d m
     | _ => false) &&
    (match B.find gBoxed with
     | none => true
     | some (.tagged tag inner) => tag == d.id && inner == gBare
     | _ => false)
  | ds =>
    !ds.isEmpty &&
    (match B.find gBoxed with
     | some (.sum s) =>
       agreeCases S B ds s.variants s.marshal s.unmarshal && nodupB (ds.map fun d => camelGo d.ctor)
     | _ => false)

def bareNameOf (S : Schema) (t : String) : String :=
  match S.ctorsOf t with
  | [d] => camelGo d.ctor ++ "C"
  | _ => ""

/-- the same with the Go names computed by the generator's naming convention -/
def agreeType (S : Schema) (B : Bindings) (t : String) : Bool :=
  agreeTypeG S B t (bareNameOf S t) (camelGo t)

/-- form used by the regenerated obligations: the Go names are spelled out as literals and checked ONCE against the
naming convention (comparing a computed string against every entry of the binding table is what costs the kernel time) -/
def agreeTypeL (S : Schema) (B : Bindings) (t gBare gBoxed : String) : Bool :=
  gBare == bareNameOf S t && gBoxed == camelGo t && agreeTypeG S B t gBare gBoxed

theorem agreeType_of_L {S : Schema} {B : Bindings} {t gBare gBoxed : String}
    (h : agreeTypeL S B t gBare gBoxed = true) : agreeType S B t = true := by
  simp only [agreeTypeL, Bool.and_eq_true, beq_iff_eq] at h
  obtain ⟨⟨h1, h2⟩, h3⟩ := h
  subst h1 h2
  exact h3

def errorIdOf (S : Schema) : Nat := ((S.ctor? "liteServer.error").map (·.id)).getD 0

/-- a function with its Go names given: request struct `gReq`, generated client method `gMeth`, decoder table entry -/
def agreeFuncG (S : Schema) (B : Bindings) (errId : Nat) (f : Decl) (gReq gMeth : String) : Bool :=
  (match B.find gReq with
   | some (.simple m) => agreeMethod S B f m
   | _ => false) &&
  (match B.methods.find? (fun m => m.name == gMeth) with
   | some m =>
     m.requestId == f.id && m.errorTag == errId &&
       m.request == (if f.fields.isEmpty then none else some gReq) &&
       (match S.ctorsOf f.result with
        | [c] => m.result == camelGo c.ctor ++ "C" && m.resultTag == some c.id
        | _ => m.result == camelGo f.result && m.resultTag == none)
   | none => false) &&
  (match B.decoders.find? (fun e => e.key == f.id) with
   | some e => e.tag == f.id && e.tlName == f.ctor && e.goType == gReq
   | none => false)

def agreeFunc (S : Schema) (B : Bindings) (errId : Nat) (f : Decl) : Bool :=
  agreeFuncG S B errId f (camelGo f.ctor ++ "Request") (camelGo f.ctor)

def agreeFuncN (S : Schema) (B : Bindings) (name : String) : Bool :=
  match S.func? name with
  | some f => agreeFunc S B (errorIdOf S) f
  | none => false

def agreeFuncL (S : Schema) (B : Bindings) (name gReq gMeth : String) : Bool :=
  match S.func? name with
  | some f => gReq == camelGo f.ctor ++ "Request" && gMeth == camelGo f.ctor && agreeFuncG S B (errorIdOf S) f gReq gMeth
  | none => false

theorem agreeFuncN_of_L {S : Schema} {B : Bindings} {name gReq gMeth : String}
    (h : agreeFuncL S B name gReq gMeth = true) : agreeFuncN S B name = true := by
  unfold agreeFuncL at h
  unfold agreeFuncN
  cases hf : S.func? name with
  | none => simp [hf] at h
  | some f =>
    simp only [hf, Bool.and_eq_true, beq_iff_eq] at h
    obtain ⟨⟨h1, h2⟩, h3⟩ := h
    subst h1 h2
    exact h3

/-! ### How a value of a schema type is held in the generated Go structs -/

mutual
/-- the Go value (`.tuple` in struct order, nil = `.absent`, sum struct = `.sum <SumType>`) that carries the TL value `v`
of type `ty`: conditional `true` fields have no Go field; a boxed single-constructor value is a plain struct (the
hand-written wrapper type adds the id); sum types name the variant by the generator's CamelCase -/
def rep (S : Schema) : Ty → Val → Val
  | .bare c, .tuple fs =>
    match S.ctor? c with
    | some d => .tuple (repFields S d.fields fs)
    | none => .tuple fs
  | .boxed t, .sum c fs =>
    match S.ctorOf? t c with
    | some d =>
      if (S.ctorsOf t).length == 1 then .tuple (repFields S d.fields fs)
      else .sum (camelGo d.ctor) (repFields S d.fields fs)
    | none => .sum c fs
  | .vector t, .vec items => .vec (repItems S t items)
  | _, v => v
def repFields (S : Schema) : List Field → List Val → List Val
  | f :: fs, v :: vs => if f.ty = .tru then repFields S fs vs else rep S f.ty v :: repFields S fs vs
  | _, _ => []
def repItems (S : Schema) (t : Ty) : List Val → List Val
  | [] => []
  | v :: vs => rep S t v :: repItems S t vs
end

def dedupNames : List String → List String
  | [] => []
  | x :: xs => x :: (dedupNames xs).filter (· != x)

/-- the declared types, in order of first appearance -/
def typeNames (S : Schema) : List String := dedupNames (S.types.map (·.result))

/-- the whole of generated.go against the whole schema -/
def agreeAll (S : Schema) (B : Bindings) : Bool :=
  (typeNames S).all (agreeType S B) && S.funcs.all (fun f => agreeFuncN S B f.ctor) &&
    (B.decoders.length == S.funcs.length && B.methods.length == S.funcs.length)

end Tongo.Tl.Bind
