import TongoModel.Tl.Codec
/-! # A model of the GENERATED Go bindings (liteclient/generated.go), property C10

`liteclient/generated.go` is completely regular code. Translator X7 (`harness/cmd/extract/tlbindings.go`, go/ast) turns
every generated struct declaration and every generated `MarshalTL` / `UnmarshalTL` method into the small value defined
here — the struct's fields with their Go types and the SEQUENCE of steps the method performs (`tl.Marshal(t.F)`,
`tl.Unmarshal(r, &t.F)`, the guards `if (t.Flag>>N)&1 == 1 {…}`, the `switch` over `t.SumType` / over the 4-byte tag with
its literals) — and fails on any statement outside these shapes (`TongoGen/TlBindings.lean`).

This file gives that step language a semantics (`marshalGo`, `unmarshalGo`): what the methods do to a Go value, with
the builtin behaviour of `tl.Marshal` / `tl.Unmarshal` on `uint32 uint64 tl.Int256 []byte string bool`, slices and
pointers. `TongoProofs/Lemmas/TlBindings.lean` proves ONCE (`steps_eq_schema`) that bindings accepted by the decidable
matcher `agreeAll` compute exactly `Tl.encode` / `Tl.decode` of the schema; the regenerated obligations discharge the
matcher for the current lite_api.tl against the current generated.go, one per declaration.

Go values are represented by `Tl.Val`: a struct is `.tuple` of its field values in the order of the struct DECLARATION,
a nil pointer / nil slice is `.absent`, a sum-type struct is `.sum <SumType string> <fields of that variant>`. -/
namespace Tongo.Tl.Bind
open Tongo Tongo.Tl

/-- utils.ToCamelCase on identifier-like names (no surrounding blanks) -/
def camelGo (s : String) : String :=
  let step := fun (st : List Char × Bool) (c : Char) =>
    if c.isAlpha then ((if st.2 then c.toUpper else c) :: st.1, false)
    else if c.isDigit then (c :: st.1, true)
    else (st.1, c == '_' || c == ' ' || c == '-' || c == '.')
  String.ofList ((s.toList.foldl step ([], true)).1.reverse)

/-- Go types occurring in generated structs -/
inductive GoTy where
  | u32 | u64 | int256 | bytes | str | bool
  | named (n : String)
  | slice (t : GoTy)
  | ptr (t : GoTy)
  deriving DecidableEq, Repr, Inhabited

/-- one statement group of a generated method: an access to struct field `field` (`none`: the empty block the
generator leaves for a conditional `true`), possibly under the guard `if (t.<flag> >> bit) & 1 == 1` -/
structure Step where
  field : Option String
  guard : Option (String × Nat)
  deriving DecidableEq, Repr, Inhabited

abbrev StructDecl := List (String × GoTy)

/-- a generated single-constructor type or request struct with its two methods -/
structure Method where
  fields : StructDecl
  marshal : List Step
  unmarshal : List Step
  deriving Repr, Inhabited

/-- one `case` of the `switch t.SumType` in MarshalTL: the case string, the tag literal written first, the variant
(struct field of the sum struct) whose fields are then written -/
structure MCase where
  sumType : String
  tag : Nat
  variant : String
  steps : List Step
  deriving Repr, Inhabited

/-- one `case` of the `switch tag` in UnmarshalTL: the tag literal, the string assigned to `t.SumType`, the variant read -/
structure UCase where
  tag : Nat
  sumType : String
  variant : String
  steps : List Step
  deriving Repr, Inhabited

structure SumBinding where
  variants : List (String × StructDecl)
  marshal : List MCase
  unmarshal : List UCase
  deriving Repr, Inhabited

inductive Binding where
  | simple (m : Method)
  | sum (s : SumBinding)
  /-- hand-written in liteclient/extensions.go (`type LiteServerSignatureSet LiteServerSignatureSetC`): MarshalTL writes
  the 4-byte tag literal, then the plain struct `inner`; UnmarshalTL reads and compares the tag, then reads `inner`.
  Extracted by the translator from the bodies of that file (exact statement shape, both tag literals equal). -/
  | tagged (tag : Nat) (inner : String)
  deriving Repr, Inhabited

/-- a generated client method: request id literal, request struct (none: no parameters, the id alone is sent), the
literal tested for `liteServer.error`, the result Go type, and the literal tested before decoding a single-constructor
result (`none`: the result is a sum type decoded from the whole answer) -/
structure ClientMethod where
  name : String
  requestId : Nat
  request : Option String
  errorTag : Nat
  result : String
  resultTag : Option Nat
  deriving DecidableEq, Repr, Inhabited

/-- an entry of `taggedRequestDecodeFunctions` resolved through its `decodeFunc…` variable and `…Name` constant -/
structure DecoderEntry where
  key : Nat          -- map key
  tag : Nat          -- first argument of decodeRequest
  tlName : String    -- value of the <T>Name constant
  goType : String    -- the struct literal passed to decodeRequest
  deriving DecidableEq, Repr, Inhabited

structure Bindings where
  types : List (String × Binding)
  methods : List ClientMethod
  decoders : List DecoderEntry
  deriving Repr, Inhabited

def Bindings.find (B : Bindings) (n : String) : Option Binding := (B.types.find? (fun p => p.1 == n)).map (·.2)

/-! ### Semantics -/

def fieldIdx (decl : StructDecl) (name : String) : Nat := decl.findIdx (fun p => p.1 == name)

/-- `t.<name>`: value and Go type of a struct field -/
def getField (decl : StructDecl) (vals : List Val) (name : String) : Option (GoTy × Val) :=
  match decl[fieldIdx decl name]?, vals[fieldIdx decl name]? with
  | some p, some v => some (p.2, v)
  | _, _ => none

/-- `(t.<flag> >> bit) & 1 == 1` -/
def guardHolds (decl : StructDecl) (vals : List Val) (g : Option (String × Nat)) : Option Bool :=
  match g with
  | none => some true
  | some (flag, bit) =>
    match getField decl vals flag with
    | some (.u32, .num m) => some (m.testBit bit)
    | _ => none

mutual
/-- `tl.Marshal(x)` for `x` of Go type `ty` -/
def marshalGo (B : Bindings) : Nat → GoTy → Val → Option Bytes
  | 0, _, _ => none
  | fuel + 1, ty, v =>
    match ty, v with
    | .u32, .num n => if n < 2 ^ 32 then some (le 4 n) else none
    | .u64, .num n => if n < 2 ^ 64 then some (le 8 n) else none
    | .int256, .raw bs => if bs.length = 32 then some bs else none
    | .bytes, .raw bs => if bs.length < 2 ^ 24 then some (encBytes bs) else none
    | .str, .raw bs => if bs.length < 2 ^ 24 then some (encBytes bs) else none
    | .bool, .bool b => some (le 4 (if b then boolTrueId else boolFalseId))
    | .ptr t, x =>
      match x with
      | .absent => none                           -- nil pointer
      | _ => marshalGo B fuel t x
    | .slice t, .vec items =>
      if items.length < 2 ^ 32 then (marshalItems B fuel t items).map (le 4 items.length ++ ·) else none
    | .named n, x =>
      match B.find n, x with
      | some (.simple m), .tuple vals => runMarshal B fuel m.fields m.marshal vals
      | some (.sum s), .sum c vals =>
        match s.marshal.find? (fun k => k.sumType == c) with
        | some k =>
          match s.variants.find? (fun p => p.1 == k.variant) with
          | some p => (runMarshal B fuel p.2 k.steps vals).map (le 4 k.tag ++ ·)
          | none => none
        | none => none                              -- default: "invalid sum type"
      | some (.tagged tag inner), .tuple vals => (marshalGo B fuel (.named inner) (.tuple vals)).map (le 4 tag ++ ·)
      | _, _ => none
    | _, _ => none

def marshalItems (B : Bindings) : Nat → GoTy → List Val → Option Bytes
  | _, _, [] => some []
  | fuel, t, v :: vs =>
    match marshalGo B fuel t v with
    | none => none
    | some b => (marshalItems B fuel t vs).map (b ++ ·)

/-- the body of a generated MarshalTL: the steps in order, each appending to the buffer -/
def runMarshal (B : Bindings) : Nat → StructDecl → List Step → List Val → Option Bytes
  | _, _, [], _ => some []
  | fuel, decl, s :: ss, vals =>
    match guardHolds decl vals s.guard with
    | none => none
    | some false => runMarshal B fuel decl ss vals
    | some true =>
      match s.field with
      | none => runMarshal B fuel decl ss vals
      | some name =>
        match getField decl vals name with
        | none => none
        | some (ty, v) =>
          match marshalGo B fuel ty v with
          | none => none
          | some b => (runMarshal B fuel decl ss vals).map (b ++ ·)
end

/-- `decl.length` zero values with the assignments made so far applied (a struct under construction in UnmarshalTL) -/
def setField (decl : StructDecl) (vals : List Val) (name : String) (v : Val) : List Val :=
  vals.set (fieldIdx decl name) v

def zeroStruct (decl : StructDecl) : List Val := decl.map fun _ => Val.absent

open Tongo (Outcome)

mutual
/-- `tl.Unmarshal(r, &x)` for `x` of Go type `ty` -/
def unmarshalGo (B : Bindings) : Nat → GoTy → Bytes → Outcome (Val × Bytes)
  | 0, _, _ => outOfFuel
  | fuel + 1, ty, bs =>
    match ty with
    | .u32 =>
      match readLE 4 bs with
      | .ok (n, r) => .ok (.num n, r)
      | .err e => .err e
      | .panic p => .panic p
    | .u64 =>
      match readLE 8 bs with
      | .ok (n, r) => .ok (.num n, r)
      | .err e => .err e
      | .panic p => .panic p
    | .int256 =>
      match readN 32 bs with
      | .ok (a, r) => .ok (.raw a, r)
      | .err e => .err e
      | .panic p => .panic p
    | .bytes | .str =>
      match readBytes bs with
      | .ok (a, r) => .ok (.raw a, r)
      | .err e => .err e
      | .panic p => .panic p
    | .bool =>
      match readLE 4 bs with
      | .ok (n, r) =>
        if n = boolTrueId then .ok (.bool true, r)
        else if n = boolFalseId then .ok (.bool false, r)
        else .err "bool"
      | .err e => .err e
      | .panic p => .panic p
    | .ptr t => unmarshalGo B fuel t bs
    | .slice t =>
      match readLE 4 bs with
      | .ok (n, r) =>
        match unmarshalItems B fuel t n r with
        | .ok (vs, r') => .ok (.vec vs, r')
        | .err e => .err e
        | .panic p => .panic p
      | .err e => .err e
      | .panic p => .panic p
    | .named n =>
      match B.find n with
      | some (.simple m) =>
        match runUnmarshal B fuel m.fields m.unmarshal (zeroStruct m.fields) bs with
        | .ok (vals, r) => .ok (.tuple vals, r)
        | .err e => .err e
        | .panic p => .panic p
      | some (.sum s) =>
        match readLE 4 bs with
        | .ok (tag, r) =>
          match s.unmarshal.find? (fun k => k.tag == tag) with
          | some k =>
            match s.variants.find? (fun p => p.1 == k.variant) with
            | some p =>
              match runUnmarshal B fuel p.2 k.steps (zeroStruct p.2) r with
              | .ok (vals, r') => .ok (.sum k.sumType vals, r')
              | .err e => .err e
              | .panic p => .panic p
            | none => .err "variant"
          | none => .err "tag"                      -- default: "invalid tag"
        | .err e => .err e
        | .panic p => .panic p
      | some (.tagged tag inner) =>
        match readLE 4 bs with
        | .ok (t, r) => if t = tag then unmarshalGo B fuel (.named inner) r else .err "tag"
        | .err e => .err e
        | .panic p => .panic p
      | none => .err "undeclared"
termination_by fuel => (fuel, 0)

def unmarshalItems (B : Bindings) (fuel : Nat) (t : GoTy) : Nat → Bytes → Outcome (List Val × Bytes)
  | 0, bs => .ok ([], bs)
  | n + 1, bs =>
    match unmarshalGo B fuel t bs with
    | .ok (v, r) =>
      match unmarshalItems B fuel t n r with
      | .ok (vs, r') => .ok (v :: vs, r')
      | .err e => .err e
      | .panic p => .panic p
    | .err e => .err e
    | .panic p => .panic p
termination_by n => (fuel, n + 1)

/-- the body of a generated UnmarshalTL: each step reads into a field of the struct `vals` under construction; a
guard reads the flag field as it stands at that moment -/
def runUnmarshal (B : Bindings) (fuel : Nat) (decl : StructDecl) : List Step → List Val → Bytes → Outcome (List Val × Bytes)
  | [], vals, bs => .ok (vals, bs)
  | s :: ss, vals, bs =>
    match guardHolds decl vals s.guard with
    | none => .err "flag"
    | some false => runUnmarshal B fuel decl ss vals bs
    | some true =>
      match s.field with
      | none => runUnmarshal B fuel decl ss vals bs
      | some name =>
        match decl[fieldIdx decl name]? with
        | none => .err "field"
        | some p =>
          match unmarshalGo B fuel p.2 bs with
          | .ok (v, r) => runUnmarshal B fuel decl ss (setField decl vals name v) r
          | .err e => .err e
          | .panic p => .panic p
termination_by ss => (fuel, ss.length + 1)
end


/-! ### The generated client methods `(*Client).LiteServer*` -/

/-- the struct every generated method decodes a `liteServer.error` answer into -/
def errorStruct : String := "LiteServerErrorC"

/-- what a generated method returns: `(res, nil)` or `(_, errRes)` -/
inductive GoAnswer where
  | result (v : Val)
  | serverError (v : Val)
  deriving Repr, Inhabited

/-- the payload handed to `liteServerRequest`: the request-id literal (little-endian), then — if the method takes a
request struct — that struct's MarshalTL -/
def clientRequest (B : Bindings) (fuel : Nat) (m : ClientMethod) (req : Val) : Option Bytes :=
  match m.request with
  | none => some (le 4 m.requestId)
  | some r => (marshalGo B fuel (.named r) req).map (le 4 m.requestId ++ ·)

/-- what the generated method makes of the answer bytes: the leading tag is compared with the error literal, then (if
the method has one) with the result literal; a sum-typed result is decoded from the whole answer -/
def clientAnswer (B : Bindings) (fuel : Nat) (m : ClientMethod) (resp : Bytes) : Outcome GoAnswer :=
  match readLE 4 resp with
  | .ok (tag, r) =>
    if tag = m.errorTag then
      match unmarshalGo B fuel (.named errorStruct) r with
      | .ok (v, _) => .ok (.serverError v)
      | .err e => .err e
      | .panic p => .panic p
    else
      match m.resultTag with
      | some t =>
        if tag = t then
          match unmarshalGo B fuel (.named m.result) r with
          | .ok (v, _) => .ok (.result v)
          | .err e => .err e
          | .panic p => .panic p
        else .err "invalid tag"
      | none =>
        match unmarshalGo B fuel (.named m.result) resp with
        | .ok (v, _) => .ok (.result v)
        | .err e => .err e
        | .panic p => .panic p
  | .err e => .err e
  | .panic p => .panic p

/-- `LiteapiRequestDecoder`: the table entry selected by the leading id, then the request struct's UnmarshalTL -/
def decoderTable (B : Bindings) (fuel : Nat) (bs : Bytes) : Outcome (Nat × Option (String × Val)) :=
  match readLE 4 bs with
  | .ok (tag, r) =>
    match B.decoders.find? (fun e => e.key == tag) with
    | some e =>
      if e.tag ≠ tag then .ok (tag, none)        -- the selected decoder re-reads the id and compares it with ITS literal
      else match unmarshalGo B fuel (.named e.goType) r with
      | .ok (v, _) => .ok (tag, some (e.tlName, v))
      | .err _ => .ok (tag, none)                -- any error of the selected decoder → UnknownRequest
      | .panic p => .panic p
    | none => .ok (tag, none)
  | .err e => .err e
  | .panic p => .panic p

end Tongo.Tl.Bind
