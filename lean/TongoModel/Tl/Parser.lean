import TongoModel.Tl.Schema
import TongoModel.Prim.Crc32
/-! An independent parser for the textual TL subset of `liteclient/lite_api.tl` (NOT the repository's participle
grammar, which is itself under test), a canonical printer, and the text from which constructor ids are derived.

    schema := decl* "---functions---" decl*          (the separator and the functions part are optional)
    decl   := ctor "#" hex8  field*  "=" Result ";"
    field  := name ":" [ flag "." N "?" ] type
    type   := "#" | int | long | int256 | bytes | string | Bool | true | name | "(" "vector" type ")"

`//` starts a comment that runs to the end of the line. All functions are total (fuel = input length). -/
namespace Tongo.Tl

inductive Tok where
  | word (s : String)
  | colon | qmark | lpar | rpar | eq | semi
  | bad (c : Char)
  deriving DecidableEq, Repr, Inhabited

def isWordChar (c : Char) : Bool :=
  c.isAlphanum || c == '_' || c == '.' || c == '#' || c == '-'

def punct? (c : Char) : Option Tok :=
  if c == ':' then some .colon else if c == '?' then some .qmark else if c == '(' then some .lpar
  else if c == ')' then some .rpar else if c == '=' then some .eq else if c == ';' then some .semi else none

def flushWord (acc : List Char) (out : List Tok) : List Tok :=
  if acc.isEmpty then out else .word (String.ofList acc.reverse) :: out

/-- one pass over the characters; `out` is accumulated in reverse -/
def tokenizeAux : List Char → Bool → List Char → List Tok → List Tok
  | [], _, acc, out => (flushWord acc out).reverse
  | c :: cs, true, acc, out => tokenizeAux cs (c != '\n') acc out
  | c :: cs, false, acc, out =>
    if c == '/' && cs.head? == some '/' then tokenizeAux cs true [] (flushWord acc out)
    else if isWordChar c then tokenizeAux cs false (c :: acc) out
    else match punct? c with
      | some t => tokenizeAux cs false [] (t :: flushWord acc out)
      | none =>
        if c == ' ' || c == '\n' || c == '\t' || c == '\r' then tokenizeAux cs false [] (flushWord acc out)
        else tokenizeAux cs false [] (.bad c :: flushWord acc out)

def tokenize (s : List Char) : List Tok := tokenizeAux s false [] []

/-! ### names -/

def isIdentStart (c : Char) : Bool := c.isAlpha
def isIdentChar (c : Char) : Bool := c.isAlphanum || c == '_'

/-- the dotted components of a name -/
def splitDots (cs : List Char) : List (List Char) :=
  let r := cs.foldl (fun (st : List (List Char) × List Char) c =>
    if c == '.' then (st.2.reverse :: st.1, []) else (st.1, c :: st.2)) ([], [])
  (r.2.reverse :: r.1).reverse

def validComponent : List Char → Bool
  | [] => false
  | c :: cs => isIdentStart c && cs.all isIdentChar

/-- `a.b.c`: non-empty components, each a letter followed by letters, digits, `_` -/
def validName (s : String) : Bool := (splitDots s.toList).all validComponent

/-- does the last component start with an upper-case letter (a type, as opposed to a constructor)? -/
def isTypeName (s : String) : Bool :=
  match (splitDots s.toList).getLast? with
  | some (c :: _) => c.isUpper
  | _ => false

def tyOfWord (w : String) : Option Ty :=
  if w == "#" then some .nat else if w == "int" then some .int else if w == "long" then some .long
  else if w == "int256" then some .int256 else if w == "bytes" then some .bytes
  else if w == "string" then some .string else if w == "Bool" then some .bool
  else if w == "true" then some .tru
  else if validName w then (if isTypeName w then some (.boxed w) else some (.bare w))
  else none

def hexVal? (c : Char) : Option Nat :=
  let n := c.toNat
  if 48 ≤ n ∧ n ≤ 57 then some (n - 48) else if 97 ≤ n ∧ n ≤ 102 then some (n - 87) else none

def hexNat? (cs : List Char) : Option Nat :=
  cs.foldl (fun acc c => match acc, hexVal? c with | some a, some d => some (a * 16 + d) | _, _ => none) (some 0)

def decNat? (cs : List Char) : Option Nat :=
  if cs.isEmpty then none else
  cs.foldl (fun acc c => match acc with
    | some a => if c.isDigit then some (a * 10 + (c.toNat - 48)) else none
    | none => none) (some 0)

/-- `ctor#xxxxxxxx` (exactly eight lower-case hex digits) -/
def splitHead (w : String) : Option (String × Nat) :=
  let cs := w.toList
  let name := cs.takeWhile (· != '#')
  match cs.dropWhile (· != '#') with
  | _ :: hex =>
    if hex.length == 8 && validName (String.ofList name) then (hexNat? hex).map (fun id => (String.ofList name, id))
    else none
  | [] => none

/-- `flag.N` -/
def splitCond (w : String) : Option (String × Nat) :=
  let comps := splitDots w.toList
  match comps.getLast?, comps.dropLast with
  | some bit, [flag] =>
    if validComponent flag then (decNat? bit).map (fun n => (String.ofList flag, n)) else none
  | _, _ => none

/-! ### grammar -/

def parseTy : Nat → List Tok → Option (Ty × List Tok)
  | 0, _ => none
  | _ + 1, .word w :: r => (tyOfWord w).map (fun t => (t, r))
  | fuel + 1, .lpar :: .word w :: r =>
    if w == "vector" then
      match parseTy fuel r with
      | some (t, .rpar :: r') => some (.vector t, r')
      | _ => none
    else none
  | _, _ => none

def parseField (toks : List Tok) : Option (Field × List Tok) :=
  match toks with
  | .word name :: .colon :: .word w :: .qmark :: r =>
    if validName name then
      match splitCond w, parseTy (r.length + 1) r with
      | some c, some (t, r') => some ({ name := name, cond := some c, ty := t }, r')
      | _, _ => none
    else none
  | .word name :: .colon :: r =>
    if validName name then
      (parseTy (r.length + 1) r).map (fun (t, r') => ({ name := name, cond := none, ty := t }, r'))
    else none
  | _ => none

/-- fields up to `=` -/
def parseFields : Nat → List Tok → Option (List Field × List Tok)
  | 0, _ => none
  | fuel + 1, toks =>
    match toks with
    | .eq :: r => some ([], r)
    | _ =>
      match parseField toks with
      | some (f, r) => (parseFields fuel r).map (fun (fs, r') => (f :: fs, r'))
      | none => none

def parseDecl (toks : List Tok) : Option (Decl × List Tok) :=
  match toks with
  | .word head :: r =>
    match splitHead head, parseFields (r.length + 1) r with
    | some (c, id), some (fs, .word res :: .semi :: r') =>
      if validName res && isTypeName res then some ({ ctor := c, id := id, fields := fs, result := res }, r') else none
    | _, _ => none
  | _ => none

/-- declarations up to the end of input or the functions separator -/
def parseDecls : Nat → List Tok → Option (List Decl × List Tok)
  | 0, _ => none
  | fuel + 1, toks =>
    match toks with
    | [] => some ([], [])
    | .word w :: r =>
      if w == "---functions---" then some ([], .word w :: r)
      else
        match parseDecl toks with
        | some (d, r') => (parseDecls fuel r').map (fun (ds, r'') => (d :: ds, r''))
        | none => none
    | _ => none

def parseToks (toks : List Tok) : Option Schema :=
  match parseDecls (toks.length + 1) toks with
  | some (ts, []) => some { types := ts, funcs := [] }
  | some (ts, _ :: r) =>
    match parseDecls (r.length + 1) r with
    | some (fs, []) => some { types := ts, funcs := fs }
    | _ => none
  | none => none

def parseChars (cs : List Char) : Option Schema := parseToks (tokenize cs)

def parse (s : String) : Option Schema := parseChars s.toList

/-! ### canonical printer -/

def hexDigit (n : Nat) : Char := if n < 10 then Char.ofNat (48 + n) else Char.ofNat (87 + n)

def hex8 (n : Nat) : List Char :=
  [hexDigit (n / 0x10000000 % 16), hexDigit (n / 0x1000000 % 16), hexDigit (n / 0x100000 % 16),
   hexDigit (n / 0x10000 % 16), hexDigit (n / 0x1000 % 16), hexDigit (n / 0x100 % 16), hexDigit (n / 0x10 % 16),
   hexDigit (n % 16)]

def dec2 (n : Nat) : List Char :=
  if n < 10 then [Char.ofNat (48 + n)] else if n < 100 then [Char.ofNat (48 + n / 10), Char.ofNat (48 + n % 10)]
  else (toString n).toList

/-- `parens = true`: the schema syntax `(vector T)`; `false`: the form hashed for constructor ids, `vector T` -/
def renderTy (parens : Bool) : Ty → List Char
  | .nat => ['#'] | .int => "int".toList | .long => "long".toList | .int256 => "int256".toList
  | .bytes => "bytes".toList | .string => "string".toList | .bool => "Bool".toList | .tru => "true".toList
  | .bare c => c.toList | .boxed t => t.toList
  | .vector t =>
    if parens then '(' :: "vector ".toList ++ renderTy parens t ++ [')'] else "vector ".toList ++ renderTy parens t

def renderField (parens : Bool) (f : Field) : List Char :=
  f.name.toList ++ [':'] ++
    (match f.cond with
     | some (flag, bit) => flag.toList ++ ['.'] ++ dec2 bit ++ ['?']
     | none => []) ++ renderTy parens f.ty

def renderFields (parens : Bool) (fs : List Field) : List Char :=
  fs.flatMap (fun f => renderField parens f ++ [' '])

/-- `ctor#id f:t … = Result;` -/
def renderDecl (d : Decl) : List Char :=
  d.ctor.toList ++ ['#'] ++ hex8 d.id ++ [' '] ++ renderFields true d.fields ++ "= ".toList ++ d.result.toList ++ [';', '\n']

/-- one string per declaration, the functions separator in between -/
def renderLines (S : Schema) : List String :=
  S.types.map (fun d => String.ofList (renderDecl d)) ++ ["---functions---\n"] ++
    S.funcs.map (fun d => String.ofList (renderDecl d))

def render (S : Schema) : String := String.join (renderLines S)

/-- the text whose CRC-32 is the constructor id: the declaration without `#id`, `;` and parentheses -/
def crcText (d : Decl) : List Char :=
  d.ctor.toList ++ [' '] ++ renderFields false d.fields ++ "= ".toList ++ d.result.toList

def crcOf (d : Decl) : Nat := Tongo.Crc.crc32N ((crcText d).map Char.toNat)

end Tongo.Tl
