import TongoModel.Boc
/-! The header and size arithmetic of `bagOfCells.serializeBoc` (boc/boc.go) for cells that are already in a valid
serialisation order. The ORDER chosen by importCell/reorderCells/revisit is modelled in `TongoModel/BocOrder.lean`
(`Order.orderWith`, proved valid by `C01.order_valid`) and composed with this file in `Order.serializeBocModel`.
`serializeOrdered` is what serializeBoc writes once the order is fixed: it is an instance of the reference writer
`emitBoc`, so `parse_emit` applies to it. Not modelled here: the `flags` argument of serializeBoc (written as two header
bits: the `Cell.ToBoc*` methods always pass 0, `boc.SerializeBoc` passes the caller's value; the reader ignores the
field) and the capacity of the
output BitString `NewBitString((1023+224)·cells)` (a `WriteBytes` beyond it would return ErrBitStingOverflow; the
capacity exceeds the largest possible cell, index entry and header share — see props/C01.py `assumptions`). -/
namespace Tongo.Boc.Writer
open Tongo Tongo.Boc

/-- math/bits.Len -/
def bitLen (n : Nat) : Nat := if n = 0 then 0 else Nat.log2 n + 1

/-- `int(math.Max(math.Ceil(float64(bits)/8), 1))` (bits ≤ 64, so the float expression is exact) -/
def byteSize (bits : Nat) : Nat := max ((bits + 7) / 8) 1

/-- `refByteSize`: from `bits.Len(uint(cellCount))` -/
def refByteSize (cellCount : Nat) : Nat := byteSize (bitLen cellCount)

/-- `offsetByteSize`: from `bits.Len` of the largest value written with that width -/
def offByteSize (maxOffset : Nat) : Nat := byteSize (bitLen maxOffset)

/-- `WriteInt(v, 3)` for v ≥ 0 writes a 0 bit and the two low bits of v: the value read back from the 3-bit field.
It equals v only for v ≤ 3, i.e. for fewer than 2²⁴ cells — the range `serializeOrdered` is stated for. -/
def sizeField (v : Nat) : Nat := v % 4

/-- total size of the cell data for reference width `size` -/
def dataSize (size : Nat) (t : Table) : Nat := (emitCells size t.toList []).flatten.length

/-- the largest value written with the offset width: the total cell data size, doubled when cache
bits are requested -/
def maxOffset (tot : Nat) (cache : Bool) : Nat := if cache then 2 * tot else tot

/-- the parameters serializeBoc chooses -/
def params (t : Table) (idx crc cache : Bool) (shouldCache : List Bool) : EmitParams :=
  let size := refByteSize t.size
  { magic := 0, hasIdx := idx, hasCrc := crc, hasCache := cache, size := size,
    offBytes := offByteSize (maxOffset (dataSize size t) cache), absent := 0, cacheBits := shouldCache, stored := [] }

/-- serializeBoc on an ordered table (row i is the i-th cell written; refs point forward) -/
def serializeOrdered (t : Table) (roots : List Nat) (idx crc cache : Bool) (shouldCache : List Bool) : Bytes :=
  emitBoc (params t idx crc cache shouldCache) t roots

end Tongo.Boc.Writer
