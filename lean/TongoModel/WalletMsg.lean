import TongoModel.WalletSend
import TongoModel.Hashmap
/-! Wallet message bodies, signing, the external-message envelope, verification and decoding
(wallet/wallet_v3.go, wallet_v4.go, wallet_v5.go, wallet_v5_beta.go, wallet_highload_v2.go createSignedMsgBodyCell;
wallets_common.go signBodyCell; messages.go payload marshalers, decoders, ExtractRawMessages, VerifySignature,
MessageV5VerifySignature; ton/block.go CreateExternalMessage; tlb.Message (un)marshalling of ext_in messages).

`H` (hash), `sign`/`verify` are parameters. Outgoing messages are arbitrary cells with a mode byte. -/
namespace Tongo.Wallet
open Tongo Tongo.Bits

/-- wallet.RawMessage -/
structure RawMsg where
  mode : Nat       -- byte
  msg : Cell
  deriving Inhabited

/-- the wallet identity as the body builders use it -/
structure BodyIds where
  subWallet : Nat := 0     -- v3, v4, highload: subWalletID; v5 beta: SubWalletID
  walletId : Nat := 0      -- v5r1
  net : Nat := 0           -- v5 beta: uint32(networkGlobalID)
  wcByte : Nat := 0        -- v5 beta: uint8(workchain)
  deriving Repr, DecidableEq, Inhabited

/-- the ids `newWallet` derives from the options for each version -/
def bodyIds (v : Version) (o : Opts) : BodyIds :=
  match v.family with
  | .v1v2 => {}
  | .v3 | .v4 | .highload => { subWallet := o.subDefault }
  | .v5beta => { subWallet := o.subWallet.getD 0, net := toU32 o.netOr, wcByte := toU8 o.wc }
  | .v5r1 => { walletId := walletIdV5R1 o }

/-- the id fields the body of the version carries (the others are not in the body) -/
def BodyIds.restrict (ids : BodyIds) (v : Version) : BodyIds :=
  match v.family with
  | .v1v2 => {}
  | .v3 | .v4 | .highload => { subWallet := ids.subWallet }
  | .v5beta => { subWallet := ids.subWallet, net := ids.net, wcByte := ids.wcByte }
  | .v5r1 => { walletId := ids.walletId }

/-- the ranges of the Go field types: uint32, uint32, uint32, uint8 -/
def BodyIds.WF (ids : BodyIds) : Prop :=
  ids.subWallet < 4294967296 ∧ ids.walletId < 4294967296 ∧ ids.net < 4294967296 ∧ ids.wcByte < 256

def opSignedExternal : Nat := 0x7369676e
def opSignedInternal : Nat := 0x73696e74
def opExtension : Nat := 0x6578746e
def actionSendMsgTag : Nat := 0x0ec3c86d

/-! ### payloads -/

/-- one message of a v1..v4 payload (and the value of one highload dictionary entry): mode byte, then the ref -/
def payloadStep (b : CellB) (m : RawMsg) : Outcome CellB := (b.writeUint m.mode 8).bind fun b => b.addRef m.msg

/-- `PayloadV1toV4.MarshalTLB`: at most 4 messages, each a mode byte and a ref -/
def payloadV1toV4 (b : CellB) (msgs : List RawMsg) : Outcome CellB :=
  if msgs.length > 4 then .err "WalletPayloadV1toV4 supports only up to 4 messages"
  else msgs.foldlM payloadStep b

/-- `W5Actions.MarshalTLB`: empty list ↦ empty cell; otherwise `0x0ec3c86d mode ^rest ^msg` -/
def w5Actions : List RawMsg → Outcome Cell
  | [] => .ok (.ordinary [] [])
  | m :: rest => do
    let r ← w5Actions rest
    let b ← CellB.empty.writeUint actionSendMsgTag 32
    let b ← b.writeUint m.mode 8
    let b ← b.addRef r
    let b ← b.addRef m.msg
    pure b.toCell

/-- one entry of the highload dictionary as `PayloadHighload.UnmarshalTLB` reads it: mode byte, then the message ref -/
def highloadEntry (x : List Bool × CellR) : Outcome RawMsg := do
  let (mode, vr) ← x.2.readUint 8
  let (m, _) ← vr.nextRef
  pure { mode := mode, msg := m }

/-- the value codec of the highload dictionary (`Hashmap[Uint16, Any]` whose values are cells `mode ‖ ^msg`): writing
appends the mode byte and the ref to the leaf; reading takes the rest of the leaf (`Any`) and then mode and ref. (Go
reads all values as `Any` first and parses them afterwards; either way a malformed entry makes the whole decode fail.) -/
def highloadCodec : Hashmap.Codec RawMsg where
  enc m := .ok (natToBits 8 m.mode, [m.msg])
  dec bits refs := highloadEntry ([], { bits := bits, refs := refs })

/-- the entries handed to the dictionary encoder: key i (16 bits) ↦ message i -/
def highloadKvs (msgs : List RawMsg) : List (Hashmap.Key × RawMsg) :=
  (List.range msgs.length).zip msgs |>.map fun p => (natToBits 16 p.1, p.2)

/-- the dictionary cell of `PayloadHighload.MarshalTLB`: `tlb.Marshal(dict, NewHashmap(keys, values))` with the shared
dictionary encoder (entries ordered by key bits, canonical shortest edge labels) -/
def highloadDict (msgs : List RawMsg) : Outcome Cell := Hashmap.marshal highloadCodec 16 (highloadKvs msgs)

/-- `PayloadHighload.MarshalTLB` (after the repair: an empty payload is the empty dictionary `hme_empty$0`) -/
def payloadHighload (b : CellB) (msgs : List RawMsg) : Outcome CellB :=
  if msgs.length > 254 then .err "PayloadHighload supports only up to 254 messages"
  else if msgs.isEmpty then b.write [false]
  else do
    let d ← highloadDict msgs
    let b ← b.write [true]
    b.addRef d

/-- the payload as marshalled before the repair: `1` and a reference to an EMPTY cell for no messages, which is not
a `HashmapE` (the library's own decoder rejects it) -/
def payloadHighloadV0 (b : CellB) (msgs : List RawMsg) : Outcome CellB :=
  if msgs.length > 254 then .err "PayloadHighload supports only up to 254 messages"
  else do
    let d ← if msgs.isEmpty then pure (Cell.ordinary [] []) else highloadDict msgs
    let b ← b.write [true]
    b.addRef d

/-! ### v5 extended actions (wallet.W5ExtendedAction / W5ExtendedActions) -/

/-- an internal address as the extended actions carry it: `addr_none$00` or `addr_std$10` without anycast (other
forms of `MsgAddress` are outside the modelled fragment) -/
inductive ExtAddr where
  | none
  | std (wc : Int) (hash : List UInt8)     -- workchain_id:int8, address:bits256
  deriving Repr, DecidableEq, Inhabited

/-- `add_extension#02 addr`, `remove_extension#03 addr`, `set_signature_allowed#04 allowed:Bool` -/
inductive ExtAction where
  | addExtension (a : ExtAddr)
  | removeExtension (a : ExtAddr)
  | setSignatureAllowed (b : Bool)
  deriving Repr, DecidableEq, Inhabited

def extAddrBits : ExtAddr → List Bool
  | .none => [false, false]
  | .std wc hash => [true, false] ++ [false] ++ intToBits 8 (toI8 wc) ++ bytesToBits (hash.take 32 ++ List.replicate (32 - hash.length) 0)

def extActionBits : ExtAction → List Bool
  | .addExtension a => natToBits 8 2 ++ extAddrBits a
  | .removeExtension a => natToBits 8 3 ++ extAddrBits a
  | .setSignatureAllowed b => natToBits 8 4 ++ [b]

/-- `W5ExtendedActions.MarshalTLB`: the first action into the current cell, every further one into a fresh cell
referenced from the previous one (the reference is added before the child is filled); nothing for an empty list -/
def writeExtActions (b : CellB) : List ExtAction → Outcome CellB
  | [] => .ok b
  | [a] => b.write (extActionBits a)
  | a :: rest => do
    let b ← b.write (extActionBits a)
    let child ← writeExtActions CellB.empty rest
    b.addRef child.toCell

/-- the `maybe` field `ExtendedActions *W5ExtendedActions`: nil pointer ↦ 0, otherwise 1 and the actions -/
def writeExtField (b : CellB) : Option (List ExtAction) → Outcome CellB
  | none => b.write [false]
  | some l => (b.write [true]).bind fun b => writeExtActions b l

/-- the signed cell of `walletV5R1.CreateSignedMsgBodyCell(key, msgs, extensionsActions, cfg)` -/
def signedCellV5Ext (ids : BodyIds) (op seqno validUntil : Nat) (msgs : List RawMsg) (ext : Option (List ExtAction)) : Outcome Cell := do
  let b ← CellB.empty.writeUint op 32
  let b ← b.writeUint ids.walletId 32
  let b ← b.writeUint validUntil 32
  let b ← b.writeUint seqno 32
  let b ← b.write [true]
  let a ← w5Actions msgs
  let b ← b.addRef a
  let b ← writeExtField b ext
  pure b.toCell

/-- the `maybe^` field `Actions *W5Actions` -/
def writeActionsField (b : CellB) : Option (List RawMsg) → Outcome CellB
  | none => b.write [false]
  | some l => do
    let b ← b.write [true]
    let a ← w5Actions l
    b.addRef a

/-- an `extension_action#6578746e query_id:uint64 actions:(Maybe ^…) extended:(Maybe …)` body (sent by an extension as an
internal message; marshalled from `wallet.MessageV5{ExtensionAction}` by the reflection codec) -/
def extensionBody (queryId : Nat) (msgs : Option (List RawMsg)) (ext : Option (List ExtAction)) : Outcome Cell := do
  let b ← CellB.empty.writeUint opExtension 32
  let b ← b.writeUint queryId 64
  let b ← writeActionsField b msgs
  let b ← writeExtField b ext
  pure b.toCell

/-! ### the cell that is signed, per version -/

/-- the cell whose representation hash is signed. `rnd` is the highload wallet's `rand.Uint32()`, `op` the v5 opcode
(`MessageConfig.V5MsgType`; RawSendV2 passes `opSignedExternal`). -/
def signedCell (v : Version) (ids : BodyIds) (op seqno validUntil rnd : Nat) (msgs : List RawMsg) : Outcome Cell :=
  match v.family with
  | .v1v2 => .panic "implement me"
  | .v3 => do          -- MessageV3{SubWalletId, ValidUntil, Seqno, RawMessages}
    let b ← CellB.empty.writeUint ids.subWallet 32
    let b ← b.writeUint validUntil 32
    let b ← b.writeUint seqno 32
    let b ← payloadV1toV4 b msgs
    pure b.toCell
  | .v4 => do          -- MessageV4{SubWalletId, ValidUntil, Seqno, Op int8 = 0, RawMessages}
    let b ← CellB.empty.writeUint ids.subWallet 32
    let b ← b.writeUint validUntil 32
    let b ← b.writeUint seqno 32
    let b ← b.writeUint 0 8
    let b ← payloadV1toV4 b msgs
    pure b.toCell
  | .highload => do    -- HighloadV2Message{SubWalletId, BoundedQueryID = validUntil<<32 + rnd, RawMessages}
    let b ← CellB.empty.writeUint ids.subWallet 32
    let b ← b.writeUint ((validUntil * 4294967296 + rnd) % 18446744073709551616) 64
    let b ← payloadHighload b msgs
    pure b.toCell
  | .v5r1 => do        -- opcode, extV5R1SignedMessage{WalletId, ValidUntil, Seqno, Actions maybe^, ExtendedActions maybe (nil)}
    let b ← CellB.empty.writeUint op 32
    let b ← b.writeUint ids.walletId 32
    let b ← b.writeUint validUntil 32
    let b ← b.writeUint seqno 32
    let b ← b.write [true]
    let a ← w5Actions msgs
    let b ← b.addRef a
    let b ← b.write [false]
    pure b.toCell
  | .v5beta => do      -- opcode, extV5BetaSignedMessage{WalletV5ID, ValidUntil, Seqno, Op false, Actions ^}
    let b ← CellB.empty.writeUint op 32
    let b ← b.writeUint ids.net 32
    let b ← b.writeUint ids.wcByte 8
    let b ← b.writeUint 0 8
    let b ← b.writeUint ids.subWallet 32
    let b ← b.writeUint validUntil 32
    let b ← b.writeUint seqno 32
    let b ← b.write [false]
    let a ← w5Actions msgs
    let b ← b.addRef a
    pure b.toCell

/-! ### the layouts, written out (what `signedCell` returns when nothing overflows; see C14 `fits_in_cell`) -/

def modeBits (msgs : List RawMsg) : List Bool := msgs.flatMap fun m => natToBits 8 m.mode
def msgCells (msgs : List RawMsg) : List Cell := msgs.map (·.msg)

/-- the nested action list of v5: `0x0ec3c86d mode ^rest ^msg`, the first message outermost -/
def actionsCell : List RawMsg → Cell
  | [] => .ordinary [] []
  | m :: rest => .ordinary (natToBits 32 actionSendMsgTag ++ natToBits 8 m.mode) [actionsCell rest, m.msg]

/-- the signed cell of v3, v4, v5r1, v5 beta as a value -/
def signedLayout (v : Version) (ids : BodyIds) (op seqno validUntil : Nat) (msgs : List RawMsg) : Cell :=
  match v.family with
  | .v3 => .ordinary (natToBits 32 ids.subWallet ++ natToBits 32 validUntil ++ natToBits 32 seqno ++ modeBits msgs) (msgCells msgs)
  | .v4 => .ordinary (natToBits 32 ids.subWallet ++ natToBits 32 validUntil ++ natToBits 32 seqno ++ natToBits 8 0 ++ modeBits msgs)
      (msgCells msgs)
  | .v5r1 => .ordinary (natToBits 32 op ++ natToBits 32 ids.walletId ++ natToBits 32 validUntil ++ natToBits 32 seqno ++ [true] ++ [false])
      [actionsCell msgs]
  | .v5beta => .ordinary (natToBits 32 op ++ natToBits 32 ids.net ++ natToBits 8 ids.wcByte ++ natToBits 8 0 ++
      natToBits 32 ids.subWallet ++ natToBits 32 validUntil ++ natToBits 32 seqno ++ [false]) [actionsCell msgs]
  | _ => .ordinary [] []

/-- where the 64-byte signature goes: in front of the signed bits (`signBodyCell`: `SignedMsgBody{Sign, Message Any}`)
for v3/v4/highload, after them (`bodyCell.WriteBytes(signature)`) for v5 -/
def attachSignature (v : Version) (sig : List UInt8) (signed : Cell) : Outcome Cell :=
  match v.family with
  | .v5r1 | .v5beta => do
    let b ← ({ bits := signed.bits, refs := signed.refs } : CellB).writeBytes sig
    pure b.toCell
  | _ => do
    let b ← CellB.empty.writeBytes sig
    let b ← b.writeAny signed
    pure b.toCell

/-- `createSignedMsgBodyCell`: build, hash, sign with the private key, attach. `sign sk digest` is 64 bytes. -/
def createSignedBody (H : List UInt8 → List UInt8) (sign : List UInt8 → List UInt8 → List UInt8) (sk : List UInt8)
    (v : Version) (ids : BodyIds) (op seqno validUntil rnd : Nat) (msgs : List RawMsg) : Outcome Cell := do
  let c ← signedCell v ids op seqno validUntil rnd msgs
  let digest ← c.hashO? H
  attachSignature v (sign sk digest) c

/-! ### external message -/

/-- `ton.CreateExternalMessage` + `tlb.Marshal`: `ext_in_msg_info$10 src:addr_none$00 dest:addr_std$10 nothing$0
wc:int8 addr:bits256 import_fee:0000`, init `nothing$0` or `just$1 right$1 ^StateInit`, body `right$1 ^body` -/
def writeInit (b : CellB) (init : Option Cell) : Outcome CellB :=
  match init with
  | none => b.write [false]
  | some si => (b.write [true, true]).bind fun b => b.addRef si

def extMessage (dest : Address) (body : Cell) (init : Option Cell) : Outcome Cell := do
  let b ← CellB.empty.write [true, false]
  let b ← b.write [false, false]
  let b ← b.write [true, false]
  let b ← b.write [false]
  let b ← b.write (intToBits 8 (toI8 dest.workchain))
  let b ← b.writeBytes (dest.hash.take 32 ++ List.replicate (32 - dest.hash.length) 0)
  let b ← b.writeUint 0 4
  let b ← writeInit b init
  let b ← b.write [true]
  let b ← b.addRef (.ordinary body.bits body.refs)
  pure b.toCell

/-- the envelope written out (what `extMessage` returns for a 32-byte address hash; C14 `fits_in_cell`) -/
def envelope (dest : Address) (body : Cell) (init : Option Cell) : Cell :=
  .ordinary ([true, false] ++ [false, false] ++ [true, false] ++ [false] ++ intToBits 8 (toI8 dest.workchain) ++
      bytesToBits dest.hash ++ natToBits 4 0 ++ (if init.isSome then [true, true] else [false]) ++ [true])
    (init.toList ++ [.ordinary body.bits body.refs])

/-! ### decoding an external message (tlb.Message.UnmarshalTLB on the ext_in fragment) -/

/-- `Maybe[Anycast]`: bit; depth on 5 bits (`#<= 30`), at least 1; rewrite prefix of `depth` bits -/
def skipMaybeAnycast (r : CellR) : Outcome CellR := do
  let (ex, r) ← r.readBit
  if !ex then pure r
  else
    let (depth, r) ← r.readUint 5
    if depth < 1 then .err "invalid anycast depth"
    else
      let (_, r) ← r.readBits depth
      pure r

/-- `MsgAddress.UnmarshalTLB`; returns the standard address if it is one -/
def readMsgAddress (r : CellR) : Outcome (Option (Int × List Bool) × CellR) := do
  let (t, r) ← r.readUint 2
  if t = 0 then pure (none, r)
  else if t = 1 then
    let (ln, r) ← r.readUint 9
    let (_, r) ← r.readBits ln
    pure (none, r)
  else if t = 2 then
    let r ← skipMaybeAnycast r
    let (wc, r) ← r.readBits 8
    let (a, r) ← r.readBits 256
    pure (some (bitsToInt wc, a), r)
  else
    let r ← skipMaybeAnycast r
    let (ln, r) ← r.readUint 9
    let (_, r) ← r.readBits 32
    let (_, r) ← r.readBits ln
    pure (none, r)

/-- `StateInit` struct decode; a set library bit is outside the modelled fragment -/
def skipStateInit (r : CellR) : Outcome CellR := do
  let (sd, r) ← r.readBit
  let r ← r.skipIf sd 5
  let (sp, r) ← r.readBit
  let r ← r.skipIf sp 2
  let (c, r) ← r.readBit
  let r ← r.skipRefIf c
  let (d, r) ← r.readBit
  let r ← r.skipRefIf d
  let (lib, r) ← r.readBit
  if lib then .err "unmodelled: state-init with libraries" else pure r

/-- `Either StateInit ^StateInit` after the `Maybe` bit -/
def skipInit (r : CellR) : Outcome CellR := do
  let (right, r) ← r.readBit
  if right then do
    let (si, r) ← r.nextRef
    if si.ty = tyLibrary then .err "library cell decoding is not configured properly"
    else (skipStateInit (CellR.ofCell si)).bind fun _ => .ok r
  else skipStateInit r

def skipInitIf (r : CellR) (hasInit : Bool) : Outcome CellR := if hasInit then skipInit r else .ok r

/-- `Either X ^X` body: a library cell in the reference is kept as it is, anything else is copied as an ordinary cell -/
def readBody (r : CellR) : Outcome Cell := do
  let (right, r) ← r.readBit
  if right then
    (r.nextRef).bind fun x => .ok (if x.1.ty = tyLibrary then x.1 else .ordinary x.1.bits x.1.refs)
  else pure r.remaining

structure ExtMsg where
  dest : Option (Int × List Bool)
  hasInit : Bool
  body : Cell
  deriving Inhabited

/-- `tlb.Unmarshal(msg, &tlb.Message)` for a message cell: the cell is hashed first (depth limit), then
`CommonMsgInfo` (first matching tag: `int_msg_info$0`, `ext_in_msg_info$10`, `ext_out_msg_info$11`), `init`, `body`.
Only `ext_in_msg_info` is modelled. -/
def decodeExtIn (r : CellR) : Outcome ExtMsg := do
  let (_, r) ← readMsgAddress r
  let (dest, r) ← readMsgAddress r
  let (ln, r) ← r.readUint 4                 -- import_fee: VarUInteger 16
  let (_, r) ← r.readBits (ln * 8)
  let (hasInit, r) ← r.readBit
  let r ← skipInitIf r hasInit
  let body ← readBody r
  pure { dest := dest, hasInit := hasInit, body := body }

def decodeExtMessage (c : Cell) : Outcome ExtMsg :=
  if c.ty = tyLibrary then .err "library cell decoding is not configured properly"
  else if c.depthO > maxDepth then .err "depth is too big"
  else
    match c.bits with
    | [] => .err "can not decode sumtype"
    | false :: _ => .err "unmodelled: int_msg_info"
    | [true] => .err "can not decode sumtype"
    | true :: true :: _ => .err "unmodelled: ext_out_msg_info"
    | true :: false :: rest => decodeExtIn { bits := rest, refs := c.refs }

/-! ### decoders of the bodies -/

/-- what a decoder returns: the id fields, seqno, expiry and the messages -/
structure Decoded where
  ids : BodyIds
  seqno : Nat
  validUntil : Nat
  queryId : Nat := 0
  msgs : List RawMsg                    -- what `ExtractRawMessages` returns
  ext : List ExtAction := []            -- v5: the extended actions
  extnActions : List RawMsg := []       -- v5 `ExtensionAction`: its send actions (which `RawMessages()` does NOT return)
  deriving Inhabited

/-- `PayloadV1toV4.UnmarshalTLB`: while there is a ref, read a mode byte -/
def readPayloadV1toV4 : (fuel : Nat) → CellR → Outcome (List RawMsg)
  | 0, _ => .ok []
  | fuel + 1, r =>
    match r.refs with
    | [] => .ok []
    | m :: rest => do
      let (mode, r') ← ({ r with refs := rest } : CellR).readUint 8
      let ms ← readPayloadV1toV4 fuel r'
      pure ({ mode := mode, msg := m } :: ms)

/-- `decoder.Unmarshal` of a `*boc.Cell` field tagged `^`: library cells are refused, a pruned branch leaves nil -/
def readMsgRef (r : CellR) : Outcome (Option Cell × CellR) := do
  let (m, r) ← r.nextRef
  if m.ty = tyLibrary then .err "library cell as a ref is not implemented"
  else if m.ty = tyPruned then pure (none, r)
  else pure (some m, r)

/-- `W5Actions.UnmarshalTLB` on the cell `c` (fuel bounds the chain length). A pruned message ref yields a nil
message, modelled as `none`. -/
def readW5Actions : (fuel : Nat) → Cell → Outcome (List (Nat × Option Cell))
  | 0, _ => .err "fuel"
  | fuel + 1, c =>
    if c.bits.length = 0 then .ok []
    else if c.bits.length = 40 then do
      let r := CellR.ofCell c
      let (next, r) ← r.nextRef
      let (tag, r) ← r.readUint 32
      if tag ≠ actionSendMsgTag then .err "magic prefix not found"
      else
        let (mode, r) ← r.readUint 8
        let (m, _) ← readMsgRef r
        let rest ← readW5Actions fuel next
        pure ((mode, m) :: rest)
    else .err "unexpected bits available"

/-- a `^W5Actions` / `maybe^ W5Actions` reference: library refused, pruned skipped -/
def readActionsRef (r : CellR) : Outcome (List (Nat × Option Cell) × CellR) := do
  let (a, r) ← r.nextRef
  if a.ty = tyLibrary then .err "library cell as a ref is not implemented"
  else if a.ty = tyPruned then pure ([], r)
  else
    let l ← readW5Actions (a.depthO + 2) a
    pure (l, r)

def readActionsRefIf (r : CellR) (flag : Bool) : Outcome (List (Nat × Option Cell) × CellR) :=
  if flag then readActionsRef r else .ok ([], r)

def actionsToMsgs (l : List (Nat × Option Cell)) : List RawMsg :=
  l.map fun (mode, m) => { mode := mode, msg := m.getD (.ordinary [] []) }

/-- `MsgAddress.UnmarshalTLB` restricted to what `ExtAddr` represents -/
def readExtAddr (r : CellR) : Outcome (ExtAddr × CellR) := do
  let (t, r) ← r.readUint 2
  if t = 0 then pure (.none, r)
  else if t = 2 then
    let (any, r) ← r.readBit
    if any then .err "unmodelled: anycast"
    else
      let (wc, r) ← r.readBits 8
      let (a, r) ← r.readBits 256
      pure (.std (bitsToInt wc) (bitsToBytes a), r)
  else .err "unmodelled: addr_extern / addr_var"

/-- one `W5ExtendedAction` (sum type with 8-bit tags; fewer than 8 bits left: no constructor matches) -/
def readExtAction (r : CellR) : Outcome (ExtAction × CellR) :=
  if r.bits.length < 8 then .err "can not decode sumtype"
  else do
    let (tag, r) ← r.readUint 8
    if tag = 2 then (readExtAddr r).bind fun x => .ok (.addExtension x.1, x.2)
    else if tag = 3 then (readExtAddr r).bind fun x => .ok (.removeExtension x.1, x.2)
    else if tag = 4 then (r.readBit).bind fun x => .ok (.setSignatureAllowed x.1, x.2)
    else .err "can not decode sumtype"

/-- the tail of `W5ExtendedActions.UnmarshalTLB`: follow the first reference of each cell while there is one -/
def readExtChain : (fuel : Nat) → Cell → Outcome (List ExtAction)
  | 0, _ => .err "fuel"
  | fuel + 1, c =>
    if c.ty = tyLibrary then .err "library cell decoding is not configured properly"
    else do
      let (a, r) ← readExtAction (CellR.ofCell c)
      match r.refs with
      | [] => pure [a]
      | next :: _ => do
        let rest ← readExtChain fuel next
        pure (a :: rest)

/-- `W5ExtendedActions.UnmarshalTLB` at the current position: one action from the current cell, then the chain hanging
off the next unread reference; the caller goes on reading the current cell after the first action -/
def readExtActions (r : CellR) : Outcome (List ExtAction × CellR) := do
  let (a, r) ← readExtAction r
  match r.refs with
  | [] => pure ([a], r)
  | next :: rest => do
    let l ← readExtChain (next.depthO + 2) next
    pure (a :: l, { r with refs := rest })

def readExtField (r : CellR) (flag : Bool) : Outcome (List ExtAction × CellR) :=
  if flag then readExtActions r else .ok ([], r)

/-- the decoder of the version applied to the body cell of an external message:
`DecodeMessageV3/V4/HighloadV2` (via `SignedMsgBody`), `DecodeMessageV5`, `DecodeMessageV5Beta` -/
def decodeBody (v : Version) (body : Cell) : Outcome Decoded :=
  if body.ty = tyLibrary then .err "library cell decoding is not configured properly"
  else
    let r := CellR.ofCell body
    match v.family with
    | .v1v2 => .err "wallet version is not supported"
    | .v3 => do
      let (_, r) ← r.readBits 512
      let (sub, r) ← r.readUint 32
      let (vu, r) ← r.readUint 32
      let (seq, r) ← r.readUint 32
      let ms ← readPayloadV1toV4 5 r
      pure { ids := { subWallet := sub }, seqno := seq, validUntil := vu, msgs := ms }
    | .v4 => do
      let (_, r) ← r.readBits 512
      let (sub, r) ← r.readUint 32
      let (vu, r) ← r.readUint 32
      let (seq, r) ← r.readUint 32
      let (_, r) ← r.readBits 8
      let ms ← readPayloadV1toV4 5 r
      pure { ids := { subWallet := sub }, seqno := seq, validUntil := vu, msgs := ms }
    | .highload => do
      let (_, r) ← r.readBits 512
      let (sub, r) ← r.readUint 32
      let (q, r) ← r.readUint 64
      let kvs ← Hashmap.unmarshalE highloadCodec 16 (.ordinary r.bits r.refs)
      pure { ids := { subWallet := sub }, seqno := 0, validUntil := q / 4294967296, queryId := q, msgs := kvs.map (·.2) }
    | .v5r1 => do
      if r.bits.length < 32 then .err "can not decode sumtype"
      else
        let (op, r) ← r.readUint 32
        if op = opExtension then
          let (q, r) ← r.readUint 64
          let (hasA, r) ← r.readBit
          let (acts, r) ← readActionsRefIf r hasA
          let (hasE, r) ← r.readBit
          let (exts, _) ← readExtField r hasE
          pure { ids := {}, seqno := 0, validUntil := 0, queryId := q, msgs := [], ext := exts, extnActions := actionsToMsgs acts }
        else if op ≠ opSignedInternal ∧ op ≠ opSignedExternal then .err "can not decode sumtype"
        else
          let (wid, r) ← r.readUint 32
          let (vu, r) ← r.readUint 32
          let (seq, r) ← r.readUint 32
          let (hasA, r) ← r.readBit
          let (acts, r) ← readActionsRefIf r hasA
          let (hasE, r) ← r.readBit
          if hasE then
            let (exts, r) ← readExtActions r
            let (_, _) ← r.readBits 512
            pure { ids := { walletId := wid }, seqno := seq, validUntil := vu, msgs := actionsToMsgs acts, ext := exts }
          else
            let (_, _) ← r.readBits 512
            pure { ids := { walletId := wid }, seqno := seq, validUntil := vu, msgs := actionsToMsgs acts }
    | .v5beta => do
      if r.bits.length < 32 then .err "can not decode sumtype"
      else
        let (op, r) ← r.readUint 32
        if op ≠ opSignedInternal ∧ op ≠ opSignedExternal then .err "can not decode sumtype"
        else
          let (net, r) ← r.readUint 32
          let (wc, r) ← r.readUint 8
          let (_, r) ← r.readUint 8
          let (sub, r) ← r.readUint 32
          let (vu, r) ← r.readUint 32
          let (seq, r) ← r.readUint 32
          let (_, r) ← r.readBit
          let (_, r) ← r.readBits 512
          let (acts, _) ← readActionsRef r
          pure { ids := { subWallet := sub, net := net, wcByte := wc }, seqno := seq, validUntil := vu,
                 msgs := actionsToMsgs acts }

/-- `ExtractRawMessages(ver, msg)` / `Decode…(msg)` on an external message cell -/
def decodeMessage (v : Version) (msg : Cell) : Outcome Decoded := do
  let m ← decodeExtMessage msg
  decodeBody v m.body

/-! ### verification -/

/-- `ed25519.Verify` panics on a public key that is not 32 bytes long -/
def edVerify (verify : List UInt8 → List UInt8 → List UInt8 → Bool) (pk digest sig : List UInt8) : Outcome Bool :=
  if pk.length ≠ 32 then .panic "ed25519: bad public key length" else .ok (verify pk digest sig)

/-- the digest and signature the verifier of the version extracts from a body cell:
`SignedMsgBody.Verify` (signature first) or `MessageV5VerifySignature` (signature in the last 512 bits) -/
def splitSignature (H : List UInt8 → List UInt8) (sigLast : Bool) (body : Cell) : Outcome (List UInt8 × List UInt8) :=
  if sigLast then
    if body.bits.length < 512 then .err "not enough bits in the cell"
    else do
      let n := body.bits.length - 512
      let copy := Cell.ordinary (body.bits.take n) body.refs
      let digest ← copy.hashO? H
      pure (digest, bitsToBytes (body.bits.drop n))
  else
    if body.ty = tyLibrary then .err "library cell decoding is not configured properly"
    else if body.bits.length < 512 then .err "not enough bits"
    else do
      let msg := Cell.ordinary (body.bits.drop 512) body.refs
      let digest ← msg.hashO? H
      pure (digest, bitsToBytes (body.bits.take 512))

/-- which verifier `VerifySignature` uses; `none` = "wallet version is not supported" -/
def verifierOf (v : Version) : Option Bool :=
  match v.family with
  | .v3 | .v4 | .highload => some false
  | .v5r1 | .v5beta => some true
  | .v1v2 => none

/-- `wallet.VerifySignature(ver, msg, publicKey)`: `ok true` = nil error, `ok false` = ErrBadSignature -/
def verifySignature (H : List UInt8 → List UInt8) (verify : List UInt8 → List UInt8 → List UInt8 → Bool)
    (v : Version) (msg : Cell) (pk : List UInt8) : Outcome Bool :=
  match verifierOf v with
  | none => .err "wallet version is not supported"
  | some sigLast => do
    let m ← decodeExtMessage msg
    let (digest, sig) ← splitSignature H sigLast m.body
    edVerify verify pk digest sig

/-- `VerifySignature` before V5Beta was added to its switch -/
def verifySignatureV0 (H : List UInt8 → List UInt8) (verify : List UInt8 → List UInt8 → List UInt8 → Bool)
    (v : Version) (msg : Cell) (pk : List UInt8) : Outcome Bool :=
  if v = .v5beta then .err "wallet version is not supported" else verifySignature H verify v msg pk

end Tongo.Wallet
