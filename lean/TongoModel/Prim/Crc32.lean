/-! CRC-32 (IEEE 802.3, reflected polynomial 0xEDB88320, init/xorout 0xFFFFFFFF) — the checksum TL uses to derive
constructor ids from the declaration text. Bitwise definition; validated against Go's hash/crc32 on every run. -/
namespace Tongo.Crc

def crc32ByteStep (crc : UInt32) (b : UInt8) : UInt32 :=
  (List.range 8).foldl (fun c _ => if c &&& 1 != 0 then (c >>> 1) ^^^ 0xEDB88320 else c >>> 1) (crc ^^^ b.toUInt32)

def crc32 (bs : List UInt8) : UInt32 := (bs.foldl crc32ByteStep 0xFFFFFFFF) ^^^ 0xFFFFFFFF

end Tongo.Crc
