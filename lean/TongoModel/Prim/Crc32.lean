/-! CRC-32 (IEEE 802.3, reflected polynomial 0xEDB88320, init/xorout 0xFFFFFFFF) — the checksum TL uses to derive
constructor ids from the declaration text. Bitwise definition; validated against Go's hash/crc32 on every run. -/
namespace Tongo.Crc

def crc32ByteStep (crc : UInt32) (b : UInt8) : UInt32 :=
  (List.range 8).foldl (fun c _ => if c &&& 1 != 0 then (c >>> 1) ^^^ 0xEDB88320 else c >>> 1) (crc ^^^ b.toUInt32)

def crc32 (bs : List UInt8) : UInt32 := (bs.foldl crc32ByteStep 0xFFFFFFFF) ^^^ 0xFFFFFFFF


/-! ### The same checksum over `Nat` (cheap for the Lean kernel: `Nat.xor`, `/`, `%` are evaluated by GMP), bit by bit
and table driven. `crc32T_eq_crc32N` (TongoProofs/Lemmas/Crc32.lean) proves the two equal for every input; the driver
validates `crc32N` against Go's hash/crc32 on every run. -/

def poly32 : Nat := 0xEDB88320

/-- one bit of the reflected CRC register -/
def bitStepN (c : Nat) : Nat := if c % 2 = 1 then (c / 2) ^^^ poly32 else c / 2

def iterStepN : Nat → Nat → Nat
  | 0, c => c
  | k + 1, c => iterStepN k (bitStepN c)

def byteStepN (c b : Nat) : Nat := iterStepN 8 (c ^^^ b)

/-- bitwise CRC-32 of a list of byte values -/
def crc32N (bs : List Nat) : Nat := (bs.foldl byteStepN 0xFFFFFFFF) ^^^ 0xFFFFFFFF

/-- `crcTable[i]` = four bit steps applied to the nibble `i` -/
def crcTable : List Nat := [
  0x00000000, 0x1db71064, 0x3b6e20c8, 0x26d930ac, 0x76dc4190, 0x6b6b51f4, 0x4db26158, 0x5005713c,
  0xedb88320, 0xf00f9344, 0xd6d6a3e8, 0xcb61b38c, 0x9b64c2b0, 0x86d3d2d4, 0xa00ae278, 0xbdbdf21c]

/-- four bit steps at once -/
def nibbleStepT (x : Nat) : Nat := crcTable.getD (x % 16) 0 ^^^ (x / 16)

def byteStepT (c b : Nat) : Nat := nibbleStepT (nibbleStepT (c ^^^ b))

/-- the accumulator is matched on so that the kernel evaluates it at every byte (no chain of suspended steps) -/
def crc32TAux : List Nat → Nat → Nat
  | [], c => c
  | b :: bs, c =>
    match byteStepT c b with
    | 0 => crc32TAux bs 0
    | n + 1 => crc32TAux bs (n + 1)

/-- table-driven CRC-32 -/
def crc32T (bs : List Nat) : Nat := crc32TAux bs 0xFFFFFFFF ^^^ 0xFFFFFFFF

end Tongo.Crc
