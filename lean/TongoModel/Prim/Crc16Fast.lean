import TongoModel.Prim.Crc16
/-! A fast executable CRC-16/XMODEM for the compiled driver, PROVED equal to the bitwise specification
`Tongo.Crc16.crc16` and installed with `@[csimp]` (the compiler replaces `crc16` by `crc16Fast`; the kernel and every
theorem keep seeing the bitwise definition). The 256-entry table is computed once, at start-up, BY the bitwise step —
it is not the table of the Go code (that one is regenerated and tied in TongoProofs/Lemmas/Crc16Lin.lean).
Also home of the XOR-linearity lemmas of the shift register. Core Lean only, kernel-checked (`decide +kernel` on 256 cases). -/
namespace Tongo.Crc16

/-! ### linearity -/

theorem xor_right_cancel {w} {a b c : BitVec w} (h : a ^^^ c = b ^^^ c) : a = b := by
  have := congrArg (· ^^^ c) h
  simpa [BitVec.xor_assoc] using this

theorem inj_xor (a b : Bool) : inj (a ^^ b) = inj a ^^^ inj b := by
  cases a <;> cases b <;> decide

theorem zstep_zero : zstep 0#16 = 0#16 := by decide

theorem ite_xor (p q : Bool) (P : BitVec 16) :
    (if (p ^^ q) = true then P else 0#16) = (if p = true then P else 0#16) ^^^ (if q = true then P else 0#16) := by
  cases p <;> cases q <;> simp

theorem zstep_xor (c d : BitVec 16) : zstep (c ^^^ d) = zstep c ^^^ zstep d := by
  unfold zstep
  rw [BitVec.msb_xor, BitVec.shiftLeft_xor_distrib, ite_xor]
  generalize c <<< 1 = x, d <<< 1 = y, (if c.msb = true then 0x1021#16 else 0#16) = u,
    (if d.msb = true then 0x1021#16 else 0#16) = v
  apply BitVec.eq_of_getLsbD_eq; intro i hi
  simp only [BitVec.getLsbD_xor]
  cases x.getLsbD i <;> cases y.getLsbD i <;> cases u.getLsbD i <;> cases v.getLsbD i <;> rfl

theorem bitStep_xor (c d : BitVec 16) (a b : Bool) :
    bitStep (c ^^^ d) (a ^^ b) = bitStep c a ^^^ bitStep d b := by
  unfold bitStep
  rw [inj_xor, ← zstep_xor]
  congr 1
  apply BitVec.eq_of_getLsbD_eq; intro i hi
  simp only [BitVec.getLsbD_xor]
  cases c.getLsbD i <;> cases d.getLsbD i <;> cases (inj a).getLsbD i <;> cases (inj b).getLsbD i <;> rfl

/-- `feed` is linear for bit lists of equal length -/
theorem feed_xor (c d : BitVec 16) (xs ys : List Bool) (h : xs.length = ys.length) :
    feed (c ^^^ d) (List.zipWith xor xs ys) = feed c xs ^^^ feed d ys := by
  induction xs generalizing c d ys with
  | nil => cases ys with
    | nil => rfl
    | cons _ _ => simp at h
  | cons x xs ih => cases ys with
    | nil => simp at h
    | cons y ys =>
      simp only [List.length_cons, Nat.add_right_cancel_iff] at h
      simp only [feed, List.zipWith_cons_cons, List.foldl_cons]
      rw [bitStep_xor]
      exact ih _ _ _ h

theorem feed_append (c : BitVec 16) (xs ys : List Bool) : feed c (xs ++ ys) = feed (feed c xs) ys := by
  simp [feed, List.foldl_append]

theorem bitsOfByte_xor (x y : Byte) : bitsOfByte (x ^^^ y) = List.zipWith xor (bitsOfByte x) (bitsOfByte y) := by
  simp [bitsOfByte]

theorem bitsOfByte_length (x : Byte) : (bitsOfByte x).length = 8 := rfl

theorem byteStep_xor (c d : BitVec 16) (x y : Byte) :
    byteStep (c ^^^ d) (x ^^^ y) = byteStep c x ^^^ byteStep d y := by
  unfold byteStep
  rw [bitsOfByte_xor]
  exact feed_xor _ _ _ _ rfl

/-- 256 cases: a byte in the high half of the register acts like a data byte -/
theorem byteStep_hi (x : BitVec 8) : byteStep (x.setWidth 16 <<< 8) 0#8 = byteStep 0#16 x := by
  revert x; decide +kernel

/-- 256 cases: a byte in the low half of the register is only shifted -/
theorem byteStep_lo (x : BitVec 8) : byteStep (x.setWidth 16) 0#8 = x.setWidth 16 <<< 8 := by
  revert x; decide +kernel

theorem split_hi_lo (c : BitVec 16) :
    c = ((c.extractLsb' 8 8).setWidth 16 <<< 8) ^^^ (c.extractLsb' 0 8).setWidth 16 := by
  apply BitVec.eq_of_getLsbD_eq; intro i hi
  simp only [BitVec.getLsbD_xor, BitVec.getLsbD_shiftLeft, BitVec.getLsbD_setWidth, BitVec.getLsbD_extractLsb']
  by_cases h : i < 8
  · simp [h, hi]
  · have : 8 + (i - 8) = i := by omega
    have h2 : i - 8 < 8 := by omega
    have h3 : i - 8 < 16 := by omega
    simp [h, hi, this, h2, h3]


/-- a byte step = (step of the zero register on `high byte ⊕ data byte`) ⊕ (low byte moved up) -/
theorem byteStep_split (c : BitVec 16) (b : Byte) : byteStep c b =
    byteStep 0#16 (c.extractLsb' 8 8 ^^^ b) ^^^ ((c.extractLsb' 0 8).setWidth 16 <<< 8) := by
  have h1 := byteStep_xor ((c.extractLsb' 8 8).setWidth 16 <<< 8) ((c.extractLsb' 0 8).setWidth 16) b 0#8
  rw [← split_hi_lo, BitVec.xor_zero, byteStep_lo] at h1
  rw [h1]
  congr 1
  have h2 := byteStep_xor ((c.extractLsb' 8 8).setWidth 16 <<< 8) 0#16 0#8 b
  simp only [BitVec.xor_zero, BitVec.zero_xor] at h2
  rw [h2, byteStep_hi]
  have h3 := byteStep_xor 0#16 0#16 (c.extractLsb' 8 8) b
  simp only [BitVec.xor_zero] at h3
  exact h3.symm

/-! ### the fast implementation -/

/-- register after each of the 256 byte values from the zero register, computed once by the bitwise step -/
def fastTable : Array (BitVec 16) := Array.ofFn (n := 256) fun i => byteStep 0#16 (BitVec.ofNat 8 i.val)

def fastStep (c : BitVec 16) (x : Byte) : BitVec 16 :=
  fastTable.getD (c.extractLsb' 8 8 ^^^ x).toNat 0#16 ^^^ ((c.extractLsb' 0 8).setWidth 16 <<< 8)

def crc16Fast (bs : List Byte) : BitVec 16 := bs.foldl fastStep 0#16

theorem fastTable_getD (x : BitVec 8) : fastTable.getD x.toNat 0#16 = byteStep 0#16 x := by
  have hx : x.toNat < 256 := x.isLt
  unfold fastTable
  rw [Array.getD_eq_getD_getElem?, Array.getElem?_ofFn]
  simp [hx]

theorem fastStep_eq (c : BitVec 16) (x : Byte) : fastStep c x = byteStep c x := by
  rw [byteStep_split, fastStep, fastTable_getD]

@[csimp] theorem crc16_eq_crc16Fast : @crc16 = @crc16Fast := by
  funext bs
  have : fastStep = byteStep := by funext c x; exact fastStep_eq c x
  unfold crc16 crc16Fast
  rw [this]

end Tongo.Crc16
