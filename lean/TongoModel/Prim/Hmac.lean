import TongoModel.Prim.Sha256
/-! HMAC-SHA-256 (RFC 2104) over byte lists, on top of the SHA-256 primitive; validated against Go's crypto/hmac by the
correspondence op `prim.hmac256`. -/
namespace Tongo.Hmac

def hmacSha256 (key msg : List UInt8) : List UInt8 :=
  let k := if key.length > 64 then Sha256.hash key else key
  let k := k ++ List.replicate (64 - k.length) 0
  let ipad := k.map (· ^^^ 0x36)
  let opad := k.map (· ^^^ 0x5c)
  Sha256.hash (opad ++ Sha256.hash (ipad ++ msg))

end Tongo.Hmac
