/-! SHA-512 (FIPS 180-4) over byte lists, HMAC-SHA-512 (RFC 2104) and PBKDF2-HMAC-SHA-512 (RFC 8018). Specification-level
executable definitions; validated against Go's crypto/sha512, crypto/hmac and golang.org/x/crypto/pbkdf2 by the
correspondence ops `prim.sha512`, `prim.hmac512`, `prim.pbkdf2_512`. -/
namespace Tongo.Sha512

def K : Array UInt64 := #[
  0x428a2f98d728ae22, 0x7137449123ef65cd, 0xb5c0fbcfec4d3b2f, 0xe9b5dba58189dbbc, 0x3956c25bf348b538, 0x59f111f1b605d019,
  0x923f82a4af194f9b, 0xab1c5ed5da6d8118, 0xd807aa98a3030242, 0x12835b0145706fbe, 0x243185be4ee4b28c, 0x550c7dc3d5ffb4e2,
  0x72be5d74f27b896f, 0x80deb1fe3b1696b1, 0x9bdc06a725c71235, 0xc19bf174cf692694, 0xe49b69c19ef14ad2, 0xefbe4786384f25e3,
  0x0fc19dc68b8cd5b5, 0x240ca1cc77ac9c65, 0x2de92c6f592b0275, 0x4a7484aa6ea6e483, 0x5cb0a9dcbd41fbd4, 0x76f988da831153b5,
  0x983e5152ee66dfab, 0xa831c66d2db43210, 0xb00327c898fb213f, 0xbf597fc7beef0ee4, 0xc6e00bf33da88fc2, 0xd5a79147930aa725,
  0x06ca6351e003826f, 0x142929670a0e6e70, 0x27b70a8546d22ffc, 0x2e1b21385c26c926, 0x4d2c6dfc5ac42aed, 0x53380d139d95b3df,
  0x650a73548baf63de, 0x766a0abb3c77b2a8, 0x81c2c92e47edaee6, 0x92722c851482353b, 0xa2bfe8a14cf10364, 0xa81a664bbc423001,
  0xc24b8b70d0f89791, 0xc76c51a30654be30, 0xd192e819d6ef5218, 0xd69906245565a910, 0xf40e35855771202a, 0x106aa07032bbd1b8,
  0x19a4c116b8d2d0c8, 0x1e376c085141ab53, 0x2748774cdf8eeb99, 0x34b0bcb5e19b48a8, 0x391c0cb3c5c95a63, 0x4ed8aa4ae3418acb,
  0x5b9cca4f7763e373, 0x682e6ff3d6b2b8a3, 0x748f82ee5defb2fc, 0x78a5636f43172f60, 0x84c87814a1f0ab72, 0x8cc702081a6439ec,
  0x90befffa23631e28, 0xa4506cebde82bde9, 0xbef9a3f7b2c67915, 0xc67178f2e372532b, 0xca273eceea26619c, 0xd186b8c721c0c207,
  0xeada7dd6cde0eb1e, 0xf57d4f7fee6ed178, 0x06f067aa72176fba, 0x0a637dc5a2c898a6, 0x113f9804bef90dae, 0x1b710b35131c471b,
  0x28db77f523047d84, 0x32caab7b40c72493, 0x3c9ebe0a15c9bebc, 0x431d67c49c100d4c, 0x4cc5d4becb3e42b6, 0x597f299cfc657e2a,
  0x5fcb6fab3ad6faec, 0x6c44198c4a475817]

def H0 : Array UInt64 := #[
  0x6a09e667f3bcc908, 0xbb67ae8584caa73b, 0x3c6ef372fe94f82b, 0xa54ff53a5f1d36f1,
  0x510e527fade682d1, 0x9b05688c2b3e6c1f, 0x1f83d9abfb41bd6b, 0x5be0cd19137e2179]

@[inline] def rotr (x : UInt64) (n : UInt64) : UInt64 := (x >>> n) ||| (x <<< (64 - n))

/-- padding: 0x80, zeros, 128-bit big-endian bit length; total a multiple of 128 bytes -/
def pad (msg : List UInt8) : List UInt8 :=
  let l := msg.length
  let zeros := (239 - l % 128) % 128   -- l + 1 + zeros ≡ 112 (mod 128)
  let bitLen := l * 8
  let lenBytes := (List.range 16).map fun i => UInt8.ofNat ((bitLen >>> (8 * (15 - i))) % 256)
  msg ++ [0x80] ++ List.replicate zeros 0 ++ lenBytes

def schedule (block : Array UInt8) : Array UInt64 := Id.run do
  let mut w : Array UInt64 := Array.mkEmpty 80
  for i in [0:16] do
    let mut x : UInt64 := 0
    for j in [0:8] do
      x := (x <<< 8) ||| (block[8*i+j]!).toUInt64
    w := w.push x
  for i in [16:80] do
    let w15 := w[i-15]!
    let w2 := w[i-2]!
    let s0 := rotr w15 1 ^^^ rotr w15 8 ^^^ (w15 >>> 7)
    let s1 := rotr w2 19 ^^^ rotr w2 61 ^^^ (w2 >>> 6)
    w := w.push (w[i-16]! + s0 + w[i-7]! + s1)
  return w

def compress (h : Array UInt64) (block : Array UInt8) : Array UInt64 := Id.run do
  let w := schedule block
  let mut a := h[0]!
  let mut b := h[1]!
  let mut c := h[2]!
  let mut d := h[3]!
  let mut e := h[4]!
  let mut f := h[5]!
  let mut g := h[6]!
  let mut hh := h[7]!
  for i in [0:80] do
    let s1 := rotr e 14 ^^^ rotr e 18 ^^^ rotr e 41
    let ch := (e &&& f) ^^^ ((~~~ e) &&& g)
    let t1 := hh + s1 + ch + K[i]! + w[i]!
    let s0 := rotr a 28 ^^^ rotr a 34 ^^^ rotr a 39
    let maj := (a &&& b) ^^^ (a &&& c) ^^^ (b &&& c)
    let t2 := s0 + maj
    hh := g; g := f; f := e; e := d + t1; d := c; c := b; b := a; a := t1 + t2
  return #[h[0]! + a, h[1]! + b, h[2]! + c, h[3]! + d, h[4]! + e, h[5]! + f, h[6]! + g, h[7]! + hh]

def hash (msg : List UInt8) : List UInt8 := Id.run do
  let padded := (pad msg).toArray
  let mut h := H0
  for i in [0:padded.size / 128] do
    h := compress h (padded.extract (128*i) (128*i+128))
  return h.toList.flatMap fun (x : UInt64) =>
    (List.range 8).map fun j => (x >>> (UInt64.ofNat (8 * (7 - j)))).toUInt8

/-- HMAC-SHA-512 -/
def hmac (key msg : List UInt8) : List UInt8 :=
  let k := if key.length > 128 then hash key else key
  let k := k ++ List.replicate (128 - k.length) 0
  hash (k.map (· ^^^ 0x5c) ++ hash (k.map (· ^^^ 0x36) ++ msg))

def xorBytes (a b : List UInt8) : List UInt8 := List.zipWith (· ^^^ ·) a b

/-- the inner loop of PBKDF2: `fuel` further applications of the PRF, xor-accumulated -/
def pbkdf2Loop (prf : List UInt8 → List UInt8) : Nat → List UInt8 → List UInt8 → List UInt8
  | 0, _, acc => acc
  | n + 1, u, acc =>
    let u' := prf u
    pbkdf2Loop prf n u' (xorBytes acc u')

/-- block `i` (1-based) of PBKDF2 with `iters ≥ 1` iterations -/
def pbkdf2Block (prf : List UInt8 → List UInt8) (salt : List UInt8) (iters i : Nat) : List UInt8 :=
  let u1 := prf (salt ++ [UInt8.ofNat (i >>> 24), UInt8.ofNat (i >>> 16), UInt8.ofNat (i >>> 8), UInt8.ofNat i])
  pbkdf2Loop prf (iters - 1) u1 u1

/-- `pbkdf2.Key(password, salt, iters, keyLen, sha512.New)` -/
def pbkdf2 (password salt : List UInt8) (iters keyLen : Nat) : List UInt8 :=
  let nBlocks := (keyLen + 63) / 64
  ((List.range nBlocks).flatMap fun i => pbkdf2Block (hmac password) salt iters (i + 1)).take keyLen

end Tongo.Sha512
