/-! Base64 (RFC 4648) with Go's `encoding/base64` decoding rules for the padded, NON-strict encodings
`base64.StdEncoding` / `base64.URLEncoding` (the ones tongo uses): `\r` and `\n` are ignored anywhere; input is consumed
in groups of four digits; `=` padding is mandatory and only allowed to complete the last group (`xx==`, `xxx=`), nothing
but newlines may follow it; the unused low bits of the last digit of a padded group are NOT checked (non-strict).
Bytes are `BitVec 8`, digit values `BitVec 6`. Core Lean only. -/
namespace Tongo.Base64

abbrev Byte := BitVec 8

/-- digit value → character; `url` selects `-` `_` instead of `+` `/` -/
def encChar (url : Bool) (v : BitVec 6) : Byte :=
  let n := v.toNat
  if n < 26 then BitVec.ofNat 8 (65 + n)
  else if n < 52 then BitVec.ofNat 8 (97 + (n - 26))
  else if n < 62 then BitVec.ofNat 8 (48 + (n - 52))
  else if n = 62 then (if url then 45#8 else 43#8)
  else (if url then 95#8 else 47#8)

/-- character → digit value -/
def decChar (url : Bool) (c : Byte) : Option (BitVec 6) :=
  let n := c.toNat
  if 65 ≤ n ∧ n ≤ 90 then some (BitVec.ofNat 6 (n - 65))
  else if 97 ≤ n ∧ n ≤ 122 then some (BitVec.ofNat 6 (n - 97 + 26))
  else if 48 ≤ n ∧ n ≤ 57 then some (BitVec.ofNat 6 (n - 48 + 52))
  else if n = (if url then 45 else 43) then some 62#6
  else if n = (if url then 95 else 47) then some 63#6
  else none

def pad : Byte := 61#8

/-- three bytes → four digit values -/
def split3 (x y z : Byte) : BitVec 6 × BitVec 6 × BitVec 6 × BitVec 6 :=
  let w : BitVec 24 := x ++ y ++ z
  (w.extractLsb' 18 6, w.extractLsb' 12 6, w.extractLsb' 6 6, w.extractLsb' 0 6)

/-- four digit values → three bytes -/
def join4 (a b c d : BitVec 6) : Byte × Byte × Byte :=
  let w : BitVec 24 := a ++ b ++ c ++ d
  (w.extractLsb' 16 8, w.extractLsb' 8 8, w.extractLsb' 0 8)

def encode (url : Bool) : List Byte → List Byte
  | [] => []
  | [x] =>
    let (a, b, _, _) := split3 x 0 0
    [encChar url a, encChar url b, pad, pad]
  | [x, y] =>
    let (a, b, c, _) := split3 x y 0
    [encChar url a, encChar url b, encChar url c, pad]
  | x :: y :: z :: rest =>
    let (a, b, c, d) := split3 x y z
    encChar url a :: encChar url b :: encChar url c :: encChar url d :: encode url rest

def isNewline (c : Byte) : Bool := c == 10#8 || c == 13#8

/-- decoding of newline-free input, four characters at a time -/
def decodeCore (url : Bool) : List Byte → Option (List Byte)
  | [] => some []
  | c0 :: c1 :: c2 :: c3 :: rest =>
    match decChar url c0, decChar url c1 with
    | some a, some b =>
      match decChar url c2 with
      | some c =>
        match decChar url c3 with
        | some d =>
          match decodeCore url rest with
          | some r => let (x, y, z) := join4 a b c d; some (x :: y :: z :: r)
          | none => none
        | none =>
          if c3 = pad ∧ rest = [] then let (x, y, _) := join4 a b c 0; some [x, y] else none
      | none =>
        if c2 = pad ∧ c3 = pad ∧ rest = [] then let (x, _, _) := join4 a b 0 0; some [x] else none
    | _, _ => none
  | _ => none

/-- `DecodeString` of the padded non-strict encodings: `none` = CorruptInputError -/
def decode (url : Bool) (s : List Byte) : Option (List Byte) :=
  decodeCore url (s.filter (fun c => !isNewline c))

/-- what `DecodeString` RETURNS besides the error: the bytes decoded before the error (all complete groups before the
failing one; a correctly padded last group followed by garbage still contributes its bytes). `(bytes, ok)`. -/
def decodeCoreP (url : Bool) : List Byte → List Byte × Bool
  | [] => ([], true)
  | c0 :: c1 :: c2 :: c3 :: rest =>
    match decChar url c0, decChar url c1 with
    | some a, some b =>
      match decChar url c2 with
      | some c =>
        match decChar url c3 with
        | some d =>
          let (x, y, z) := join4 a b c d
          let (r, ok) := decodeCoreP url rest
          (x :: y :: z :: r, ok)
        | none =>
          if c3 = pad then let (x, y, _) := join4 a b c 0; ([x, y], decide (rest = [])) else ([], false)
      | none =>
        if c2 = pad ∧ c3 = pad then let (x, _, _) := join4 a b 0 0; ([x], decide (rest = [])) else ([], false)
    | _, _ => ([], false)
  | _ => ([], false)

/-- `DecodeString` as Go returns it: bytes (possibly partial) and whether `err == nil` -/
def decodeP (url : Bool) (s : List Byte) : List Byte × Bool :=
  decodeCoreP url (s.filter (fun c => !isNewline c))

end Tongo.Base64
