/-! Hex encoding/decoding of byte lists (lower case on output, both cases on input). -/
namespace Tongo.Hex

def nibbleChar (n : Nat) : Char :=
  if n < 10 then Char.ofNat (48 + n) else Char.ofNat (87 + n)

def nibbleCharUpper (n : Nat) : Char :=
  if n < 10 then Char.ofNat (48 + n) else Char.ofNat (55 + n)

def charNibble? (c : Char) : Option Nat :=
  let n := c.toNat
  if 48 ≤ n ∧ n ≤ 57 then some (n - 48)
  else if 97 ≤ n ∧ n ≤ 102 then some (n - 87)
  else if 65 ≤ n ∧ n ≤ 70 then some (n - 55)
  else none

def encode (bs : List UInt8) : String :=
  String.ofList (bs.flatMap fun b => [nibbleChar (b.toNat / 16), nibbleChar (b.toNat % 16)])

def encodeUpper (bs : List UInt8) : String :=
  String.ofList (bs.flatMap fun b => [nibbleCharUpper (b.toNat / 16), nibbleCharUpper (b.toNat % 16)])

def decodeChars : List Char → Option (List UInt8)
  | [] => some []
  | [_] => none
  | a :: b :: rest =>
    match charNibble? a, charNibble? b, decodeChars rest with
    | some x, some y, some r => some (UInt8.ofNat (x * 16 + y) :: r)
    | _, _, _ => none

def decode (s : String) : Option (List UInt8) := decodeChars s.toList

end Tongo.Hex
