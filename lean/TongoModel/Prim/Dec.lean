import TongoModel.Outcome
/-! Decimal / hexadecimal number text as Go prints and parses it: `fmt` `%d` / `%x` / `big.Int.String` on the printing
side, `strconv.ParseUint`, `strconv.ParseInt` (loop, cutoff and 64-bit wrap-around check transcribed from
strconv/atoi.go) and `big.Int.SetString(s, 10)` on the parsing side. Strings are `List Char`; the driver maps every
input byte `b` to `Char.ofNat b`, so all of Go's byte-wise functions are modelled on arbitrary bytes. -/
namespace Tongo.Dec

abbrev Str := List Char

/-- digit `d < 36` as Go prints it (lower case) -/
def digitChar (d : Nat) : Char := if d < 10 then Char.ofNat (48 + d) else Char.ofNat (87 + d)

/-- shortest representation in base `b` (`2 ≤ b`): no leading zeros, `0` for zero
(strconv.FormatUint, used by `%d` / `%x` / big.Int.String) -/
def printNatB (b : Nat) (n : Nat) : Str :=
  if h : n < b ∨ b < 2 then [digitChar n] else printNatB b (n / b) ++ [digitChar (n % b)]
termination_by n
decreasing_by
  exact Nat.div_lt_self (by omega) (by omega)

def printNat (n : Nat) : Str := printNatB 10 n
def printHexNat (n : Nat) : Str := printNatB 16 n

/-- `%d` of a signed value -/
def printInt (v : Int) : Str := if v < 0 then '-' :: printNat v.natAbs else printNat v.natAbs

/-- strconv's digit value of a byte: `0-9`, and letters (either case, `lower(c) = c | 0x20`) as 10..35 -/
def digitOf (c : Char) : Option Nat :=
  let n := c.toNat
  if 48 ≤ n ∧ n ≤ 57 then some (n - 48)
  else
    let l := n ||| 0x20
    if n < 256 ∧ 97 ≤ l ∧ l ≤ 122 then some (l - 87) else none

/-- result of strconv.ParseUint: Go returns `(maxVal, ErrRange)` on overflow, `(0, ErrSyntax)` otherwise -/
inductive NumRes where
  | ok (n : Nat)
  | syntax
  | range
  deriving Repr, DecidableEq

/-- the digit loop of strconv.ParseUint (`base` is 10 or 16 here, never 0, so `_` is a syntax error):
`n >= cutoff` ⇒ range; `n *= base; n1 := n + d` in uint64; `n1 < n || n1 > maxVal` ⇒ range -/
def parseUintLoop (base maxVal : Nat) : Nat → Str → NumRes
  | n, [] => .ok n
  | n, c :: cs =>
    match digitOf c with
    | none => .syntax
    | some d =>
      if d ≥ base then .syntax
      else if n ≥ (2 ^ 64 - 1) / base + 1 then .range
      else
        let n' := n * base          -- cannot wrap: n < cutoff
        let n1 := (n' + d) % 2 ^ 64 -- uint64 addition
        if n1 < n' ∨ n1 > maxVal then .range else parseUintLoop base maxVal n1 cs

/-- strconv.ParseUint(s, base, bitSize) for `2 ≤ base ≤ 36`; bitSize 0 means 64; other bit sizes outside 1..64 are
errors (Go: bitSizeError) -/
def parseUint (s : Str) (base bitSize : Nat) : NumRes :=
  if s = [] then .syntax
  else if bitSize > 64 then .syntax
  else
    let bits := if bitSize = 0 then 64 else bitSize
    parseUintLoop base (2 ^ bits - 1) 0 s

/-- strconv.ParseInt(s, 10, bitSize): optional sign, ParseUint on the rest with the SAME bitSize (a range error there
yields `un = maxVal`), then the signed cutoff `1 << (bitSize-1)` -/
def parseInt (s : Str) (base bitSize : Nat) : Outcome Int :=
  match s with
  | [] => .err "syntax"
  | c :: rest =>
    let neg := c == '-'
    let s' := if c == '+' ∨ c == '-' then rest else s
    let bits := if bitSize = 0 then 64 else bitSize
    let un : Option Nat :=
      match parseUint s' base bitSize with
      | .ok n => some n
      | .range => some (2 ^ bits - 1)
      | .syntax => none
    match un with
    | none => .err "syntax"
    | some un =>
      let cutoff := 2 ^ (bits - 1)
      if !neg ∧ un ≥ cutoff then .err "range"
      else if neg ∧ un > cutoff then .err "range"
      else .ok (if neg then -(un : Int) else un)

def NumRes.toOutcome : NumRes → Outcome Nat
  | .ok n => .ok n
  | .syntax => .err "syntax"
  | .range => .err "range"

def isDigit (c : Char) : Bool := 48 ≤ c.toNat && c.toNat ≤ 57

/-- value of a string of decimal digits (unbounded) -/
def digitsVal (s : Str) : Nat := s.foldl (fun acc c => acc * 10 + (c.toNat - 48)) 0

/-- big.Int's scanSign: one optional leading `+` or `-` -/
def splitSign : Str → Bool × Str
  | '-' :: r => (true, r)
  | '+' :: r => (false, r)
  | s => (false, s)

/-- big.Int.SetString(s, 10): optional sign, at least one digit, nothing else (no `_`: base ≠ 0); `-0` is 0 -/
def parseBig (s : Str) : Outcome Int :=
  let neg := (splitSign s).1
  let ds := (splitSign s).2
  if ds = [] then .err "no digits"
  else if ds.all isDigit then .ok (if neg then -(digitsVal ds : Int) else digitsVal ds)
  else .err "invalid"

/-- strings.Trim(s, cutset) for an ASCII cutset -/
def trimSet (cut : List Char) (s : Str) : Str :=
  ((s.dropWhile (cut.contains ·)).reverse.dropWhile (cut.contains ·)).reverse

/-- strings.Trim(s, "\"") -/
def trimQuote (s : Str) : Str := trimSet ['"'] s

end Tongo.Dec
