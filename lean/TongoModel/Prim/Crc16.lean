/-! CRC-16/XMODEM (polynomial x^16 + x^12 + x^5 + 1 = 0x1021, initial register 0, MSB first, no reflection, no final XOR)
as a shift register on `BitVec 16`, bit by bit. This is the SPECIFICATION the table-driven Go code (utils.Crc16, and the
third-party snksoft/crc used by the address parser) is compared against on every run; `TongoProofs/Lemmas/Crc16*.lean`
proves the regenerated table step equal to eight of these bit steps. Core Lean only. -/
namespace Tongo.Crc16

abbrev Byte := BitVec 8

/-- the data bit enters at the top of the register -/
def inj (b : Bool) : BitVec 16 := if b then 0x8000#16 else 0#16

/-- one zero data bit: shift left, reduce by the polynomial if a one is shifted out -/
def zstep (c : BitVec 16) : BitVec 16 := (c <<< 1) ^^^ (if c.msb then 0x1021#16 else 0#16)

/-- one data bit -/
def bitStep (c : BitVec 16) (b : Bool) : BitVec 16 := zstep (c ^^^ inj b)

/-- the 8 bits of a byte, most significant first -/
def bitsOfByte (x : Byte) : List Bool :=
  [x.getLsbD 7, x.getLsbD 6, x.getLsbD 5, x.getLsbD 4, x.getLsbD 3, x.getLsbD 2, x.getLsbD 1, x.getLsbD 0]

def bitsOfBytes (bs : List Byte) : List Bool := bs.flatMap bitsOfByte

/-- register after a list of data bits -/
def feed (c : BitVec 16) (bits : List Bool) : BitVec 16 := bits.foldl bitStep c

/-- one data byte -/
def byteStep (c : BitVec 16) (x : Byte) : BitVec 16 := feed c (bitsOfByte x)

/-- CRC-16/XMODEM of a byte string -/
def crc16 (bs : List Byte) : BitVec 16 := bs.foldl byteStep 0#16

end Tongo.Crc16
