/-! CRC-16/XMODEM (poly 0x1021, init 0) and CRC-32C (Castagnoli, reflected 0x82F63B78), bitwise definitions. -/
namespace Tongo.Crc

/-- one message bit (MSB first) into a 16-bit CRC register, polynomial 0x1021 -/
def crc16BitStep (crc : UInt16) (bit : Bool) : UInt16 :=
  let top := (crc >>> 15) != 0
  let crc := crc <<< 1
  if top != bit then crc ^^^ 0x1021 else crc

def crc16ByteStep (crc : UInt16) (b : UInt8) : UInt16 :=
  (List.range 8).foldl (fun c i => crc16BitStep c (((b >>> (7 - i).toUInt8) &&& 1) != 0)) crc

def crc16 (bs : List UInt8) : UInt16 := bs.foldl crc16ByteStep 0

def crc32cByteStep (crc : UInt32) (b : UInt8) : UInt32 :=
  (List.range 8).foldl (fun c _ => if c &&& 1 != 0 then (c >>> 1) ^^^ 0x82F63B78 else c >>> 1) (crc ^^^ b.toUInt32)

def crc32c (bs : List UInt8) : UInt32 := (bs.foldl crc32cByteStep 0xFFFFFFFF) ^^^ 0xFFFFFFFF

end Tongo.Crc
