/-! Base32 (RFC 4648, alphabet `A–Z2–7`, `=` padding) with the decoding rules of Go's `encoding/base32.StdEncoding`:
newlines are stripped first; input is consumed in groups of eight digits; a `=` met at digit index j ≥ 2 of a group with
fewer than 8 characters left ends the input: at least 7-j more characters must follow, the next 7-j must all be `=`,
j ∈ {1,3,6} is rejected, anything after those is ignored (Go's behaviour); input ending inside a group is an error.
Bytes are `BitVec 8`, digit values `BitVec 5`. Core Lean only. -/
namespace Tongo.Base32

abbrev Byte := BitVec 8

def encChar (v : BitVec 5) : Byte :=
  if v.toNat < 26 then BitVec.ofNat 8 (65 + v.toNat) else BitVec.ofNat 8 (50 + (v.toNat - 26))

def decChar (c : Byte) : Option (BitVec 5) :=
  let n := c.toNat
  if 65 ≤ n ∧ n ≤ 90 then some (BitVec.ofNat 5 (n - 65))
  else if 50 ≤ n ∧ n ≤ 55 then some (BitVec.ofNat 5 (n - 50 + 26))
  else none

def pad : Byte := 61#8

/-- five bytes → eight digit values -/
def split5 (b0 b1 b2 b3 b4 : Byte) : List (BitVec 5) :=
  let w : BitVec 40 := b0 ++ b1 ++ b2 ++ b3 ++ b4
  [w.extractLsb' 35 5, w.extractLsb' 30 5, w.extractLsb' 25 5, w.extractLsb' 20 5,
   w.extractLsb' 15 5, w.extractLsb' 10 5, w.extractLsb' 5 5, w.extractLsb' 0 5]

/-- eight digit values → five bytes -/
def join8 (d0 d1 d2 d3 d4 d5 d6 d7 : BitVec 5) : List Byte :=
  let w : BitVec 40 := d0 ++ d1 ++ d2 ++ d3 ++ d4 ++ d5 ++ d6 ++ d7
  [w.extractLsb' 32 8, w.extractLsb' 24 8, w.extractLsb' 16 8, w.extractLsb' 8 8, w.extractLsb' 0 8]

/-- encoding; an incomplete last group is zero-filled and padded (1,2,3,4 bytes → 2,4,5,7 digits) -/
def encode : List Byte → List Byte
  | b0 :: b1 :: b2 :: b3 :: b4 :: rest => (split5 b0 b1 b2 b3 b4).map encChar ++ encode rest
  | [] => []
  | [b0] => ((split5 b0 0 0 0 0).take 2).map encChar ++ List.replicate 6 pad
  | [b0, b1] => ((split5 b0 b1 0 0 0).take 4).map encChar ++ List.replicate 4 pad
  | [b0, b1, b2] => ((split5 b0 b1 b2 0 0).take 5).map encChar ++ List.replicate 3 pad
  | [b0, b1, b2, b3] => ((split5 b0 b1 b2 b3 0).take 7).map encChar ++ List.replicate 1 pad

def isNewline (c : Byte) : Bool := c == 10#8 || c == 13#8

/-- bytes produced by a group of which only the first `dlen` digits are data (the others are 0) -/
def groupBytes (ds : List (BitVec 5)) (dlen : Nat) : List Byte :=
  let g := fun i => ds.getD i 0
  let bs := join8 (g 0) (g 1) (g 2) (g 3) (g 4) (g 5) (g 6) (g 7)
  bs.take (match dlen with | 8 => 5 | 7 => 4 | 5 => 3 | 4 => 2 | 2 => 1 | _ => 0)

/-- one group: `ds` the digits read so far (j = ds.length). Result: bytes of the group, the remaining input, finished? -/
def group (fuel : Nat) (ds : List (BitVec 5)) (src : List Byte) : Option (List Byte × List Byte × Bool) :=
  match fuel with
  | 0 => some (groupBytes ds 8, src, false)
  | fuel + 1 =>
    match src with
    | [] => none -- input ends inside a group: missing padding
    | c :: src' =>
      let j := ds.length
      if c = pad ∧ j ≥ 2 ∧ src'.length < 8 then
        if src'.length + j < 7 then none
        else if (src'.take (7 - j)).any (fun x => x != pad) then none
        else if j = 1 ∨ j = 3 ∨ j = 6 then none
        else some (groupBytes ds j, src', true)
      else match decChar c with
        | none => none
        | some v => group fuel (ds ++ [v]) src'

def decodeLoop : Nat → List Byte → Option (List Byte)
  | 0, _ => some []
  | n + 1, src =>
    if src.isEmpty then some []
    else match group 8 [] src with
      | none => none
      | some (bs, rest, fin) =>
        if fin then some bs
        else match decodeLoop n rest with
          | some r => some (bs ++ r)
          | none => none

/-- `base32.StdEncoding.DecodeString`: `none` = CorruptInputError -/
def decode (s : List Byte) : Option (List Byte) :=
  let t := s.filter (fun c => !isNewline c)
  decodeLoop (t.length + 1) t

end Tongo.Base32
