/-! AES-256 (FIPS 197) block encryption and CTR mode (NIST SP 800-38A, 128-bit big-endian counter as in Go's
`cipher.NewCTR`). Specification-level executable definition over byte arrays; validated against Go's crypto/aes +
crypto/cipher by the correspondence check `prim.aes256ctr`. The theorems of C11 treat the keystream as a parameter. -/
namespace Tongo.Aes

def sbox : Array UInt8 := #[
  0x63, 0x7c, 0x77, 0x7b, 0xf2, 0x6b, 0x6f, 0xc5, 0x30, 0x01, 0x67, 0x2b, 0xfe, 0xd7, 0xab, 0x76,
  0xca, 0x82, 0xc9, 0x7d, 0xfa, 0x59, 0x47, 0xf0, 0xad, 0xd4, 0xa2, 0xaf, 0x9c, 0xa4, 0x72, 0xc0,
  0xb7, 0xfd, 0x93, 0x26, 0x36, 0x3f, 0xf7, 0xcc, 0x34, 0xa5, 0xe5, 0xf1, 0x71, 0xd8, 0x31, 0x15,
  0x04, 0xc7, 0x23, 0xc3, 0x18, 0x96, 0x05, 0x9a, 0x07, 0x12, 0x80, 0xe2, 0xeb, 0x27, 0xb2, 0x75,
  0x09, 0x83, 0x2c, 0x1a, 0x1b, 0x6e, 0x5a, 0xa0, 0x52, 0x3b, 0xd6, 0xb3, 0x29, 0xe3, 0x2f, 0x84,
  0x53, 0xd1, 0x00, 0xed, 0x20, 0xfc, 0xb1, 0x5b, 0x6a, 0xcb, 0xbe, 0x39, 0x4a, 0x4c, 0x58, 0xcf,
  0xd0, 0xef, 0xaa, 0xfb, 0x43, 0x4d, 0x33, 0x85, 0x45, 0xf9, 0x02, 0x7f, 0x50, 0x3c, 0x9f, 0xa8,
  0x51, 0xa3, 0x40, 0x8f, 0x92, 0x9d, 0x38, 0xf5, 0xbc, 0xb6, 0xda, 0x21, 0x10, 0xff, 0xf3, 0xd2,
  0xcd, 0x0c, 0x13, 0xec, 0x5f, 0x97, 0x44, 0x17, 0xc4, 0xa7, 0x7e, 0x3d, 0x64, 0x5d, 0x19, 0x73,
  0x60, 0x81, 0x4f, 0xdc, 0x22, 0x2a, 0x90, 0x88, 0x46, 0xee, 0xb8, 0x14, 0xde, 0x5e, 0x0b, 0xdb,
  0xe0, 0x32, 0x3a, 0x0a, 0x49, 0x06, 0x24, 0x5c, 0xc2, 0xd3, 0xac, 0x62, 0x91, 0x95, 0xe4, 0x79,
  0xe7, 0xc8, 0x37, 0x6d, 0x8d, 0xd5, 0x4e, 0xa9, 0x6c, 0x56, 0xf4, 0xea, 0x65, 0x7a, 0xae, 0x08,
  0xba, 0x78, 0x25, 0x2e, 0x1c, 0xa6, 0xb4, 0xc6, 0xe8, 0xdd, 0x74, 0x1f, 0x4b, 0xbd, 0x8b, 0x8a,
  0x70, 0x3e, 0xb5, 0x66, 0x48, 0x03, 0xf6, 0x0e, 0x61, 0x35, 0x57, 0xb9, 0x86, 0xc1, 0x1d, 0x9e,
  0xe1, 0xf8, 0x98, 0x11, 0x69, 0xd9, 0x8e, 0x94, 0x9b, 0x1e, 0x87, 0xe9, 0xce, 0x55, 0x28, 0xdf,
  0x8c, 0xa1, 0x89, 0x0d, 0xbf, 0xe6, 0x42, 0x68, 0x41, 0x99, 0x2d, 0x0f, 0xb0, 0x54, 0xbb, 0x16]

@[inline] def sub (b : UInt8) : UInt8 := sbox[b.toNat]!

/-- multiplication by x in GF(2^8) modulo x^8 + x^4 + x^3 + x + 1 -/
@[inline] def xtime (b : UInt8) : UInt8 := (b <<< 1) ^^^ (if b &&& 0x80 != 0 then 0x1b else 0)

/-- AES-256 key schedule: 32 key bytes → 15 round keys = 240 bytes (word i occupies bytes 4i..4i+3). -/
def expandKey (key : Array UInt8) : Array UInt8 := Id.run do
  let mut w : Array UInt8 := key.extract 0 32
  let mut rcon : UInt8 := 1
  for i in [8:60] do
    let p := 4 * (i - 1)
    let mut t0 := w[p]!
    let mut t1 := w[p+1]!
    let mut t2 := w[p+2]!
    let mut t3 := w[p+3]!
    if i % 8 == 0 then
      let r0 := sub t1 ^^^ rcon
      let r1 := sub t2
      let r2 := sub t3
      let r3 := sub t0
      t0 := r0; t1 := r1; t2 := r2; t3 := r3
      rcon := xtime rcon
    else if i % 8 == 4 then
      t0 := sub t0; t1 := sub t1; t2 := sub t2; t3 := sub t3
    let q := 4 * (i - 8)
    w := w.push (w[q]! ^^^ t0)
    w := w.push (w[q+1]! ^^^ t1)
    w := w.push (w[q+2]! ^^^ t2)
    w := w.push (w[q+3]! ^^^ t3)
  return w

/-- state layout: byte index 4c + r is row r, column c (FIPS 197 §3.4) -/
def addRoundKey (rk : Array UInt8) (round : Nat) (s : Array UInt8) : Array UInt8 :=
  Array.ofFn (n := 16) fun i => s[i.val]! ^^^ rk[16 * round + i.val]!

def subBytes (s : Array UInt8) : Array UInt8 := s.map sub

/-- row r is rotated left by r columns: new[4c + r] = old[4((c + r) mod 4) + r] -/
def shiftRows (s : Array UInt8) : Array UInt8 :=
  Array.ofFn (n := 16) fun i => let c := i.val / 4; let r := i.val % 4; s[4 * ((c + r) % 4) + r]!

def mixColumns (s : Array UInt8) : Array UInt8 := Id.run do
  let mut o : Array UInt8 := Array.mkEmpty 16
  for c in [0:4] do
    let a0 := s[4*c]!
    let a1 := s[4*c+1]!
    let a2 := s[4*c+2]!
    let a3 := s[4*c+3]!
    -- {02}·a ⊕ {03}·b = xtime a ⊕ xtime b ⊕ b
    o := o.push (xtime a0 ^^^ (xtime a1 ^^^ a1) ^^^ a2 ^^^ a3)
    o := o.push (a0 ^^^ xtime a1 ^^^ (xtime a2 ^^^ a2) ^^^ a3)
    o := o.push (a0 ^^^ a1 ^^^ xtime a2 ^^^ (xtime a3 ^^^ a3))
    o := o.push ((xtime a0 ^^^ a0) ^^^ a1 ^^^ a2 ^^^ xtime a3)
  return o

/-- one 16-byte block under an expanded AES-256 key (14 rounds) -/
def encryptBlock (rk : Array UInt8) (blk : Array UInt8) : Array UInt8 := Id.run do
  let mut s := addRoundKey rk 0 blk
  for round in [1:14] do
    s := addRoundKey rk round (mixColumns (shiftRows (subBytes s)))
  return addRoundKey rk 14 (shiftRows (subBytes s))

def bytesToNatBE (bs : List UInt8) : Nat := bs.foldl (fun acc b => acc * 256 + b.toNat) 0

def natToBytesBE (len n : Nat) : List UInt8 :=
  (List.range len).map fun i => UInt8.ofNat ((n >>> (8 * (len - 1 - i))) % 256)

/-- the j-th counter block: the 16-byte IV read as a big-endian 128-bit integer, plus j, modulo 2^128 -/
def ctrBlock (iv : List UInt8) (j : Nat) : Array UInt8 :=
  (natToBytesBE 16 ((bytesToNatBE (iv.take 16) + j) % 2 ^ 128)).toArray

/-- CTR keystream byte i (specification): byte i mod 16 of E_k(iv + i / 16). -/
def ksByte (key iv : List UInt8) (i : Nat) : UInt8 :=
  (encryptBlock (expandKey key.toArray) (ctrBlock iv (i / 16)))[i % 16]!

/-- the first n keystream bytes, computed block by block with one key expansion (what the driver uses) -/
def keystream (key iv : List UInt8) (n : Nat) : Array UInt8 := Id.run do
  let rk := expandKey key.toArray
  let mut out : Array UInt8 := Array.mkEmpty (n + 16)
  for j in [0:(n + 15) / 16] do
    out := out ++ encryptBlock rk (ctrBlock iv j)
  return out.extract 0 n

/-- CTR encryption/decryption of `data` starting at keystream offset `off` -/
def ctrXor (key iv : List UInt8) (off : Nat) (data : List UInt8) : List UInt8 :=
  let ks := keystream key iv (off + data.length)
  data.mapIdx fun i b => b ^^^ ks[off + i]!

end Tongo.Aes
