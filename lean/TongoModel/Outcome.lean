/-! Outcome of a modelled Go function: a value, a returned error, or a panic (index/slice out of range, nil
dereference, explicit panic). Partiality is explicit so that "never panics" theorems are not true by totalisation. -/
namespace Tongo

inductive Outcome (α : Type) where
  | ok (a : α)
  | err (e : String)
  | panic (p : String)
  deriving Repr, DecidableEq, Inhabited

namespace Outcome

@[inline] def bind {α β} (x : Outcome α) (f : α → Outcome β) : Outcome β :=
  match x with
  | ok a => f a
  | err e => err e
  | panic p => panic p

instance : Monad Outcome where
  pure := ok
  bind := bind

def isOk {α} : Outcome α → Bool | ok _ => true | _ => false
def isErr {α} : Outcome α → Bool | err _ => true | _ => false
def isPanic {α} : Outcome α → Bool | panic _ => true | _ => false

/-- canonical tag used on the wire by the driver: `ok`, `err`, `panic` -/
def tag {α} : Outcome α → String | ok _ => "ok" | err _ => "err" | panic _ => "panic"

@[simp] theorem bind_ok {α β} (a : α) (f : α → Outcome β) : (ok a >>= f) = f a := rfl
@[simp] theorem bind_err {α β} (e : String) (f : α → Outcome β) : (err e >>= f) = err e := rfl
@[simp] theorem bind_panic {α β} (p : String) (f : α → Outcome β) : (panic p >>= f) = panic p := rfl

end Outcome
end Tongo
