import TongoModel.Outcome
import TongoModel.Shard
import TongoModel.Prim.Crc16Fast
import TongoModel.Prim.Base64
import TongoModel.Prim.Base32
/-! Account addresses in all their forms (ton/account.go, liteclient/adnl.go), hand model mirroring the Go control flow.
Strings are byte lists (`List (BitVec 8)`): Go strings are byte sequences and every parser involved (`strconv.ParseInt`,
`encoding/hex`, `encoding/base64`, `encoding/base32`, `strings.IndexByte`) works on bytes. The only rune-aware calls are
`strings.Map` (friendly form) and `strings.ToUpper` (ADNL); on ASCII input they act bytewise, and the model answers
`err` for any input containing a byte ≥ 0x80 — see the `assumptions` of props/C17.py for the exact domain.
Core Lean only. -/
namespace Tongo.Address
open Tongo

abbrev Byte := BitVec 8
abbrev Str := List Byte

structure AccountID where
  wc : BitVec 32          -- int32 workchain
  addr : List Byte        -- [32]byte
  deriving DecidableEq, Repr

def AccountID.WF (a : AccountID) : Prop := a.addr.length = 32

/-! ### decimal and hexadecimal -/

/-- decimal digits of a natural number (fmt `%v` of a non-negative integer) -/
def natToDec (n : Nat) : Str :=
  if h : n < 10 then [BitVec.ofNat 8 (48 + n)] else natToDec (n / 10) ++ [BitVec.ofNat 8 (48 + n % 10)]
decreasing_by omega

/-- fmt `%v` of an int32 -/
def int32ToDec (w : BitVec 32) : Str :=
  if w.toInt < 0 then 45#8 :: natToDec w.toInt.natAbs else natToDec w.toInt.natAbs

def decDigit (c : Byte) : Option Nat := if 48 ≤ c.toNat ∧ c.toNat ≤ 57 then some (c.toNat - 48) else none

/-- value of a non-empty all-digit string (`strconv.ParseUint(s, 10, …)` without the range check) -/
def parseDecFrom (acc : Nat) : Str → Option Nat
  | [] => some acc
  | c :: rest => match decDigit c with
    | none => none
    | some d => parseDecFrom (acc * 10 + d) rest

def parseDec (s : Str) : Option Nat := if s.isEmpty then none else parseDecFrom 0 s

/-- `strconv.ParseInt(s, 10, 32)`: optional `+`/`-`, at least one digit, decimal digits only, leading zeros allowed,
range −2^31 … 2^31−1; `none` = syntax or range error -/
def parseInt32 (s : Str) : Option (BitVec 32) :=
  match s with
  | [] => none
  | c :: rest =>
    let neg := c = 45#8
    let body := if c = 43#8 ∨ c = 45#8 then rest else s
    match parseDec body with
    | none => none
    | some v =>
      if neg then (if v ≤ 2147483648 then some (BitVec.ofInt 32 (-(v : Int))) else none)
      else (if v ≤ 2147483647 then some (BitVec.ofNat 32 v) else none)

def hexDigit (v : BitVec 4) : Byte :=
  if v.toNat < 10 then BitVec.ofNat 8 (48 + v.toNat) else BitVec.ofNat 8 (87 + v.toNat)

def hexVal (c : Byte) : Option (BitVec 4) :=
  let n := c.toNat
  if 48 ≤ n ∧ n ≤ 57 then some (BitVec.ofNat 4 (n - 48))
  else if 97 ≤ n ∧ n ≤ 102 then some (BitVec.ofNat 4 (n - 87))
  else if 65 ≤ n ∧ n ≤ 70 then some (BitVec.ofNat 4 (n - 55))
  else none

/-- fmt `%x` of a byte array: two lower-case digits per byte -/
def hexEncode : List Byte → Str
  | [] => []
  | b :: rest => hexDigit (b.extractLsb' 4 4) :: hexDigit (b.extractLsb' 0 4) :: hexEncode rest

/-- `hex.DecodeString`: even length, both cases accepted -/
def hexDecode : Str → Option (List Byte)
  | [] => some []
  | [_] => none
  | a :: b :: rest =>
    match hexVal a, hexVal b with
    | some x, some y => (hexDecode rest).map (fun r => (x ++ y) :: r)
    | _, _ => none

/-! ### raw form -/

/-- AccountID.ToRaw: `fmt.Sprintf("%v:%x", Workchain, Address)` -/
def toRaw (a : AccountID) : Str := int32ToDec a.wc ++ 58#8 :: hexEncode a.addr

/-- split at the first `:` (`strings.IndexByte`) -/
def splitColon : Str → Option (Str × Str)
  | [] => none
  | c :: rest => if c = 58#8 then some ([], rest) else (splitColon rest).map (fun (p, q) => (c :: p, q))

/-- ton.AccountIDFromRaw: first colon, zero-fill of a short hex part to 64 digits, ParseInt, hex decode, length check -/
def fromRaw (s : Str) : Outcome AccountID :=
  match splitColon s with
  | none => .err "invalid account id format"
  | some (pre, post) =>
    let post := if post.length < 64 then List.replicate (64 - post.length) 48#8 ++ post else post
    match parseInt32 pre with
    | none => .err "ParseInt"
    | some w =>
      match hexDecode post with
      | none => .err "hex"
      | some a => if a.length ≠ 32 then .err "address len must be 32 bytes" else .ok ⟨w, a⟩

/-! ### user-friendly form -/

/-- tag byte: 0x11, bit 7 = testnet, bit 6 = NOT bounceable -/
def tagByte (bounce testnet : Bool) : Byte :=
  0x11#8 ||| (if testnet then 0x80#8 else 0#8) ||| (if !bounce then 0x40#8 else 0#8)

def be16 (v : BitVec 16) : List Byte := [v.extractLsb' 8 8, v.extractLsb' 0 8]

/-- the 36 payload bytes of the friendly form: tag, `byte(Workchain)` (TRUNCATION of the int32), address, CRC16 big-endian -/
def humanPayload (a : AccountID) (bounce testnet : Bool) : List Byte :=
  let body := tagByte bounce testnet :: a.wc.setWidth 8 :: a.addr
  body ++ be16 (Crc16.crc16 body)

/-- AccountID.ToHuman: base64url of the payload; `url := false` gives the same address in the standard alphabet -/
def toHumanAlpha (url : Bool) (a : AccountID) (bounce testnet : Bool) : Str :=
  Base64.encode url (humanPayload a bounce testnet)

def toHuman (a : AccountID) (bounce testnet : Bool) : Str := toHumanAlpha true a bounce testnet

/-- the `strings.Map` of AccountIDFromBase64Url: `+` → `-`, `/` → `_` -/
def mapStd (c : Byte) : Byte := if c = 43#8 then 45#8 else if c = 47#8 then 95#8 else c

/-- ton.AccountIDFromBase64Url: map the standard alphabet to the url alphabet, URLEncoding.DecodeString, 36 bytes,
checksum over the first 34 against the last two (big-endian), workchain = sign-extended second byte. The tag byte is
not inspected. -/
def fromBase64Url (s : Str) : Outcome AccountID :=
  match Base64.decode true (s.map mapStd) with
  | none => .err "base64"
  | some b =>
    if b.length ≠ 36 then .err "invalid account 'user friendly' form length"
    else if be16 (Crc16.crc16 (b.take 34)) ≠ b.drop 34 then .err "invalid checksum"
    else .ok ⟨(b.getD 1 0).signExtend 32, (b.drop 2).take 32⟩

/-- ton.ParseAccountID: raw form first, then the friendly form -/
def parseAccountID (s : Str) : Outcome AccountID :=
  match fromRaw s with
  | .ok a => .ok a
  | _ => fromBase64Url s

/-! ### root package: tongo.ParseAddress (account.go) -/

/-- `addressParser.ParseAddress` for strings that do not reach the DNS resolver: raw form first (bounceable), then the
friendly form read from whatever bytes `base64.URLEncoding.DecodeString` returned — the decoding error is IGNORED, so a
valid 48-character string followed by garbage is accepted —, 36 bytes, checksum; `Bounce` = tag bit 0x40 clear. Anything
else without a `.` is an error; with a `.` the resolver is asked (outside the model: `err "dns"`). Result `(id, bounce)`. -/
def parseAddress (s : Str) : Outcome (AccountID × Bool) :=
  match fromRaw s with
  | .ok a => .ok (a, true)
  | _ =>
    let b := (Base64.decodeP true (s.map mapStd)).1
    if b.length = 36 ∧ be16 (Crc16.crc16 (b.take 34)) = b.drop 34 then
      .ok (⟨(b.getD 1 0).signExtend 32, (b.drop 2).take 32⟩, (b.getD 0 0) &&& 0x40#8 == 0#8)
    else if s.contains 46#8 then .err "dns" else .err "can't decode address"

/-! ### JSON -/

/-- MarshalJSON: the raw form as a JSON string (it contains only `-0-9a-f:`; nothing to escape) -/
def toJSON (a : AccountID) : Str := 34#8 :: toRaw a ++ [34#8]

/-- characters of a JSON string body that need no decoding: printable ASCII except `"` and `\` -/
def jsonPlain (c : Byte) : Bool := 32 ≤ c.toNat && c.toNat < 127 && c != 34#8 && c != 92#8

/-- UnmarshalJSON restricted to documents of the form `"<plain characters>"` (no escapes, no surrounding whitespace —
outside this class the model answers `err`; the generator stays inside it): unquote, then ParseAccountID -/
def fromJSON (d : Str) : Outcome AccountID :=
  match d with
  | q :: rest =>
    if q = 34#8 ∧ rest.getLast? = some 34#8 ∧ rest.dropLast.all jsonPlain then parseAccountID rest.dropLast
    else .err "json"
  | [] => .err "json"

/-! ### TL -/

def le32 (v : BitVec 32) : List Byte :=
  [v.extractLsb' 0 8, v.extractLsb' 8 8, v.extractLsb' 16 8, v.extractLsb' 24 8]

/-- MarshalTL: little-endian int32 workchain, then the 32 address bytes -/
def toTL (a : AccountID) : List Byte := le32 a.wc ++ a.addr

/-- UnmarshalTL from a byte stream (`io.ReadFull` twice); the rest of the stream is left unread -/
def fromTL (b : List Byte) : Outcome AccountID :=
  if b.length < 4 then .err "EOF"
  else
    let w : BitVec 32 := b.getD 3 0 ++ b.getD 2 0 ++ b.getD 1 0 ++ b.getD 0 0
    if (b.drop 4).length < 32 then .err "EOF" else .ok ⟨w, (b.drop 4).take 32⟩

/-! ### TL-B (MsgAddress) -/

/-- tlb.MsgAddress as far as account ids are concerned -/
inductive MsgAddress where
  | none
  | extern (bits : List Bool)                                                          -- *boc.BitString, non-nil
  | std (anycast : Option (BitVec 32 × BitVec 32)) (wc : BitVec 8) (addr : List Byte)  -- anycast = (depth, rewrite_pfx)
  | var (anycast : Option (BitVec 32 × BitVec 32)) (len : BitVec 16) (wc : BitVec 32) (bits : List Bool)  -- AddrLen Uint9
  deriving DecidableEq, Repr

/-- (*AccountID).ToMsgAddress for a non-nil receiver: `int8(Workchain)` TRUNCATES the int32 -/
def toMsgAddress (a : AccountID) : MsgAddress := .std Option.none (a.wc.setWidth 8) a.addr

/-- the first 4 bytes of the address replaced by the anycast rewrite (big-endian uint32) -/
def rewriteAddr (addr : List Byte) (depth pfx : BitVec 32) : List Byte :=
  let p : BitVec 32 := addr.getD 0 0 ++ addr.getD 1 0 ++ addr.getD 2 0 ++ addr.getD 3 0
  let q := Shard.anycastRewriteExec p depth pfx
  [q.extractLsb' 24 8, q.extractLsb' 16 8, q.extractLsb' 8 8, q.extractLsb' 0 8] ++ addr.drop 4

/-- ton.AccountIDFromTlb: `ok none` is the Go `(nil, nil)` -/
def fromTlb (m : MsgAddress) : Outcome (Option AccountID) :=
  match m with
  | .none | .extern _ => .ok Option.none
  | .std ac wc addr =>
    let addr := match ac with
      | Option.none => addr
      | some (d, p) => rewriteAddr addr d p
    .ok (some ⟨wc.signExtend 32, addr⟩)
  | .var _ _ _ _ => .err "can not convert not std address to AccountId"

/-- bits of a value, most significant first -/
def bitsMsb {n : Nat} (v : BitVec n) : List Bool := (List.range n).map (fun i => v.getMsbD i)

/-- the TL-B serialisation `addr_std$10 anycast:(Maybe Anycast) workchain_id:int8 address:bits256` (and `addr_none$00`);
anycast `depth:(#<= 30)` is 5 bits followed by `depth` bits of rewrite_pfx -/
def anycastBits : Option (BitVec 32 × BitVec 32) → List Bool
  | Option.none => [false]
  | some (d, p) => true :: bitsMsb (d.setWidth 5) ++ (bitsMsb p).drop (32 - d.toNat)

def tlbBits : MsgAddress → Option (List Bool)
  | .none => some [false, false]
  | .std ac wc addr =>
    let acb := match ac with
      | Option.none => [false]
      | some (d, p) => true :: bitsMsb (d.setWidth 5) ++ (bitsMsb p).drop (32 - d.toNat)
    some ([true, false] ++ acb ++ bitsMsb wc ++ addr.flatMap bitsMsb)
  | .extern bits =>
    -- addr_extern$01 len:(## 9) external_address:(bits len); MarshalTLB refuses more than 511 bits
    if bits.length > 511 then Option.none
    else some ([false, true] ++ bitsMsb (BitVec.ofNat 9 bits.length) ++ bits)
  | .var ac len wc bits =>
    -- addr_var$11 anycast addr_len:(## 9) workchain_id:int32 address:(bits addr_len): Go writes the low 9 bits of the
    -- AddrLen FIELD and then all bits of Address, whatever their number
    some ([true, true] ++ anycastBits ac ++ bitsMsb (len.setWidth 9) ++ bitsMsb wc ++ bits)

def natOfBits (bs : List Bool) : Nat := bs.foldl (fun a b => 2 * a + (if b then 1 else 0)) 0

def bytesOfBits : Nat → List Bool → List Byte
  | 0, _ => []
  | n + 1, bs => BitVec.ofNat 8 (natOfBits (bs.take 8)) :: bytesOfBits n (bs.drop 8)

/-- `Maybe Anycast` at the head of a bit string: the value and the rest -/
def parseAnycastBits (r : List Bool) : Outcome (Option (BitVec 32 × BitVec 32) × List Bool) :=
  match r with
  | [] => .err "eof"
  | false :: r => .ok (Option.none, r)
  | true :: r =>
    if r.length < 5 then .err "eof" else
    let d := natOfBits (r.take 5)
    if d < 1 then .err "invalid anycast depth" else
    let r := r.drop 5
    if r.length < d then .err "eof" else
    .ok (some (BitVec.ofNat 32 d, BitVec.ofNat 32 (natOfBits (r.take d))), r.drop d)

/-- MsgAddress.UnmarshalTLB on the bits of a cell (all four constructors; the layout is proved equal to the TL-B
schema spec of the TL-B slice, `Tongo.Tlb.specMsgAddress`, in TongoProofs/Lemmas/AddrTlbSpec.lean) -/
def parseTlbBits (bs : List Bool) : Outcome MsgAddress :=
  match bs with
  | false :: false :: _ => .ok .none
  | true :: false :: rest =>
    match rest with
    | [] => .err "eof"
    | false :: r =>
      if r.length < 264 then .err "eof"
      else .ok (.std Option.none (BitVec.ofNat 8 (natOfBits (r.take 8))) (bytesOfBits 32 (r.drop 8)))
    | true :: r =>
      if r.length < 5 then .err "eof" else
      let d := natOfBits (r.take 5)
      if d < 1 then .err "invalid anycast depth" else
      let r := r.drop 5
      if r.length < d then .err "eof" else
      let p := natOfBits (r.take d)
      let r := r.drop d
      if r.length < 264 then .err "eof"
      else .ok (.std (some (BitVec.ofNat 32 d, BitVec.ofNat 32 p)) (BitVec.ofNat 8 (natOfBits (r.take 8))) (bytesOfBits 32 (r.drop 8)))
  | false :: true :: rest =>
    -- addr_extern: 9-bit length, then that many bits
    if rest.length < 9 then .err "eof" else
    let ln := natOfBits (rest.take 9)
    let r := rest.drop 9
    if r.length < ln then .err "eof" else .ok (.extern (r.take ln))
  | true :: true :: rest =>
    -- addr_var: Maybe Anycast, 9-bit length, int32 workchain, that many bits
    match parseAnycastBits rest with
    | .err e => .err e
    | .panic p => .panic p
    | .ok (ac, r) =>
      if r.length < 9 then .err "eof" else
      let ln := natOfBits (r.take 9)
      let r := r.drop 9
      if r.length < 32 then .err "eof" else
      let wc := BitVec.ofNat 32 (natOfBits (r.take 32))
      let r := r.drop 32
      if r.length < ln then .err "eof" else .ok (.var ac (BitVec.ofNat 16 ln) wc (r.take ln))
  | _ => .err "eof"

/-! ### shards and account ids (ton/shards.go ShardID.MatchAccountID on the AccountID itself) -/

/-- `binary.BigEndian.Uint64(a.Address[:8])` -/
def be64 (bs : List Byte) : BitVec 64 :=
  bs.getD 0 0 ++ bs.getD 1 0 ++ bs.getD 2 0 ++ bs.getD 3 0 ++ bs.getD 4 0 ++ bs.getD 5 0 ++ bs.getD 6 0 ++ bs.getD 7 0

/-- ShardID.MatchAccountID: the mask/prefix test on the first 8 address bytes read big-endian -/
def matchAccountID (s : Shard.ShardID) (a : AccountID) : Bool := Shard.matchPrefix s (be64 a.addr)

/-- bit `i` of an address, most significant bit of byte 0 first (the order in which shard prefixes and anycast
prefixes are matched against an address) -/
def addrBit (addr : List Byte) (i : Nat) : Bool := (addr.getD (i / 8) 0).getMsbD (i % 8)

/-! ### ADNL address, base32 form -/

def toLower (c : Byte) : Byte := if 65 ≤ c.toNat ∧ c.toNat ≤ 90 then c + 32#8 else c
def toUpper (c : Byte) : Byte := if 97 ≤ c.toNat ∧ c.toNat ≤ 122 then c - 32#8 else c

/-- liteclient.ADNLAddressToBase32: base32 of `0x2d ++ addr ++ crc16 (big-endian)`, first character dropped, lower case -/
def adnlToBase32 (addr : List Byte) : Str :=
  let a := 0x2d#8 :: addr
  ((Base32.encode (a ++ be16 (Crc16.crc16 a))).drop 1).map toLower

def adnlSuffix : Str := [46#8, 97#8, 100#8, 110#8, 108#8]  -- ".adnl"

def trimSuffix (s suf : Str) : Str :=
  if suf.length ≤ s.length ∧ s.drop (s.length - suf.length) = suf then s.take (s.length - suf.length) else s

/-- liteclient.ParseADNLAddress (with the length check on the decoded bytes, see known_findings/fix): trim `.adnl`,
55 characters, base32-decode `F` ++ upper case, first byte 0x2d, checksum -/
def parseADNL (s : Str) : Outcome (List Byte) :=
  let s := trimSuffix s adnlSuffix
  if s.length ≠ 55 then .err "wrong adnl address length"
  else if s.any (fun c => c.toNat ≥ 128) then .err "non-ascii"
  else match Base32.decode (70#8 :: s.map toUpper) with
    | Option.none => .err "failed to decode address"
    | some buf =>
      if buf.length ≠ 35 then .err "wrong adnl address length"
      else if buf.getD 0 0 ≠ 0x2d#8 then .err "invalid first byte"
      else if be16 (Crc16.crc16 (buf.take 33)) ≠ buf.drop 33 then .err "invalid address"
      else .ok ((buf.drop 1).take 32)

end Tongo.Address
