import TongoModel.BitString
/-! Operation sequences over a bit string — the vocabulary of property C06 — with two interpretations:
`Op.run` on the byte-level model of `boc.BitString` and `Op.spec` on an ideal bit list (`Tongo.Bits`). The driver
executes `Op.run`; theorem `C06.ops_sequence` says both give the same outputs. -/
namespace Tongo
open Tongo.Bits

namespace BitString

/-- abstraction: the written bits -/
def abs (s : BitString) : List Bool := (bytesToBits s.buf).take s.len

/-- representation invariant: length within capacity, capacity within the buffer, cursor within the length, and
all buffer bits from `len` on are zero ("tail clean": the buffer is the canonical encoding of the written bits) -/
def Inv (s : BitString) : Prop :=
  s.len ≤ s.cap ∧ s.cap ≤ 8 * s.buf.length ∧ s.rCursor ≤ s.len ∧
  (bytesToBits s.buf).drop s.len = List.replicate (8 * s.buf.length - s.len) false

instance (s : BitString) : Decidable (Inv s) := by unfold Inv; exact inferInstance

/-- canonical bit string holding `l` (capacity = length): what `NewBitString(len)` + `WriteBit…` builds -/
def ofBits (l : List Bool) : BitString := (writeBitArray l (new l.length)).2

end BitString

/-- value returned by one operation -/
inductive Out where
  | unit
  | bool (b : Bool)
  | nat (n : Nat)
  | int (i : Int)
  | bytes (l : List UInt8)
  /-- a bit string returned by the implementation -/
  | bs (r : BitString)
  /-- the bits returned by the specification -/
  | bits (l : List Bool)
  deriving Repr, DecidableEq, Inhabited

/-- outputs are compared up to abstraction of returned bit strings -/
def Out.norm : Out → Out
  | .bs r => .bits r.abs
  | o => o

inductive Op where
  | writeBit (b : Bool)
  | writeBitArray (l : List Bool)
  | writeUint (v n : Nat)
  | writeInt (v : Int) (n : Nat)
  | writeByte (b : UInt8)
  | writeBytes (l : List UInt8)
  | writeBitString (src : BitString)
  | writeBigUint (v : Int) (n : Nat)
  | writeBigInt (v : Int) (n : Nat)
  | writeUnary (n : Nat)
  | writeLimUint (v n : Nat)
  | readBit
  | skip (n : Nat)
  | readUint (n : Nat)
  | pickUint (n : Nat)
  | readInt (n : Nat)
  | readByte
  | readBytes (n : Nat)
  | readBits (n : Nat)
  | readRemainingBits
  | readBigUint (n : Nat)
  | readBigInt (n : Nat)
  | readUnary
  | readLimUint (n : Nat)
  | resetCounter
  | grow (n : Nat)
  | append (src : BitString)
  | copy
  deriving Repr, DecidableEq, Inhabited

namespace Op
open BitString

def unitOut (x : M Unit) : M Out := do x; pure Out.unit

/-- the operation on the byte-level model -/
def run : Op → M Out
  | .writeBit b => unitOut (BitString.writeBit b)
  | .writeBitArray l => unitOut (BitString.writeBitArray l)
  | .writeUint v n => unitOut (BitString.writeUint v n)
  | .writeInt v n => unitOut (BitString.writeInt v n)
  | .writeByte b => unitOut (BitString.writeByte b)
  | .writeBytes l => unitOut (BitString.writeBytes l)
  | .writeBitString src => unitOut (BitString.writeBitString src)
  | .writeBigUint v n => unitOut (BitString.writeBigUint v n)
  | .writeBigInt v n => unitOut (BitString.writeBigInt v n)
  | .writeUnary n => unitOut (BitString.writeUnary n)
  | .writeLimUint v n => unitOut (BitString.writeLimUint v n)
  | .readBit => do let b ← BitString.readBit; pure (.bool b)
  | .skip n => unitOut (BitString.skip n)
  | .readUint n => do let v ← BitString.readUint n; pure (.nat v)
  | .pickUint n => do let v ← BitString.pickUint n; pure (.nat v)
  | .readInt n => do let v ← BitString.readInt n; pure (.int v)
  | .readByte => do let b ← BitString.readByte; pure (.nat b.toNat)
  | .readBytes n => do let l ← BitString.readBytes n; pure (.bytes l)
  | .readBits n => do let r ← BitString.readBits n; pure (.bs r)
  | .readRemainingBits => do let r ← BitString.readRemainingBits; pure (.bs r)
  | .readBigUint n => do let v ← BitString.readBigUint n; pure (.nat v)
  | .readBigInt n => do let v ← BitString.readBigInt n; pure (.int v)
  | .readUnary => do let v ← BitString.readUnary; pure (.nat v)
  | .readLimUint n => do let v ← BitString.readLimUint n; pure (.nat v)
  | .resetCounter => unitOut BitString.resetCounter
  | .grow n => unitOut (BitString.grow n)
  | .append src => unitOut (BitString.append src)
  | .copy => unitOut (BitString.modify BitString.copy)

/-- run a list of operations: the outcome of every operation, stopping after the first panic (Go would unwind) -/
def runAll : List Op → BitString → List (Outcome Out) × BitString
  | [], s => ([], s)
  | op :: rest, s =>
    match op.run s with
    | (.panic p, s') => ([.panic p], s')
    | (r, s') => let (rs, s'') := runAll rest s'; (r :: rs, s'')

end Op

/-! ## The specification: an ideal bit list with a capacity and a read position -/

structure Ideal where
  bits : List Bool
  cap : Nat
  pos : Nat
  deriving Repr, DecidableEq, Inhabited

namespace Ideal

def SM (α : Type) := Ideal → Outcome α × Ideal

/-- append `l` if it fits; otherwise append the prefix that fits and report overflow (previous bits intact) -/
def write (l : List Bool) : SM Out := fun t =>
  if t.bits.length + l.length ≤ t.cap then (.ok .unit, { t with bits := t.bits ++ l })
  else (.err BitString.errOverflow, { t with bits := t.bits ++ l.take (t.cap - t.bits.length) })

def fail (e : String) : SM Out := fun t => (.err e, t)

/-- `write (replicate n true ++ [false])` computed without materialising the `n` ones (`n` is a Go `uint`, up to
2^64 − 1): the code of `WriteUnary` on the ideal state. Equal to that `write` by `writeUnary_spec_eq`. -/
def writeUnary (n : Nat) : SM Out := fun t =>
  if t.bits.length + (n + 1) ≤ t.cap then (.ok .unit, { t with bits := t.bits ++ (List.replicate n true ++ [false]) })
  else (.err BitString.errOverflow, { t with bits := t.bits ++ List.replicate (t.cap - t.bits.length) true })

/-- the next `n` unread bits, if there are that many -/
def peek (t : Ideal) (n : Nat) : Option (List Bool) :=
  if t.bits.length < t.pos + n then none else some ((t.bits.drop t.pos).take n)

/-- read `n` bits and convert them with `f`; the position moves only on success -/
def read (n : Nat) (f : List Bool → Out) : SM Out := fun t =>
  match t.peek n with
  | none => (.err BitString.errNotEnough, t)
  | some l => (.ok (f l), { t with pos := t.pos + n })

/-- bit length of a number (0 for 0) -/
def bitLength (n : Nat) : Nat := if n = 0 then 0 else Nat.log2 n + 1

end Ideal

namespace Op
open Ideal

/-- the operation on the ideal bit list -/
def spec : Op → SM Out
  | .writeBit b => write [b]
  | .writeBitArray l => write l
  | .writeUint v n => write (natToBits n v)
  | .writeInt v n =>
    if n = 0 then fail "integer can't be zero size"
    else if v < -(2 : Int) ^ (n - 1) ∨ v ≥ (2 : Int) ^ (n - 1) then
      -- not representable: width 1 is rejected; wider fields keep the sign bit and truncate the magnitude (as WriteUint does)
      if n = 1 then fail "bit length is too small"
      else write ((decide (v < 0)) :: natToBits (n - 1) (v % (2 : Int) ^ 64).toNat)
    else write (intToBits n v)
  | .writeByte b => write (byteToBits b)
  | .writeBytes l => write (bytesToBits l)
  | .writeBitString src => write src.abs
  | .writeBigUint v n =>
    if n = 0 ∨ BitString.bigBitLen v > n then fail "bit length is too small"
    else write (natToBits n v.toNat)
  | .writeBigInt v n => write (intToBits n v)
  | .writeUnary n => Ideal.writeUnary n
  | .writeLimUint v n => write (natToBits (bitLength n) v)
  | .readBit => read 1 fun l => .bool (l.headD false)
  | .skip n => read n fun _ => .unit
  | .readUint n => if n > 64 then fail "too much bits for uint64" else read n fun l => .nat (bitsToNat l)
  | .pickUint n => fun t =>
    if n > 64 then (.err "too much bits for uint64", t)
    else match t.peek n with
      | none => (.err BitString.errNotEnough, t)
      | some l => (.ok (.nat (bitsToNat l)), t)
  | .readInt n =>
    if n > 64 then fail "too much bits for int64"
    else if n = 0 then fail "integer can't be zero size"
    else read n fun l => .int (bitsToInt l)
  | .readByte => read 8 fun l => .nat (bitsToNat l)
  | .readBytes n => read (n * 8) fun l => .bytes (bitsToBytes l)
  | .readBits n => read n fun l => .bits l
  | .readRemainingBits => fun t => read (t.bits.length - t.pos) (fun l => .bits l) t
  | .readBigUint n => read n fun l => .nat (bitsToNat l)
  | .readBigInt n => read n fun l => .int (bitsToInt l)
  | .readUnary => fun t =>
    let rest := t.bits.drop t.pos
    let ones := rest.takeWhile (· == true)
    if ones.length < rest.length then (.ok (.nat ones.length), { t with pos := t.pos + ones.length + 1 })
    else (.err BitString.errNotEnough, { t with pos := t.bits.length })  -- ran off the end: the ones are consumed
  | .readLimUint n => read (bitLength n) fun l => .nat (bitsToNat l)
  | .resetCounter => fun t => (.ok .unit, { t with pos := 0 })
  | .grow n => fun t => (.ok .unit, { t with cap := t.cap + n })
  | .append src => fun t =>
    (.ok .unit, { t with bits := t.bits ++ src.abs, cap := if src.len + t.bits.length > t.cap then src.len + t.bits.length else t.cap })
  | .copy => fun t => (.ok .unit, { t with pos := 0 })

def specAll : List Op → Ideal → List (Outcome Out) × Ideal
  | [], t => ([], t)
  | op :: rest, t =>
    match op.spec t with
    | (.panic p, t') => ([.panic p], t')
    | (r, t') => let (rs, t'') := specAll rest t'; (r :: rs, t'')

/-- well-formedness of an operation: the domain over which `ops_sequence` is stated (all decidable) -/
def WF : Op → Prop
  | .writeInt v n => -(2 : Int) ^ 63 ≤ v ∧ v < (2 : Int) ^ 63 ∧ n ≤ 64  -- an int64, width 0..64
  | .writeUint v _ => v < 2 ^ 64                                        -- a uint64
  | .writeLimUint v n => v < 2 ^ 64 ∧ n < 2 ^ 64
  | .readLimUint n => n < 2 ^ 64
  | .writeBigUint v _ => 0 ≤ v                                          -- unsigned
  | .writeBigInt v n => n ≥ 1 ∧ -(2 : Int) ^ (n - 1) ≤ v ∧ v < (2 : Int) ^ (n - 1)   -- representable
  | .writeBitString src => src.len ≤ 8 * src.buf.length                 -- the source holds its bits
  | .append src => src.len ≤ 8 * src.buf.length
  | _ => True

instance : (op : Op) → Decidable op.WF
  | .writeInt _ _ => by unfold WF; exact inferInstance
  | .writeUint _ _ => by unfold WF; exact inferInstance
  | .writeLimUint _ _ => by unfold WF; exact inferInstance
  | .readLimUint _ => by unfold WF; exact inferInstance
  | .writeBigUint _ _ => by unfold WF; exact inferInstance
  | .writeBigInt _ _ => by unfold WF; exact inferInstance
  | .writeBitString _ => by unfold WF; exact inferInstance
  | .append _ => by unfold WF; exact inferInstance
  | .writeBit _ | .writeBitArray _ | .writeByte _ | .writeBytes _ | .writeUnary _ | .readBit | .skip _ | .readUint _
  | .pickUint _ | .readInt _ | .readByte | .readBytes _ | .readBits _ | .readRemainingBits | .readBigUint _
  | .readBigInt _ | .readUnary | .resetCounter | .grow _ | .copy => by unfold WF; exact inferInstance

end Op

/-! ## Go `int` arguments: negative values

`Op` takes natural numbers. `ZOp` is the same vocabulary with the Go `int` parameters as integers; a negative value
takes the branch the (repaired) Go code takes — an error for `Skip`, every reader, `WriteInt`, `WriteBigUint`;
nothing written for `WriteUint`; a sign bit and then an error for `WriteBigInt` (also for width 0); the uint64 image for the
two arguments of `WriteLimUint` / the bound of `ReadLimUint`. `Grow` keeps a natural argument (a negative `Grow` shrinks the
capacity, possibly below the length or below zero: outside the model). -/

inductive ZOp where
  | op (o : Op)
  | writeUint (v : Nat) (n : Int)
  | writeInt (v : Int) (n : Int)
  | writeBigUint (v : Int) (n : Int)
  | writeBigInt (v : Int) (n : Int)
  | writeLimUint (v n : Int)
  | skip (n : Int)
  | readUint (n : Int)
  | pickUint (n : Int)
  | readInt (n : Int)
  | readBytes (n : Int)
  | readBits (n : Int)
  | readBigUint (n : Int)
  | readBigInt (n : Int)
  | readLimUint (n : Int)
  deriving Repr, DecidableEq, Inhabited

namespace ZOp
open BitString

def failNeg : M Out := Op.unitOut (throwErr errNegative)

/-- `On(n)` / `Off(n)` as operations (direct bit set / clear, `n < 0 || n >= cap` is the overflow error); not part of
`ZOp`: a position at or beyond the written length dirties the buffer tail (see `C06.onOff_refines`) -/
def onOff (v : Bool) (n : Int) : M Out :=
  if n < 0 then Op.unitOut (throwErr errOverflow)
  else Op.unitOut (if v then BitString.on n.toNat else BitString.off n.toNat)

/-- the operation on the byte-level model -/
def run : ZOp → M Out
  | .op o => o.run
  | .writeUint v n => if n < 0 then pure .unit else (Op.writeUint v n.toNat).run
  | .writeInt v n => if n < 0 then Op.unitOut (throwErr "integer can't be zero size") else (Op.writeInt v n.toNat).run
  | .writeBigUint v n => if n < 0 then Op.unitOut (throwErr "bit length is too small") else (Op.writeBigUint v n.toNat).run
  | .writeBigInt v n =>
    if n ≤ 0 then Op.unitOut (do BitString.writeBit (decide (v < 0)); throwErr "bit length is too small")
    else (Op.writeBigInt v n.toNat).run
  | .writeLimUint v n => (Op.writeLimUint (u64OfInt v) (u64OfInt n)).run
  | .skip n => if n < 0 then failNeg else (Op.skip n.toNat).run
  | .readUint n => if n < 0 then failNeg else (Op.readUint n.toNat).run
  | .pickUint n => if n < 0 then failNeg else (Op.pickUint n.toNat).run
  | .readInt n => if n < 0 then failNeg else (Op.readInt n.toNat).run
  | .readBytes n => if n < 0 then failNeg else (Op.readBytes n.toNat).run
  | .readBits n => if n < 0 then failNeg else (Op.readBits n.toNat).run
  | .readBigUint n => if n < 0 then failNeg else (Op.readBigUint n.toNat).run
  | .readBigInt n => if n < 0 then failNeg else (Op.readBigInt n.toNat).run
  | .readLimUint n => (Op.readLimUint (u64OfInt n)).run

/-- direct bit set / clear on the ideal state, for positions below the written length -/
def specOnOff (v : Bool) (n : Int) : Ideal.SM Out := fun t =>
  if n < 0 ∨ n.toNat ≥ t.cap then (.err errOverflow, t)
  else (.ok .unit, { t with bits := t.bits.set n.toNat v })

/-- the operation on the ideal bit list -/
def spec : ZOp → Ideal.SM Out
  | .op o => o.spec
  | .writeUint v n => if n < 0 then fun t => (.ok .unit, t) else (Op.writeUint v n.toNat).spec
  | .writeInt v n => if n < 0 then Ideal.fail "integer can't be zero size" else (Op.writeInt v n.toNat).spec
  | .writeBigUint v n => if n < 0 then Ideal.fail "bit length is too small" else (Op.writeBigUint v n.toNat).spec
  | .writeBigInt v n =>
    if n ≤ 0 then fun t =>
      match Ideal.write [decide (v < 0)] t with
      | (.ok _, t') => (.err "bit length is too small", t')
      | r => r
    else (Op.writeBigInt v n.toNat).spec
  | .writeLimUint v n => (Op.writeLimUint (u64OfInt v) (u64OfInt n)).spec
  | .skip n => if n < 0 then Ideal.fail errNegative else (Op.skip n.toNat).spec
  | .readUint n => if n < 0 then Ideal.fail errNegative else (Op.readUint n.toNat).spec
  | .pickUint n => if n < 0 then Ideal.fail errNegative else (Op.pickUint n.toNat).spec
  | .readInt n => if n < 0 then Ideal.fail errNegative else (Op.readInt n.toNat).spec
  | .readBytes n => if n < 0 then Ideal.fail errNegative else (Op.readBytes n.toNat).spec
  | .readBits n => if n < 0 then Ideal.fail errNegative else (Op.readBits n.toNat).spec
  | .readBigUint n => if n < 0 then Ideal.fail errNegative else (Op.readBigUint n.toNat).spec
  | .readBigInt n => if n < 0 then Ideal.fail errNegative else (Op.readBigInt n.toNat).spec
  | .readLimUint n => (Op.readLimUint (u64OfInt n)).spec

/-- well-formedness: only what the Go types already guarantee (uint64 / int64 value ranges) plus the value-level
conditions of `Op.WF` for non-negative widths; nothing is assumed about the sign of an `int` argument -/
def WF : ZOp → Prop
  | .op o => o.WF
  | .writeUint v _ => v < 2 ^ 64
  | .writeInt v n => -(2 : Int) ^ 63 ≤ v ∧ v < (2 : Int) ^ 63 ∧ n ≤ 64
  | .writeBigUint v _ => 0 ≤ v
  | .writeBigInt v n => n ≤ 0 ∨ (-(2 : Int) ^ (n.toNat - 1) ≤ v ∧ v < (2 : Int) ^ (n.toNat - 1))
  | _ => True

instance : (z : ZOp) → Decidable z.WF
  | .op o => by unfold WF; exact inferInstance
  | .writeUint _ _ => by unfold WF; exact inferInstance
  | .writeInt _ _ => by unfold WF; exact inferInstance
  | .writeBigUint _ _ => by unfold WF; exact inferInstance
  | .writeBigInt _ _ => by unfold WF; exact inferInstance
  | .writeLimUint _ _ | .skip _ | .readUint _ | .pickUint _ | .readInt _ | .readBytes _ | .readBits _
  | .readBigUint _ | .readBigInt _ | .readLimUint _ => by unfold WF; exact inferInstance

def runAll : List ZOp → BitString → List (Outcome Out) × BitString
  | [], s => ([], s)
  | z :: rest, s =>
    match z.run s with
    | (.panic p, s') => ([.panic p], s')
    | (r, s') => let (rs, s'') := runAll rest s'; (r :: rs, s'')

def specAll : List ZOp → Ideal → List (Outcome Out) × Ideal
  | [], t => ([], t)
  | z :: rest, t =>
    match z.spec t with
    | (.panic p, t') => ([.panic p], t')
    | (r, t') => let (rs, t'') := specAll rest t'; (r :: rs, t'')

end ZOp
end Tongo
