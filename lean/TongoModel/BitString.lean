import TongoModel.Bits
import TongoModel.Outcome
import TongoModel.Prim.Hex
/-! Byte-level model of `boc/bitString.go` (type `BitString`) — method by method, with Go's byte arithmetic, explicit
errors and explicit panics (index / slice out of range). The model describes the REPAIRED code (see
known_findings.txt `fixed:` entries for C06): `ReadBigUint` keeps the leading partial byte, the aligned path of
`ReadBits` masks the last byte, `WriteInt` rejects width 0 and unrepresentable width-1 values,
`Cell.setTopUppedArray` allocates the full 128-byte buffer. The pre-repair behaviour is kept as `…Old` definitions only
where a witness theorem needs it.

Conventions. Go `int` arguments (widths, counts, indices) are modelled as `Nat`: negative arguments are outside the
model (and outside property C06). `uint64` values are `Nat`s `< 2^64`; where Go's arithmetic can wrap, `% 2^64` is
explicit. A Go method mutates its receiver even when it returns an error (a multi-bit write that overflows has already
written a prefix), therefore every method is a state transformer `M α = BitString → Outcome α × BitString` that returns
the state in all three outcomes. Slicing `b[i:j]` panics when `j > len b` (Go checks against the slice capacity; all
buffers here are produced by `make`, whose capacity equals the length, except after `Grow`/`append`, where the model
may panic although Go reads zero bytes from the spare capacity — unreachable while `len ≤ 8·|buf|`). -/
namespace Tongo

structure BitString where
  buf : List UInt8
  cap : Nat
  len : Nat
  rCursor : Nat
  deriving Repr, DecidableEq, Inhabited

namespace BitString

/-- state transformer with Go-like outcome; the state survives errors and panics -/
def M (α : Type) := BitString → Outcome α × BitString

@[inline] def M.pure {α} (a : α) : M α := fun s => (.ok a, s)
@[inline] def M.bind {α β} (x : M α) (f : α → M β) : M β := fun s =>
  match x s with
  | (.ok a, s') => f a s'
  | (.err e, s') => (.err e, s')
  | (.panic p, s') => (.panic p, s')

instance : Monad M where
  pure := M.pure
  bind := M.bind

@[inline] def get : M BitString := fun s => (.ok s, s)
@[inline] def set (s : BitString) : M Unit := fun _ => (.ok (), s)
@[inline] def modify (f : BitString → BitString) : M Unit := fun s => (.ok (), f s)
/-- lift a state-independent outcome -/
@[inline] def liftO {α} (o : Outcome α) : M α := fun s =>
  match o with
  | .ok a => (.ok a, s)
  | .err e => (.err e, s)
  | .panic p => (.panic p, s)
@[inline] def throwErr {α} (e : String) : M α := fun s => (.err e, s)
@[inline] def throwPanic {α} (p : String) : M α := fun s => (.panic p, s)
/-- `_ = f()` / a call whose error result is ignored (panics still propagate) -/
@[inline] def ignoreErr (x : M Unit) : M Unit := fun s =>
  match x s with
  | (.err _, s') => (.ok (), s')
  | r => r
/-- run a computation on another bit string (a local variable), returning its result and final state -/
@[inline] def onOther {α} (o : BitString) (x : M α) : M (α × BitString) := fun s =>
  match x o with
  | (.ok a, o') => (.ok (a, o'), s)
  | (.err e, _) => (.err e, s)
  | (.panic p, _) => (.panic p, s)

def errOverflow := "BitString overflow"
def errNotEnough := "not enough bits"
def errNegative := "negative bit length"
def panicIndex := "index out of range"
def panicSlice := "slice bounds out of range"

/-- `NewBitString(bitLen)`: `make([]byte, ((bitLen+7)&-8)/8)` -/
def new (bitLen : Nat) : BitString :=
  { buf := List.replicate ((bitLen + 7) / 8) 0, cap := bitLen, len := 0, rCursor := 0 }

def bitsAvailableForWrite (s : BitString) : Int := (s.cap : Int) - s.len
def bitsAvailableForRead (s : BitString) : Int := (s.len : Int) - s.rCursor

/-- the mask `1 << (7 - (n & 7))` as a byte -/
def bitMask (n : Nat) : UInt8 := (1 : UInt8) <<< UInt8.ofNat (7 - n % 8)

/-- `checkRange` -/
def checkRange (n : Nat) : M Unit := fun s =>
  if n ≥ s.cap then (.err errOverflow, s) else (.ok (), s)

/-- `On(n)`: `s.buf[n/8] |= 1 << (7 - n&7)` -/
def on (n : Nat) : M Unit := do
  checkRange n
  let s ← get
  match s.buf[n / 8]? with
  | none => throwPanic panicIndex
  | some b => modify fun s => { s with buf := s.buf.set (n / 8) (b ||| bitMask n) }

/-- `Off(n)`: `s.buf[n/8] &= ^(1 << (7 - n&7))` -/
def off (n : Nat) : M Unit := do
  checkRange n
  let s ← get
  match s.buf[n / 8]? with
  | none => throwPanic panicIndex
  | some b => modify fun s => { s with buf := s.buf.set (n / 8) (b &&& ~~~ bitMask n) }

/-- `mustGetBit(n)` on a given bit string (panics out of range) -/
def getBitOf (s : BitString) (n : Nat) : Outcome Bool :=
  match s.buf[n / 8]? with
  | none => .panic panicIndex
  | some b => .ok (b &&& bitMask n > 0)

def mustGetBit (n : Nat) : M Bool := do
  let s ← get
  liftO (getBitOf s n)

def advance (n : Nat) : M Unit := modify fun s => { s with rCursor := s.rCursor + n }

/-- `mustReadBit` -/
def mustReadBit : M Bool := do
  let s ← get
  let bit ← mustGetBit s.rCursor
  advance 1
  pure bit

/-- the guard `s.BitsAvailableForRead() < n` (as `len < rCursor + n`, the same over the integers) -/
def needBits (n : Nat) : M Unit := fun s =>
  if s.len < s.rCursor + n then (.err errNotEnough, s) else (.ok (), s)

/-- `Skip(n)` -/
def skip (n : Nat) : M Unit := do
  needBits n
  advance n

/-- `ReadBit` -/
def readBit : M Bool := do
  needBits 1
  mustReadBit

/-! ### Write methods -/

/-- `WriteBit` -/
def writeBit (val : Bool) : M Unit := do
  let s ← get
  if val then on s.len else off s.len
  modify fun s => { s with len := s.len + 1 }

/-- `WriteBitArray` -/
def writeBitArray : List Bool → M Unit
  | [] => pure ()
  | b :: t => do writeBit b; writeBitArray t

/-- `WriteUint(val, bitLen)`: `for i := bitLen-1; i >= 0; i-- { WriteBit((val>>i)&1 > 0) }`; for `i ≥ 64` Go's shift
gives 0, as does `Nat.testBit` on a value `< 2^64` -/
def writeUint (val : Nat) : (bitLen : Nat) → M Unit
  | 0 => pure ()
  | i + 1 => do writeBit (val.testBit i); writeUint val i

/-- int64 → uint64 conversion -/
def u64OfInt (v : Int) : Nat := (v % (2 ^ 64 : Int)).toNat
/-- uint64 → int64 conversion -/
def i64OfNat (v : Nat) : Int := if v % 2 ^ 64 ≥ 2 ^ 63 then ((v % 2 ^ 64 : Nat) : Int) - (2 ^ 64 : Int) else ((v % 2 ^ 64 : Nat) : Int)
/-- `1 << k` evaluated in int64 (0 for k ≥ 64, −2^63 for k = 63) -/
def shl1I64 (k : Nat) : Int := i64OfNat (if k ≥ 64 then 0 else 2 ^ k)

/-- `WriteInt(val, bitLen)` (repaired: width 0 and unrepresentable width-1 values are errors; before the repair width 0
wrote one bit, or panicked with a negative shift count for negative values, and width 1 silently wrote nothing for
values other than 0 and −1). `val` is an int64. -/
def writeInt (val : Int) (bitLen : Nat) : M Unit :=
  if bitLen = 0 then throwErr "integer can't be zero size"
  else if bitLen = 1 then
    if val = -1 then writeBit true
    else if val = 0 then writeBit false
    else throwErr "bit length is too small"
  else if val < 0 then do
    writeBit true
    -- uint64(1<<(bitLen-1) + val), int64 wrap-around
    writeUint (u64OfInt (shl1I64 (bitLen - 1) + val)) (bitLen - 1)
  else do
    writeBit false
    writeUint (u64OfInt val) (bitLen - 1)

/-- `WriteInt` before the repair (kept for the witness theorems) -/
def writeIntOld (val : Int) (bitLen : Nat) : M Unit :=
  if bitLen = 1 then
    if val = -1 then writeBit true
    else if val = 0 then writeBit false
    else pure ()
  else if val < 0 then do
    writeBit true
    if bitLen = 0 then throwPanic "negative shift amount"
    else writeUint (u64OfInt (shl1I64 (bitLen - 1) + val)) (bitLen - 1)
  else do
    writeBit false
    writeUint (u64OfInt val) (bitLen - 1)

/-- `WriteByte` -/
def writeByte (b : UInt8) : M Unit := writeUint b.toNat 8

/-- `WriteBytes` -/
def writeBytes : List UInt8 → M Unit
  | [] => pure ()
  | b :: t => do writeByte b; writeBytes t

/-- the loop of `WriteBitString(bs)`: `bs.rCursor = 0; for i < bs.len { bit := bs.ReadBit(); s.WriteBit(bit) }`
(`ReadBit` cannot return an error for `i < bs.len`; it panics if the buffer of `bs` is too short) -/
def writeBitStringLoop (src : BitString) : (i n : Nat) → M Unit
  | _, 0 => pure ()
  | i, n + 1 => do
    let bit ← liftO (getBitOf src i)
    writeBit bit
    writeBitStringLoop src (i + 1) n

/-- `WriteBitString` -/
def writeBitString (src : BitString) : M Unit := writeBitStringLoop src 0 src.len

/-- bit length of |v| (`big.Int.BitLen`) -/
def bigBitLen (v : Int) : Nat := if v.natAbs = 0 then 0 else Nat.log2 v.natAbs + 1

/-- `big.Int.Bit(i)`: the two's complement bit for negative values -/
def intTestBit (v : Int) (i : Nat) : Bool :=
  match v with
  | .ofNat m => m.testBit i
  | .negSucc m => !(m.testBit i)

/-- the loop of `WriteBigUint` -/
def writeBigBits (val : Int) : (bitLen : Nat) → M Unit
  | 0 => pure ()
  | i + 1 => do writeBit (intTestBit val i); writeBigBits val i

/-- `WriteBigUint(val, bitLen)` (the negative width −1 passed by `WriteBigInt(_, 0)` is handled at the call site) -/
def writeBigUint (val : Int) (bitLen : Nat) : M Unit :=
  if bitLen = 0 ∨ bigBitLen val > bitLen then throwErr "bit length is too small"
  else writeBigBits val bitLen

/-- `WriteBigInt(val, bitLen)`. `val.Int64()` is the low 64 bits of the value as int64 -/
def writeBigInt (val : Int) (bitLen : Nat) : M Unit :=
  if bitLen = 1 then
    if i64OfNat (u64OfInt val) = -1 then writeBit true
    else if i64OfNat (u64OfInt val) = 0 then writeBit false
    else throwErr "bit length is too small"
  else if val < 0 then do
    writeBit true
    -- bitLen = 0: WriteBigUint(_, -1) fails its width check
    if bitLen = 0 then throwErr "bit length is too small"
    else writeBigUint ((2 : Int) ^ (bitLen - 1) + val) (bitLen - 1)
  else do
    writeBit false
    if bitLen = 0 then throwErr "bit length is too small"
    else writeBigUint val (bitLen - 1)

def writeOnes : Nat → M Unit
  | 0 => pure ()
  | n + 1 => do writeBit true; writeOnes n

/-- `WriteUnary(n uint)`: `n < 63` ⇒ `WriteUint(1<<n − 1, n)`; otherwise `for i := uint(0); i < n; i++ { WriteBit(true) }`
(repaired: the loop counter is a `uint`; before, `i < int(n)` made a count ≥ 2^63 write no one at all and succeed);
then `WriteBit(false)` -/
def writeUnary (n : Nat) : M Unit := do
  if n < 63 then writeUint (2 ^ n - 1) n else writeOnes n
  writeBit false

/-- `WriteUnary` before the repair (`int(n)` negative for n ≥ 2^63: the loop body never runs) -/
def writeUnaryOld (n : Nat) : M Unit := do
  if n < 63 then writeUint (2 ^ n - 1) n else writeOnes (if n ≥ 2 ^ 63 then 0 else n)
  writeBit false

/-! ### de Bruijn bit length -/

def tab64 : List Nat := [
  63, 0, 58, 1, 59, 47, 53, 2,
  60, 39, 48, 27, 54, 33, 42, 3,
  61, 51, 37, 40, 49, 18, 28, 20,
  55, 30, 34, 11, 43, 14, 22, 4,
  62, 57, 46, 52, 38, 26, 32, 41,
  50, 36, 17, 19, 29, 10, 13, 21,
  56, 45, 25, 31, 35, 16, 9, 12,
  44, 24, 15, 8, 23, 7, 6, 5]

def deBruijn : Nat := 0x07EDD5E59A4E28C2

/-- `value |= value >> 1; … >> 32` -/
def smear (value : Nat) : Nat :=
  let value := value ||| (value >>> 1)
  let value := value ||| (value >>> 2)
  let value := value ||| (value >>> 4)
  let value := value ||| (value >>> 8)
  let value := value ||| (value >>> 16)
  value ||| (value >>> 32)

/-- `minBitsRequired(value uint64)` -/
def minBitsRequired (value : Nat) : Nat :=
  if value = 0 then 0
  else
    let value := smear value
    tab64.getD (((value - (value >>> 1)) * deBruijn % 2 ^ 64) >>> 58) 0 + 1

/-- `WriteLimUint(val, n)` -/
def writeLimUint (val n : Nat) : M Unit := writeUint val (minBitsRequired n)

/-! ### Read methods -/

/-- big-endian value of a byte list (`binary.BigEndian.Uint64`, `big.Int.SetBytes`) -/
def beNat (bs : List UInt8) : Nat := bs.foldl (fun acc b => acc * 256 + b.toNat) 0

/-- the bit loop of `ReadUint`: `for i := bitLen-1; i >= 0; i-- { if mustReadBit() { res |= 1 << i } }` -/
def readUintLoop : (i : Nat) → (res : Nat) → M Nat
  | 0, res => pure res
  | i + 1, res => do
    let b ← mustReadBit
    readUintLoop i (if b then res ||| (1 <<< i) else res)

/-- `ReadUint(bitLen)` with its three paths -/
def readUint (bitLen : Nat) : M Nat := do
  if bitLen > 64 then throwErr "too much bits for uint64"
  else do
    needBits bitLen
    let s ← get
    if s.rCursor % 8 = 0 ∧ bitLen % 8 = 0 then
      -- aligned: copy(buf[8-l:], s.buf[c:c+l]); binary.BigEndian.Uint64(buf)
      let l := bitLen / 8
      let c := s.rCursor / 8
      if c + l > s.buf.length then throwPanic panicSlice
      else do
        advance bitLen
        pure (beNat (List.replicate (8 - l) 0 ++ (s.buf.drop c).take l))
    else if bitLen < 57 then
      -- copy(b[:], s.buf[s.rCursor/8:]): up to 8 bytes, zero padded at the end of the buffer
      let c := s.rCursor / 8
      if c > s.buf.length then throwPanic panicSlice
      else do
        let b := (s.buf.drop c).take 8
        let u64 := beNat (b ++ List.replicate (8 - b.length) 0)
        let u64 := (u64 >>> (64 - bitLen - s.rCursor % 8)) &&& ((1 <<< bitLen) - 1)
        advance bitLen
        pure u64
    else readUintLoop bitLen 0

/-- `PickUint` -/
def pickUint (bitLen : Nat) : M Nat := do
  let res ← readUint bitLen
  modify fun s => { s with rCursor := s.rCursor - bitLen }
  pure res

/-- `ReadInt(bitLen)`; `int64(base - 1<<(bitLen-1))` in uint64 wrap-around -/
def readInt (bitLen : Nat) : M Int := do
  if bitLen > 64 then throwErr "too much bits for int64"
  else if bitLen = 0 then throwErr "integer can't be zero size"
  else do
    needBits bitLen
    if bitLen = 1 then do
      let b ← mustReadBit
      pure (if b then -1 else 0)
    else do
      let sign ← mustReadBit
      if sign then do
        let base ← readUint (bitLen - 1)
        pure (i64OfNat ((base + 2 ^ 64 - 2 ^ (bitLen - 1)) % 2 ^ 64))
      else do
        let res ← readUint (bitLen - 1)
        pure (i64OfNat res)

/-- `ReadByte`: aligned ⇒ `s.buf[bCursor]`; otherwise a 16-bit window `s.buf[bCursor:bCursor+2]` -/
def readByte : M UInt8 := do
  needBits 8
  let s ← get
  let bCursor := s.rCursor / 8
  if s.rCursor % 8 = 0 then do
    advance 8
    match s.buf[bCursor]? with
    | some b => pure b
    | none => throwPanic panicIndex
  else
    match s.buf[bCursor]?, s.buf[bCursor + 1]? with
    | some hi, some lo => do
      let u16 := (hi.toNat * 256 + lo.toNat) >>> (8 - s.rCursor % 8)
      advance 8
      pure (UInt8.ofNat u16)
    | _, _ => throwPanic panicSlice

def readBytesLoop : Nat → M (List UInt8)
  | 0 => pure []
  | n + 1 => do
    let b ← readByte
    let rest ← readBytesLoop n
    pure (b :: rest)

/-- `ReadBytes(size)` (the aligned path returns a sub-slice of the buffer: aliasing is outside the value-level model) -/
def readBytes (size : Nat) : M (List UInt8) := do
  needBits (size * 8)
  let s ← get
  if s.rCursor % 8 = 0 then do
    advance (size * 8)
    if s.rCursor / 8 + size > s.buf.length then throwPanic panicSlice
    else pure ((s.buf.drop (s.rCursor / 8)).take size)
  else readBytesLoop size

/-- the bit loop of `ReadBits`: read a bit from the receiver, write it to `dst` -/
def readBitsLoop : Nat → BitString → M BitString
  | 0, dst => pure dst
  | n + 1, dst => do
    let bit ← readBit
    let (_, dst') ← onOther dst (writeBit bit)
    readBitsLoop n dst'

/-- clear the bits of the last byte beyond `n` bits (the repair of the aligned path of `ReadBits`):
`buf[len-1] &= 0xFF << (8 - n&7)` when `n&7 ≠ 0` -/
def maskTail (buf : List UInt8) (n : Nat) : List UInt8 :=
  if n % 8 = 0 then buf
  else match buf.getLast? with
    | none => buf
    | some b => buf.dropLast ++ [b &&& ((0xFF : UInt8) <<< UInt8.ofNat (8 - n % 8))]

/-- `ReadBits(n)` (repaired: the aligned path clears the copied bits beyond `n`) -/
def readBits (n : Nat) : M BitString := do
  needBits n
  let s ← get
  let dst := new n
  if s.rCursor % 8 = 0 then
    if s.rCursor / 8 + dst.buf.length > s.buf.length then throwPanic panicSlice
    else do
      advance n
      pure { dst with buf := maskTail ((s.buf.drop (s.rCursor / 8)).take dst.buf.length) n, len := n }
  else readBitsLoop n dst

/-- `ReadBits` before the repair: whole bytes copied, bits beyond `n` left dirty -/
def readBitsOld (n : Nat) : M BitString := do
  needBits n
  let s ← get
  let dst := new n
  if s.rCursor % 8 = 0 then
    if s.rCursor / 8 + dst.buf.length > s.buf.length then throwPanic panicSlice
    else do
      advance n
      pure { dst with buf := (s.buf.drop (s.rCursor / 8)).take dst.buf.length, len := n }
  else readBitsLoop n dst

/-- `ReadRemainingBits` (the error of `ReadBits` is dropped: cannot occur) -/
def readRemainingBits : M BitString := do
  let s ← get
  readBits (s.len - s.rCursor)

/-- `ReadBigUint(bitLen)` (repaired: the leading partial byte is kept) -/
def readBigUint (bitLen : Nat) : M Nat := do
  needBits bitLen
  if bitLen = 0 then pure 0
  else do
    let first ← if bitLen % 8 ≠ 0 then do
        let fb ← readUint (bitLen % 8)
        pure [UInt8.ofNat fb]
      else pure []
    let rest ← readBytes (bitLen / 8)
    pure (beNat (first ++ rest))

/-- `ReadBigUint` before the repair: `b` is overwritten by the result of `ReadBytes` -/
def readBigUintOld (bitLen : Nat) : M Nat := do
  needBits bitLen
  if bitLen = 0 then pure 0
  else do
    if bitLen % 8 ≠ 0 then do
      let _ ← readUint (bitLen % 8)
      pure ()
    let rest ← readBytes (bitLen / 8)
    pure (beNat rest)

/-- `ReadBigInt(bitLen)` -/
def readBigInt (bitLen : Nat) : M Int := do
  needBits bitLen
  if bitLen = 0 then pure 0
  else if bitLen = 1 then do
    let b ← mustReadBit
    pure (if b then -1 else 0)
  else do
    let sign ← mustReadBit
    if sign then do
      let base ← readBigUint (bitLen - 1)
      pure ((base : Int) - (2 : Int) ^ (bitLen - 1))
    else do
      let r ← readBigUint (bitLen - 1)
      pure (r : Int)

/-- the loop of `ReadUnary`; at most `len − rCursor + 1` iterations (each consumes a bit or returns), `fuel` is that bound -/
def readUnaryLoop : (fuel : Nat) → (n : Nat) → M Nat
  | 0, _ => throwErr errNotEnough
  | fuel + 1, n => do
    let bit ← readBit
    if bit then readUnaryLoop fuel (n + 1) else pure n

/-- `ReadUnary` -/
def readUnary : M Nat := do
  let s ← get
  readUnaryLoop (s.len - s.rCursor + 1) 0

/-- `ReadLimUint(n)`: returns `uint(res), err` -/
def readLimUint (n : Nat) : M Nat := readUint (minBitsRequired n)

/-! ### Misc -/

/-- `ResetCounter` -/
def resetCounter : M Unit := modify fun s => { s with rCursor := 0 }

/-- `Copy()` -/
def copy (s : BitString) : BitString := { buf := s.buf, cap := s.cap, len := s.len, rCursor := 0 }

/-- `Grow(bitLen)` -/
def grow (bitLen : Nat) : M Unit :=
  modify fun s => { s with buf := s.buf ++ List.replicate (bitLen / 8 + 1) 0, cap := s.cap + bitLen }

/-- `Append(b)` -/
def append (b : BitString) : M Unit := do
  let s ← get
  -- needBits := b.len - (s.cap - s.len) > 0
  if b.len + s.len > s.cap then grow (b.len + s.len - s.cap) else pure ()
  ignoreErr (writeBitString b)

/-- the search loop of `SetTopUppedArray`: up to 7 times `s.len--; if mustGetBit(s.len) { Off(s.len); found }` -/
def stripLoop : Nat → M Bool
  | 0 => pure false
  | i + 1 => do
    modify fun s => { s with len := s.len - 1 }
    let s ← get
    let b ← mustGetBit s.len
    if b then do off s.len; pure true
    else stripLoop i

/-- `SetTopUppedArray(arr, fulfilledBytes)` (the read cursor is kept, as in Go) -/
def setTopUppedArray (arr : List UInt8) (fulfilledBytes : Bool) : M Unit := do
  modify fun s => { s with cap := arr.length * 8, buf := arr, len := arr.length * 8 }
  if fulfilledBytes ∨ arr.length * 8 = 0 then pure ()
  else do
    let found ← stripLoop 7
    if found then pure () else throwErr "incorrect topUppedArray"

def writeZeros : Nat → M Unit
  | 0 => pure ()
  | n + 1 => do writeBit false; writeZeros n

/-- `GetTopUppedArray()` (works on a copy; the receiver is unchanged) -/
def getTopUppedArray (s : BitString) : Outcome (List UInt8) :=
  let prog : M (List UInt8) := do
    let r ← get
    let tu := (r.len + 7) / 8 * 8 - r.len
    if tu > 0 then do
      writeBit true
      writeZeros (tu - 1)
    let r ← get
    let n := (r.len + 7) / 8
    if n > r.buf.length then throwPanic panicSlice else pure (r.buf.take n)
  (prog (copy s)).1

/-! ### Fift hex -/

def hexUpperChars (bs : List UInt8) : List Char :=
  bs.flatMap fun b => [Hex.nibbleCharUpper (b.toNat / 16), Hex.nibbleCharUpper (b.toNat % 16)]

/-- first branch of `ToFiftHex` (`len % 4 = 0`): upper-case hex of `buf[0:(len+7)/8]`, last digit dropped when `len % 8 ≠ 0` -/
def fiftHexAligned (s : BitString) : Outcome (List Char) :=
  if (s.len + 7) / 8 > s.buf.length then .panic panicSlice
  else
    let str := hexUpperChars (s.buf.take ((s.len + 7) / 8))
    if s.len % 8 = 0 then .ok str else .ok str.dropLast

/-- the padding loop `for temp.len%4 != 0 { temp.WriteBit(false) }` (errors ignored); it needs at most 3 rounds, a
fourth would mean that Go loops forever (only possible when `len ≥ cap` after `Grow`, i.e. `len > cap` before) -/
def padLoop : Nat → M Unit
  | 0 => do
    let s ← get
    if s.len % 4 ≠ 0 then throwPanic "ToFiftHex does not terminate" else pure ()
  | k + 1 => do
    let s ← get
    if s.len % 4 ≠ 0 then do ignoreErr (writeBit false); padLoop k else pure ()

/-- `ToFiftHex()` -/
def toFiftHex (s : BitString) : Outcome (List Char) :=
  if s.len % 4 = 0 then fiftHexAligned s
  else
    let prog : M Unit := do
      grow (4 - s.len % 4)
      ignoreErr (writeBit true)
      padLoop 3
    match prog (copy s) with
    | (.ok _, temp) =>
      -- temp.ToFiftHex() + "_": temp.len % 4 = 0 here, so the recursive call takes the first branch
      match fiftHexAligned temp with
      | .ok str => .ok (str ++ ['_'])
      | .err e => .err e
      | .panic p => .panic p
    | (.err e, _) => .err e
    | (.panic p, _) => .panic p

/-- `suffixToBits` -/
def suffixToBits (c : Char) : Option (List Bool) :=
  match c with
  | '4' => some [false]
  | 'C' | 'c' => some [true]
  | '2' => some [false, false]
  | '6' => some [false, true]
  | 'A' | 'a' => some [true, false]
  | 'E' | 'e' => some [true, true]
  | '1' => some [false, false, false]
  | '3' => some [false, false, true]
  | '5' => some [false, true, false]
  | '7' => some [false, true, true]
  | '9' => some [true, false, false]
  | 'B' | 'b' => some [true, false, true]
  | 'D' | 'd' => some [true, true, false]
  | 'F' | 'f' => some [true, true, true]
  | _ => none

def writeNibbles : List Char → M Unit
  | [] => pure ()
  | c :: t =>
    match Hex.charNibble? c with
    | none => throwErr "invalid hex"
    | some v => do writeUint v 4; writeNibbles t

/-- `BitStringFromFiftHex(hexRepr)` on a string of one-byte characters (code points < 128; Go iterates over runes and
truncates each to a byte, which the model does not describe) -/
def fromFiftHex (hexRepr : List Char) : Outcome BitString :=
  let parsed : Outcome (List Char × List Bool) :=
    if hexRepr.getLast? = some '_' then
      if hexRepr.length < 2 then .err "invalid hex"
      else match hexRepr.dropLast.getLast? with
        | none => .err "invalid hex"
        | some c => match suffixToBits c with
          | none => .err "invalid hex"
          | some e => .ok (hexRepr.dropLast.dropLast, e)
    else .ok (hexRepr, [])
  match parsed with
  | .err e => .err e
  | .panic p => .panic p
  | .ok (digits, ending) =>
    let prog : M Unit := do writeNibbles digits; writeBitArray ending
    match prog (new (digits.length * 4 + ending.length)) with
    | (.ok _, bs) => .ok bs
    | (.err e, _) => .err e
    | (.panic p, _) => .panic p

end BitString

/-! ## `boc/cell.go`: the mutable cell around a bit string (reference slots and cursor) -/

/-- `boc.Cell` at the level needed for C06: data bits, the non-nil prefix of the four reference slots, the reference
cursor. (`cellType`/`mask` play no role in the read/write primitives.) -/
inductive MCell where
  | mk (bits : BitString) (refs : List MCell) (refCursor : Nat)
  deriving Inhabited

namespace MCell
def bits : MCell → BitString | mk b _ _ => b
def refs : MCell → List MCell | mk _ r _ => r
def refCursor : MCell → Nat | mk _ _ c => c

def cellBits : Nat := 1023

/-- `NewCell()` -/
def new : MCell := mk (BitString.new cellBits) [] 0

/-- `NewCellWithBits(b)`: panics when `b.len > 1023` -/
def newWithBits (b : BitString) : Outcome MCell :=
  if b.len > cellBits then .panic "bit string not fit to Cell" else .ok (mk b [] 0)

/-- `AddRef`: first free slot of four -/
def addRef (c : MCell) (r : MCell) : Outcome MCell × MCell :=
  if c.refs.length < 4 then (.ok (mk c.bits (c.refs ++ [r]) c.refCursor), mk c.bits (c.refs ++ [r]) c.refCursor)
  else (.err "too many refs", c)

/-- `ResetCounters` -/
def resetCounters (c : MCell) : MCell := mk { c.bits with rCursor := 0 } c.refs 0

/-- `NextRef`: returns the referenced cell with its counters reset (the child is shared by pointer: the stored child is
reset too) and the receiver with the cursor advanced -/
def nextRef (c : MCell) : Outcome MCell × MCell :=
  if c.refCursor > 3 then (.err "not enough refs", c)
  else match c.refs[c.refCursor]? with
    | some r =>
      let r' := resetCounters r
      (.ok r', mk c.bits (c.refs.set c.refCursor r') (c.refCursor + 1))
    | none => (.err "not enough refs", c)

def refsAvailableForRead (c : MCell) : Int := (c.refs.length : Int) - c.refCursor

/-- `Cell.setTopUppedArray` (repaired: the buffer is extended to the full 128 bytes that `cap = 1023` promises) -/
def setTopUppedArray (arr : List UInt8) (fulfilledBytes : Bool) : Outcome Unit × BitString :=
  let (r, b) := BitString.setTopUppedArray arr fulfilledBytes (BitString.new cellBits)
  let buf := if b.buf.length < (cellBits + 7) / 8 then b.buf ++ List.replicate ((cellBits + 7) / 8 - b.buf.length) 0 else b.buf
  (r, { b with buf := buf, cap := cellBits })

/-- `Cell.setTopUppedArray` before the repair: `cap = 1023` over a buffer of `len(arr)` bytes -/
def setTopUppedArrayOld (arr : List UInt8) (fulfilledBytes : Bool) : Outcome Unit × BitString :=
  let (r, b) := BitString.setTopUppedArray arr fulfilledBytes (BitString.new cellBits)
  (r, { b with cap := cellBits })

/-- `CopyRemaining`: a new cell with the unread bits and the unread references; the receiver's cursors are restored.
The unread references are fetched with `NextRef`, which resets the counters of each referenced cell — the children are
shared by pointer, so the receiver's unread children are reset too. Returns the copy and the receiver afterwards. -/
def copyRemaining (c : MCell) : Outcome MCell × MCell :=
  let unread := (c.refs.drop c.refCursor).map resetCounters
  let src := mk c.bits (c.refs.take c.refCursor ++ unread) c.refCursor
  match BitString.readRemainingBits c.bits with
  | (.ok b, _) =>
    match newWithBits b with
    | .ok c2 =>
      -- refsNums = RefsSize() − refCursor rounds of NextRef/AddRef; neither can fail for ≤ 4 references
      if c.refCursor > c.refs.length then (.ok c2, c)
      else if unread.length > 4 then (.panic "too many refs", src)
      else (.ok (mk c2.bits unread 0), src)
    | .err e => (.err e, c)
    | .panic p => (.panic p, c)
  | (.err _, _) =>
    -- ReadRemainingBits drops the error and returns the zero BitString
    (.ok (mk { buf := [], cap := 0, len := 0, rCursor := 0 } unread 0), src)
  | (.panic p, _) => (.panic p, c)

end MCell
end Tongo
