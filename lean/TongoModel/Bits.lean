/-! Ideal bit lists: the specification-level view of cell data. Big-endian (most significant bit first), as in TON.
Everything here is core Lean, total and executable. -/
namespace Tongo.Bits

/-- the `n` low bits of `v`, most significant first (WriteUint semantics: value taken mod 2^n) -/
def natToBits : (n : Nat) → (v : Nat) → List Bool
  | 0, _ => []
  | n + 1, v => v.testBit n :: natToBits n v

/-- big-endian value of a bit list -/
def bitsToNat (l : List Bool) : Nat := l.foldl (fun acc b => 2 * acc + b.toNat) 0

/-- two's complement encoding of an integer on `n` bits -/
def intToBits (n : Nat) (v : Int) : List Bool := natToBits n (v % (2 ^ n : Int)).toNat

/-- two's complement decoding (empty list ↦ 0) -/
def bitsToInt (l : List Bool) : Int :=
  match l with
  | [] => 0
  | s :: rest => if s then (bitsToNat rest : Int) - (2 ^ rest.length : Int) else bitsToNat rest

def byteToBits (b : UInt8) : List Bool := natToBits 8 b.toNat

def bytesToBits (bs : List UInt8) : List Bool := bs.flatMap byteToBits

/-- pack bits into bytes, padding the last byte with zero bits -/
def bitsToBytes : List Bool → List UInt8
  | [] => []
  | h :: t =>
    let l := h :: t
    UInt8.ofNat (bitsToNat (l.take 8 ++ List.replicate (8 - (l.take 8).length) false)) :: bitsToBytes (t.drop 7)
termination_by l => l.length
decreasing_by simp only [List.length_drop, List.length_cons]; omega

/-- TON completion tag: bits ++ 1 ++ 0… up to a byte boundary; no tag when already aligned -/
def addTag (l : List Bool) : List Bool :=
  if l.length % 8 = 0 then l else l ++ true :: List.replicate (7 - l.length % 8) false

/-- bytes of the data with completion tag (the "topped-up array") -/
def toppedUp (l : List Bool) : List UInt8 := bitsToBytes (addTag l)

/-- remove a completion tag: drop trailing zeros and the final 1 (at most 7 zeros are legal); `none` if no tag in the last 7 bits -/
def stripTag (l : List Bool) : Option (List Bool) :=
  let r := l.reverse
  let zs := r.takeWhile (· == false)
  if zs.length ≥ 7 then none
  else match r.drop zs.length with
    | true :: rest => some rest.reverse
    | _ => none

def bitChar (b : Bool) : Char := if b then '1' else '0'
def toBinString (l : List Bool) : String := String.ofList (l.map bitChar)
def ofBinString? (s : String) : Option (List Bool) :=
  s.toList.mapM fun c => if c == '1' then some true else if c == '0' then some false else none

end Tongo.Bits
