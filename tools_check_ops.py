#!/usr/bin/env python3
"""Sanity check: op names must be unique across lean/Driver/Ops*.lean (the driver has ONE handler table)."""
import glob, re, sys, os, collections
ROOT = os.path.dirname(os.path.abspath(__file__))
seen = collections.defaultdict(list)
for p in glob.glob(os.path.join(ROOT, "lean", "Driver", "Ops*.lean")):
    for m in re.finditer(r'^\s*\(\s*"([a-z0-9_.]+)"\s*,', open(p).read(), flags=re.M):
        seen[m.group(1)].append(os.path.basename(p))
dups = {k: v for k, v in seen.items() if len(set(v)) > 1}
for k, v in dups.items():
    print("DUPLICATE op", k, v)
sys.exit(1 if dups else 0)
