#!/usr/bin/env python3
"""Top-level helper names defined in more than one lean/Driver/*.lean file clash in the single driver binary:
make every clashing definition `private` (file-local)."""
import glob, os, re, collections
ROOT = os.path.dirname(os.path.abspath(__file__))
files = [p for p in glob.glob(os.path.join(ROOT, "lean", "Driver", "*.lean")) if not p.endswith("All.lean")]
defs = collections.defaultdict(list)
pat = re.compile(r"^(partial def|def|abbrev|instance|structure|inductive)\s+([A-Za-z_][\w.']*)", re.M)
def qualified(p):
    """(qualified name, bare name) of top-level definitions, tracking `namespace … end`"""
    ns, out = [], []
    for l in open(p).read().split("\n"):
        m0 = re.match(r"^namespace\s+(\S+)", l)
        if m0: ns.append(m0.group(1)); continue
        m1 = re.match(r"^end\s+(\S+)\s*$", l)
        if m1 and ns and ns[-1] == m1.group(1): ns.pop(); continue
        m = pat.match(l)
        if m: out.append((".".join(ns + [m.group(2)]), m.group(2)))
    return out
bare = {}
for p in files:
    for q, b in qualified(p):
        defs[q].append(p); bare[q] = b
changed = 0
for qname, ps in defs.items():
    name = bare[qname]
    if len(set(ps)) < 2 or name.startswith("ops"):
        continue
    for p in set(ps):
        s = open(p).read()
        s2 = re.sub(r"^(partial def|def|abbrev)\s+" + re.escape(name) + r"\b", r"private \1 " + name, s, flags=re.M)
        if s2 != s:
            open(p, "w").write(s2); changed += 1
            print("private:", name, "in", os.path.basename(p))
print("changed", changed)
