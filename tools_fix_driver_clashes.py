#!/usr/bin/env python3
"""Top-level helper names defined in more than one lean/Driver/*.lean file clash in the single driver binary:
make every clashing definition `private` (file-local)."""
import glob, os, re, collections
ROOT = os.path.dirname(os.path.abspath(__file__))
files = [p for p in glob.glob(os.path.join(ROOT, "lean", "Driver", "*.lean")) if not p.endswith("All.lean")]
defs = collections.defaultdict(list)
pat = re.compile(r"^(partial def|def|abbrev|instance|structure|inductive)\s+([A-Za-z_][\w.']*)", re.M)
for p in files:
    for m in pat.finditer(open(p).read()):
        defs[m.group(2)].append(p)
changed = 0
for name, ps in defs.items():
    if len(set(ps)) < 2 or name.startswith("ops"):
        continue
    for p in set(ps):
        s = open(p).read()
        s2 = re.sub(r"^(partial def|def|abbrev)\s+" + re.escape(name) + r"\b", r"private \1 " + name, s, flags=re.M)
        if s2 != s:
            open(p, "w").write(s2); changed += 1
            print("private:", name, "in", os.path.basename(p))
print("changed", changed)
