#!/usr/bin/env python3
"""Branch report for property C08: which blocks of every hand-written UnmarshalTLB method (tlb/, abi/, wallet/) are
executed while the real decoder ACCEPTS a seed encoding (valid seeds + the flag-combination variants synthesised by
go.tlb.flags), and which are not.

  ./tools_c08_branches.py            (VERIF_REPO selects the repository; writes evidence/C08_branches.txt)

How: the harness is built with `go build -cover -covermode=atomic -coverpkg=<tlb,abi,wallet>`; one executor process runs
all go.tlb.flags lines of a quick generation in seeds-only mode (C08_COV_SEEDS=1: seeds are synthesised, nothing is
damaged), then the op go.tlb.covseeds clears the counters, decodes every collected seed once and writes the counters.
Blocks that only return an error are not counted: a valid encoding cannot reach them.
"""
import os, re, subprocess, sys, tempfile, hashlib, shutil, glob

ROOT = os.path.dirname(os.path.abspath(__file__))
REPO = os.environ.get("VERIF_REPO", "/repo")
HARN = os.path.join(ROOT, "harness")
ENV = dict(os.environ, GOFLAGS="-mod=mod", GOPROXY="off", GOSUMDB="off", GOTOOLCHAIN="local", CGO_ENABLED="0", VERIF_REPO=REPO)
MOD = "github.com/tonkeeper/tongo/"


def sh(cmd, **kw):
    p = subprocess.run(cmd, stdout=subprocess.PIPE, stderr=subprocess.STDOUT, text=True, **kw)
    if p.returncode != 0:
        sys.exit("FAILED: %s\n%s" % (" ".join(cmd), p.stdout[-3000:]))
    return p.stdout


def main():
    work = tempfile.mkdtemp(prefix="c08cov_")
    gm = open(os.path.join(HARN, "go.mod")).read().replace("=> /repo", "=> " + REPO)
    open(os.path.join(work, "go.mod"), "w").write(gm)
    shutil.copy(os.path.join(REPO, "go.sum"), os.path.join(work, "go.sum"))
    vh = os.path.join(work, "vh_cov")
    sh(["go", "build", "-modfile=" + os.path.join(work, "go.mod"), "-tags", "verif,c08", "-cover", "-covermode=atomic",
        "-coverpkg=verifharness/cmd/vh," + ",".join(MOD + p for p in ("tlb", "abi", "wallet")), "-o", vh, "./cmd/vh"], cwd=HARN, env=ENV)
    gen = os.path.join(work, "gen")
    sh([vh, "gen", "-prop", "C08", "-seed", "1", "-tier", "quick", "-out", gen], env=dict(ENV, GOCOVERDIR=os.path.join(work, "junk0")))
    lines = [l for l in open(os.path.join(gen, "ops.txt")) if l.startswith("go.tlb.flags ") or l.startswith("go.tlb.flagsreal ")]
    lines.append("go.tlb.covseeds\n")
    out = os.path.join(work, "cov")
    os.makedirs(out)
    os.makedirs(os.path.join(work, "junk"), exist_ok=True)
    p = subprocess.run([vh, "exec", "-prop", "C08", "-timeout", "600s"], input="".join(lines), text=True, stdout=subprocess.PIPE,
                       env=dict(ENV, C08_COV_SEEDS="1", C08_COV_OUT=out, GOCOVERDIR=os.path.join(work, "junk")))
    answers = p.stdout.split("\n")
    last = [a for a in answers if a][-1]
    if not last.startswith("ok "):
        sys.exit("covseeds failed: " + last)
    nseeds = int(last.split()[1])
    prof = os.path.join(work, "prof.txt")
    sh(["go", "tool", "covdata", "textfmt", "-i=" + out, "-o", prof], env=ENV)
    # profile: file:sl.sc,el.ec nstmts count
    blocks = {}
    for l in open(prof):
        m = re.match(r"(\S+):(\d+)\.(\d+),(\d+)\.(\d+) (\d+) (\d+)", l)
        if not m or not m.group(1).startswith(MOD):
            continue
        f = m.group(1)[len(MOD):]
        key = (f, int(m.group(2)), int(m.group(3)), int(m.group(4)), int(m.group(5)))
        blocks[key] = max(blocks.get(key, 0), int(m.group(7)))
    report, tot, cov, full, partial = [], 0, 0, [], []
    for pkg in ("tlb", "abi", "wallet"):
        for path in sorted(glob.glob(os.path.join(REPO, pkg, "*.go"))):
            base = os.path.basename(path)
            if base.endswith("_test.go") or base == "integers.go":
                continue
            src = open(path).read().split("\n")
            for i, line in enumerate(src):
                m = re.match(r"func \(\w+ \*?(\w+)(\[[^\]]*\])?\) UnmarshalTLB\(", line)
                if not m:
                    continue
                end = next(j for j in range(i, len(src)) if src[j] == "}")
                name = "%s.%s%s (%s:%d)" % (pkg, m.group(1), "[…]" if m.group(2) else "", base, i + 1)
                mine = [(k, c) for k, c in blocks.items() if k[0] == pkg + "/" + base and i + 1 <= k[1] <= end + 1]
                live, hit, missing = 0, 0, []
                for (f, sl, sc, el, ec), c in sorted(mine):
                    text = "\n".join(src[sl - 1:el])
                    body = "\n".join(x.strip() for x in src[sl - 1:el]).strip()
                    only_err_return = bool(re.fullmatch(r"(?:[^\n]*\{\n)?return\b[^\n]*(?:[eE]rr|Errorf|errors\.New)[^\n]*(?:\n\})?", body)) and el - sl <= 2
                    if only_err_return:
                        continue
                    live += 1
                    if c > 0:
                        hit += 1
                    else:
                        missing.append("%d-%d" % (sl, el))
                tot += live
                cov += hit
                (full if hit == live else partial).append(name)
                report.append("%-62s blocks %3d/%-3d %s" % (name, hit, live, ("not reached by an accepted seed: lines " + ", ".join(missing)) if missing else "all branches seeded"))
    head = ["C08 — branches of the hand-written UnmarshalTLB methods reached by ACCEPTED seed encodings",
            "repository: %s   seeds decoded with coverage on: %d   blocks reached: %d of %d (error-return blocks excluded)" % (REPO, nseeds, cov, tot),
            "methods with every branch seeded: %d; with unseeded branches: %d" % (len(full), len(partial)), ""]
    os.makedirs(os.path.join(ROOT, "evidence"), exist_ok=True)
    open(os.path.join(ROOT, "evidence", "C08_branches.txt"), "w").write("\n".join(head + report) + "\n")
    print("\n".join(head + report))
    shutil.rmtree(work, ignore_errors=True)


if __name__ == "__main__":
    main()
