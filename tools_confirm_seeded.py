#!/usr/bin/env python3
"""Confirms seeded defects produced by independent agents and files the confirmed ones under /verif/seeded/<id>/.
For every /tmp/mut/*/out/<id>/: in a scratch worktree of /repo HEAD, (1) demo passes on the unchanged tree,
(2) patch applies and the touched packages build, their existing tests keep passing (same set of failing tests as on the
unchanged tree), (3) demo fails with the patch. Usage: tools_confirm_seeded.py [ids...]"""
import glob, json, os, re, shutil, subprocess, sys
ROOT = os.path.dirname(os.path.abspath(__file__))
SCR = "/tmp/seedconfirm_%d/repo" % os.getpid()
ENV = dict(os.environ, GOFLAGS="-mod=mod", GOPROXY="off", GOSUMDB="off", GOTOOLCHAIN="local")

def sh(cmd, cwd=None, timeout=1500):
    try:
        p = subprocess.run(cmd, shell=True, cwd=cwd, env=ENV, stdout=subprocess.PIPE, stderr=subprocess.STDOUT, text=True, timeout=timeout)
        return p.returncode, p.stdout
    except subprocess.TimeoutExpired:
        return 124, "TIMEOUT"

def clean():
    sh(f"git -C {SCR} checkout -- . && git -C {SCR} clean -fdq")

def failing_tests(pkgs):
    rc, o = sh("go test -vet=off -count=1 " + " ".join(pkgs) + " 2>&1", cwd=SCR)
    return sorted(set(re.findall(r"^--- FAIL: (\S+)", o, flags=re.M))), ("[build failed]" in o or "cannot" in o and "build" in o)

def main():
    want = set(sys.argv[1:])
    sh(f"git -C /repo worktree remove --force {SCR}; rm -rf {os.path.dirname(SCR)}; mkdir -p {os.path.dirname(SCR)} && git -C /repo worktree add --detach {SCR} HEAD")
    for d in sorted(glob.glob("/tmp/mut/*/out/C*-*")) + sorted(glob.glob("/tmp/mut2/*/out/C*-*")):
        sid = os.path.basename(d)
        if d.startswith("/tmp/mut2/"):   # second round: ids continue after the first round's 1..3
            pfx, n = sid.rsplit("-", 1)
            sid = f"{pfx}-{int(n) + 3}"
        if want and sid not in want:
            continue
        if os.path.exists(os.path.join(ROOT, "seeded", sid, "meta.json")) and not want:
            continue
        meta = json.load(open(os.path.join(d, "meta.json")))
        demos = []
        for f in sorted(glob.glob(os.path.join(d, "demo", "**"), recursive=True)):
            if os.path.isdir(f):
                continue
            head = "".join(open(f, errors="replace").readlines()[:12])
            m = re.search(r"(?:[Pp]lace this file (?:at|in|as|under)|PLACE AT):?\s+`?([\w./\-]+)`?", head)
            c = re.search(r"(go (?:test|run) [^\n`]*)", head)
            demos.append((f, m.group(1) if m else None, c.group(1).strip() if c else None))
        placed = [(f, p, c) for (f, p, c) in demos if p]
        cmds = [c for (f, p, c) in demos if c]
        if not placed or not cmds:
            print(sid, "UNPARSEABLE demo header", [x[1:] for x in demos]); continue
        clean()
        def place():
            for (f, p, c) in placed:
                dst = os.path.join(SCR, p if not p.endswith("/") else os.path.join(p, os.path.basename(f)))
                os.makedirs(os.path.dirname(dst), exist_ok=True)
                shutil.copy(f, dst)
        # 1. demo on the unchanged tree
        place()
        rc_clean, o_clean = sh(cmds[0], cwd=SCR)
        clean()
        # 2. patch applies; touched packages' tests
        rc, o = sh(f"git -C {SCR} apply --check {d}/patch.diff")
        if rc != 0:
            print(sid, "PATCH DOES NOT APPLY", o[-200:]); continue
        files = re.findall(r"^\+\+\+ b/(\S+)", open(os.path.join(d, "patch.diff")).read(), flags=re.M)
        pkgs = sorted({"./" + os.path.dirname(f) + "/" if os.path.dirname(f) else "." for f in files})
        skip = " -skip 'TestGetSeqno|TestSimpleSend'" if any("wallet" in p for p in pkgs) else ""
        base_fail, _ = failing_tests([p + skip for p in pkgs]) if not skip else failing_tests([" ".join(pkgs) + skip])
        sh(f"git -C {SCR} apply {d}/patch.diff")
        rcb, ob = sh("go build ./... 2>&1 | grep -v examples/tvm | grep -v libemulator | head -5", cwd=SCR)
        pat_fail, _ = failing_tests([p + skip for p in pkgs]) if not skip else failing_tests([" ".join(pkgs) + skip])
        # 3. demo with the patch
        place()
        rc_pat, o_pat = sh(cmds[0], cwd=SCR)
        clean()
        ok = rc_clean == 0 and rc_pat != 0 and set(pat_fail) <= set(base_fail)
        status = "CONFIRMED" if ok else f"NOT-CONFIRMED clean_rc={rc_clean} patched_rc={rc_pat} newfails={sorted(set(pat_fail)-set(base_fail))}"
        print(sid, status, flush=True)
        if ok:
            dst = os.path.join(ROOT, "seeded", sid)
            shutil.rmtree(dst, ignore_errors=True)
            os.makedirs(dst)
            shutil.copy(os.path.join(d, "patch.diff"), dst)
            shutil.copytree(os.path.join(d, "demo"), os.path.join(dst, "demo"))
            meta["confirmed_by_lead"] = dict(
                demo_cmd=cmds[0], demo_on_unchanged_tree="pass", demo_with_patch="fail",
                packages_tested=pkgs, failing_tests_unchanged=base_fail, failing_tests_patched=pat_fail,
                note="existing tests of the touched packages: no test that passes on the unchanged tree fails with the patch")
            json.dump(meta, open(os.path.join(dst, "meta.json"), "w"), indent=1)
    sh(f"git -C /repo worktree remove --force {SCR}; rm -rf {os.path.dirname(SCR)}")

if __name__ == "__main__":
    main()
