PROP = dict(
    id="C14",
    lean_modules=["TongoProofs.C14", "TongoProofs.C14Tlb"],
    gen=["WalletConsts", "TlbTypes", "WalletInts"],
    # the model IS the specification: bodies, envelope, digest, decoder outputs and verifier verdicts are bit-exact
    spec_ops=("m.body", "m.bodyx", "m.extn", "m.raw", "m.decode", "m.verify", "m.int", "m.intdec", "prim.sha256"),
    rule="every sending version (V3R1, V3R2, V4R1, V4R2, V5Beta, V5R1, HighLoadV2R2) x random Ed25519 keys x workchain / "
         "sub-wallet / network options x seqno and valid-until in {0,1,2^31,2^32-1,random} x 0..4 messages mostly, 5/17/100/"
         "max-1/max for the large-capacity versions, max+1 and max+50 for the limit; messages are either marshalled "
         "wallet.Message / SimpleTransfer values (amounts 0..2^64, bounce flags, modes 0..255, comments 0..2000 bytes incl. "
         "the snake-cell boundaries, optional state-init) or random ordinary cell DAGs with random modes; with and without "
         "the wallet's state-init; through RawSendV2 (captured payload) and CreateMessageBody (both v5 opcodes); every built "
         "message is decoded and verified (own key, foreign key, wrong-length key) on both sides, plus two single-bit "
         "mutations of the body re-verified and re-decoded on both sides; direct oracles with real Ed25519: own key accepted, "
         "3 foreign keys rejected, 3..8 single-bit flips anywhere in the signed body tree rejected, extracted messages and "
         "decoded fields equal the requested ones, over-limit sends refused; send modes 0,1,2,3,64,128,255 and random on "
         "every construction path (Send via Sendable.ToInternal, CreateMessageBody, RawSend with RawMessage): extracted modes = "
         "REQUESTED modes (the mode ToInternal returns is under test, not trusted). "
         "The GENERATOR never runs the wallet package: requested internal messages, signed cells, bodies, envelopes and the "
         "wallet's state init / address are built bit by bit from the TL-B layouts (harness/cmd/vh/c14ref.go) and signed with "
         "crypto/ed25519; the wallet code only runs in the executors. Batch-size boundary for every version: max-1 and max "
         "accepted with exactly that many messages carried in order, max+1 and max+50 refused with nothing sent (oracle and "
         "model). Outgoing messages WITH a state init on every construction path (wallet.Message{Code,Data}, ContractDeploy, "
         "RawMessage whose cell carries an init; alone and mixed with plain transfers; empty data cell, code with a ref): "
         "ToInternal+Marshal against the model (m.int, all three Sendable kinds, comments across snake boundaries), the "
         "library decoder on the reference message against the model's reader (m.intdec), and in the oracle the extracted "
         "init field by field (by reference, code present + hash, data present + hash, no library / split_depth / special, "
         "destination, bounce, amount; for a deploy destination = hash of the CARRIED state init); RawSendV2's envelope: "
         "destination = hash of the hand-built wallet state init, init attached exactly when requested. "
         "v5r1 extended actions: 0..255 send actions together with nil / 1..4 extended actions (add / remove extension with "
         "addr_std in workchains 0,-1,1,127,-128 or addr_none, set-signature-allowed), both opcodes, through "
         "CreateSignedMsgBodyCell; the ExtensionAction form marshalled from wallet.MessageV5 (with / without send actions); "
         "both decoded and verified on both sides; "
         "non-trivial = distinct (version, key, message count, seqno, valid-until) case",
    trusted_base=[
        "translator X1 (TlbTypes): the wallet struct descriptors are regenerated from wallet/*.go on every run; the hand-written "
        "layouts are proved equal to Tlb.encode on them (TongoProofs/C14Tlb.lean), so a field swap / width change breaks an obligation",
        "the highload dictionary is the shared model lean/TongoModel/Hashmap.lean (C05: entries ordered by key bits, canonical "
        "shortest edge labels); its round trip is used through the C05 theorems encode_sorted_tree / decode_any_valid",
        "translator WalletConsts (harness/cmd/extract, go/ast): DefaultSubWallet, MainnetGlobalID, the v5 opcodes, the action tag, the Version enumeration and maxMessageNumber() literals are re-read from wallet/*.go on every run and stated as decide-d obligations against the model (lean/TongoGen/WalletConsts.lean)",
        "hand model lean/TongoModel/{WalletMsg,CellRead,CellOrd}.lean tied to wallet/*.go, ton/block.go by bit-exact "
        "correspondence of body cell, external message cell, digest, decoder outputs and verdicts on every run",
        "Ed25519 is not re-implemented: the harness computes signatures with crypto/ed25519 on the digest of the signed part "
        "extracted by position, and passes signature and verdict bits to the model; the digest itself is compared",
        "the highload wallet's rand.Uint32() is made reproducible by seeding math/rand in the harness; it is an input of the model",
        "Lean SHA-256 validated against crypto/sha256 on every run",
    ],
    assumptions=[
        "IDEALISED SIGNATURE SCHEME, FOR HONESTLY GENERATED KEYS ONLY (Sig.Ideal, lean/TongoProofs/Lemmas/SigIdeal.lean) - a local "
        "hypothesis of every negative theorem: SigCorrect, and SigSound: a genuine signature (made with sk over a 32-byte digest m) "
        "verifies under an honestly generated key pub sk' for a 32-byte digest m' only if pub sk' = pub sk and m' = m. For Ed25519 "
        "with keys of prime order this holds up to collisions / fixed points of the internal SHA-512 modulo the group order; it is "
        "an IDEALISATION, not a property of the real scheme. 'Verifies against no other key' therefore reads: no other HONESTLY "
        "GENERATED key (verify_rejects_other_key has the premise Sig.Honest pub pk'). verified_was_signed alone additionally "
        "assumes SigUnforgeable under honest keys (strong unforgeability + deterministic signer). The accept-all verifier does "
        "NOT satisfy the hypotheses (Sig.accept_all_violates); a toy scheme does (Sig.toy_ideal)",
        "THE LIMIT (witnessed): under keys that are NOT honestly generated nothing of the kind holds of the real scheme - Go's "
        "ed25519.Verify, hence wallet.VerifySignature, accepts one fixed signature for EVERY body under the small-order key "
        "01 00..00 (oracles go.m.smallkey, go.ed.smallorder reproduce this on every run); the hypotheses are consistent with it "
        "(Sig.toy_dishonest_key_accepts_all: the toy scheme accepts everything under a dishonest key)",
        "CollisionFree SHA-256 on the representations of ALL cells of the two body trees compared (Cell.reprs): 'stops "
        "verifying when any bit changes' is verify_rejects_changed_body = signed_digest_is_body + tree-level injectivity "
        "(Cell.hashO_tree_inj) + SigSound; both trees are trees of ordinary cells (Cell.wfOrd)",
        "a changed bit INSIDE the signature: the mutated string is accepted only if it is itself a signature by a secret "
        "key of the same public key over the (possibly changed) signed part (verified_was_signed) - in the ideal model "
        "nothing more can be said, the key holder may have signed other content",
        "Cell.hashO is Go's Cell.Hash on trees of level-0, non-pruned cells (signed_digest_is_cell_hash: the signed layout is "
        "such a tree when the outgoing messages are); for outgoing messages containing pruned branches / higher-level cells "
        "the digest theorems do not describe Go (never generated)",
        "signature correctness (premise of verify_own_key)",
        "tlb.Message decoding is modelled on the ext_in_msg_info fragment (other message kinds and state-inits with "
        "libraries answer 'unmodelled' and are never generated); exotic structure cells are outside the model; extended "
        "actions carry addr_none / addr_std without anycast (addr_extern, addr_var, anycast answer 'unmodelled')",
        "MessageV5.RawMessages() has no case for ExtensionAction: ExtractRawMessages returns no messages for that form even "
        "when it carries send actions; modelled as the code is (decode_extension_action), not judged",
        "outgoing internal messages are modelled for wallet.Message, SimpleTransfer (with its extra currencies: HashmapE 32 "
        "VarUInteger32 on the shared dictionary model) and ContractDeploy with cell arguments (TongoModel/WalletInt.lean); inside "
        "signed bodies they are arbitrary cells. The whole-message layout theorems are for messages WITHOUT extra currencies; "
        "extra_currencies_carried is the field-level round trip (through C05 marshal_unmarshal_sound)",
    ],
    partial=[
        "the expiry of the Send / SendV2 path and of CreateMessageBody without ValidUntil (now + message lifetime, default 3 min or "
        "WithMessageLifetime) is checked by the oracle go.m.expiry on the decoded captured message (window +-3 s, default / 1 min / "
        "1 h) and stated in the model by C15 send_expiry_is_now_plus_lifetime; the wall clock is an input of the model",
        "'verifies against no other key' is proved for other HONESTLY GENERATED keys only (false of Go for small-order keys: "
        "oracle go.m.smallkey), and both it and 'stops verifying if any bit changes' CONDITIONALLY on the idealised "
        "signature scheme and collision-freedom (verify_rejects_other_key(_highload), verify_rejects_changed_body, "
        "built_message_rejects_changed_body, verified_was_signed): no unconditional or game-based statement",
        "too_many_refused / limit_boundary are about the message COUNT handed to RawSendV2's guard (the payload marshalers' "
        "own limits are separate conjuncts); C14Tlb ties the v3 / v4 / SignedMsgBody / W5Actions descriptors only",
    ],
    level_text="Theorems for all inputs about the Lean model: for all seven sending versions the builders return written-out layouts "
               "that fit a cell (highload: the dictionary with keys 0..n-1 always builds, n <= 254); the digest signed and the digest verified are the representation hash of exactly the cell "
               "holding ids, expiry, seqno, [op] and the messages; the wallet's own key verifies (signature correctness "
               "assumed); decoding the built external message returns the same ids, seqno, expiry and messages with modes in "
               "order (highload: through the C05 dictionary theorems on the shared Hashmap model); UNDER the idealised scheme Sig.Ideal (correct + sound, honestly generated keys only) and "
               "CollisionFree SHA-256 on the cells of the two trees: the built message of every version (signature in front, "
               "or in the last 512 bits for v5; highload included) is rejected for every other HONESTLY GENERATED 32-byte key "
               "(verify_rejects_other_key, _highload) and the signature re-attached to ANY different tree of ordinary cells - a bit, a "
               "ref or any cell at any depth changed - is rejected under the wallet's own key (verify_rejects_changed_body); "
               "under an honest key whatever verifies was signed by a secret key of it (verified_was_signed, needs SigUnforgeable); the "
               "accept-all verifier is excluded by the hypotheses, a toy scheme instantiates them while accepting everything under a "
               "dishonest key - as Go's Ed25519 does under the small-order key 01 00..00 (oracle go.m.smallkey); a requested message with code and data is "
               "marshalled without overflow and read back with exactly that code and data, both present, no library "
               "(carried_init_is_requested), no init without both (no_init_without_code_and_data), a ContractDeploy is addressed to the hash of the "
               "state init it carries (deploy_address_is_carried_init_hash); the batch guard accepts every size up to and including the version's maximum and "
               "refuses max+1 with nothing sent (limit_boundary, too_many_refused); representations of ordinary cells are injective in bits and ref hashes, so any change of the signed "
               "body changes the digest unless SHA-256 collides; over-limit sends are refused before anything is sent. Two "
               "defects found by the check (empty highload payload undecodable, v5 beta unverifiable) are repaired in the "
               "code; their negations on the old model are theorems. The model is tied to the Go code by bit-exact "
               "correspondence on every run, including all 7 versions with up to 255 messages and real Ed25519.",
    level="proof",
    level_note="trusted: Lean kernel, harness, validated SHA-256; IDEALISATIONS (hypotheses of the negative theorems, honest "
               "keys only): signature soundness (SigSound) / unforgeability, SHA-256 collision-freedom; the negative clauses are "
               "conditional theorems, see partial",
    technique="functional model with explicit builder/reader monads, layout lemmas, append/bit-list injectivity, "
              "differential correspondence with real crypto, direct property oracles",
)
