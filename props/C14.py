PROP = dict(
    id="C14",
    lean_modules=[],
    gen=[],
    spec_ops=("m.body", "m.raw", "m.decode", "m.verify"),
    rule="TODO",
    trusted_base=[],
    assumptions=[],
    partial=[],
)
