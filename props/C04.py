PROP = dict(
    id="C04",
    lean_modules=["TongoProofs.C04"],
    gen=["TlbTypes", "IntTypes"],
    spec_ops=("tlb.spec", "tlb.extmsg"),
    info_ops=("tlb.canoninfo",),  # statistics: how many real cells pass the model's canonicity check (a canonical cell the Go code does not reproduce fails op tlb.canon)
    line_timeout="60s",
    rule="primitives EXHAUSTIVELY over the widths: UintN and IntN for every N in 1..64 and 128/256/257 at "
         "0/1/max/top-bit/min/-1 plus random values, VarUInteger n for every n in 1..32 at every byte length "
         "0..n-1 (minimal and all-ones), all BitsN, Unary, Grams incl. values >= 2^63; the structures with a "
         "transcribed schema (40: Grams, CurrencyCollection with non-empty extra-currency dictionaries, MsgAddress, "
         "CommonMsgInfo, TickTock, StateInit with libraries, Message, wallet v3/v4 bodies, SignedMsgBody, the 20 "
         "account / transaction declarations from StorageUsed to Transaction, OutList, W5ExtendedAction(s), wallet "
         "v5r1 bodies, highload v2 body) on random in-domain values (all constructors, optionals "
         "present/absent, Either left/right, enumerations cycling); the envelope of ton.CreateExternalMessage for random address / body "
         "/ optional StateInit / fee; every transaction, message and state-init of the real blocks in "
         "tlb/testdata and ton/testdata re-encoded and hash-compared. non-trivial = distinct (structure, value) "
         "pair; real records by source cell",
    trusted_base=[
        "SPEC lean/TongoModel/Tlb/BlockTlb.lean: the transcription of the block.tlb declarations (block.tlb is "
        "not in the repository; each declaration quotes the schema text) and `specChunk`, the statement of what "
        "a schema prescribes (big-endian natToBits, two's complement intToBits, minimal VarUInteger length, "
        "`#<= n` on bitWidth n bits, tags as written after $/#, Maybe/Either flag bits, ^ = new cell)",
        "translators X1/X2 (regenerated descriptors desc_<S>, integer width facts) and the hand model of the "
        "encoder (shared with C03), tied to the code by the exact correspondence lines tlb.enc / tlb.dec",
        "spec ops tlb.spec / tlb.extmsg compare the cell produced by the REAL tlb.Marshal with specChunk directly "
        "(not with the model of the implementation); struct values reach the spec BY FIELD NAME (byName picks "
        "them by the schema's field names), so exchanging two same-typed Go fields yields a failing input",
        "the alias table BlockTlb.nameAliases, 11 entries (seqno~msg_seqno, rawmessages~messages, rawmessages~payload, "
        "sign~signature, message~body, extendedactions~extended, boundedqueryid~query_id, feeburnnom~fee_burn_num "
        "(the Go field of tlb.BurningConfig is spelled FeeBurnNom), and the three anonymous schema fields "
        "StateInit / Vm / Msgs)",
        "sources of the wallet schemas: abi/schemas/wallets.xml of the repository (v5r1 signed / extension "
        "bodies, highload v2) and the contract's action list; wallet v5 BETA: no schema text is shipped, the "
        "layout is transcribed from the repository's own writer (wallet/wallet_v5_beta.go createSignedMsgBodyCell) "
        "and reader (wallet.MessageV5Beta); go.w5beta checks on every run that the two agree cell for cell",
    ],
    assumptions=[
        "ideal bit-list level: the primitive theorems (writeUint_spec …) are about the IDEAL writers of "
        "TongoModel/Tlb/Basic.lean (Builder.writeUint is by definition the write of natToBits) read against an "
        "arithmetic meaning of the bits (value mod 2^n, two's complement value, minimal VarUInteger length); that the "
        "ideal writer is what Go's byte-level code does (WriteUint's shift loop, WriteInt's sign handling) is C06's "
        "refinement, COMPOSED here: writeUint_on_bitstring / writeInt_on_bitstring (C03.builder_refines_bitstring + "
        "C06.op_refines); minBitsRequired's de Bruijn table is "
        "tied to bitWidth only through the exhaustive VarUInteger/Anycast lines, its proof is C06's",
        "dictionaries: the schema side specDict of `HashmapE n X` is hme_empty$0 / hme_root$1 + C05's Hashmap.marshal "
        "over the keys and values AS THE SCHEMA SERIALISES THEM — the same FUNCTION the implementation model calls, so "
        "impl_eq_spec says nothing new about the tree itself. What that function is worth as a specification is "
        "stated declaratively by specDict_is_hashmap_tree: the root is HTree.toCell of a VALID Hashmap n X (C05's "
        "HTree.Valid) whose meaning is the given entries in ascending key order; that the labels are TON's shortest "
        "form is C05's labels_shortest; the comparison with real dictionaries is C05's go.hm.reencode",
        "highload v2: the conversion of the message list into the dictionary (key i, value mode:uint8 ^message) is "
        "shared between the spec node and the model (hlToDict)",
    ],
    partial=[
        "impl_eq_spec_<S> exists for 40 structures: TickTock, ExtraCurrencyCollection, CurrencyCollection, Grams, "
        "MsgAddress (descriptor and hand-written codec), CommonMsgInfo, StateInit, Message, wallet v3 / v4 bodies, "
        "SignedMsgBody; StorageUsed, StorageExtraInfo, StorageInfo, AccountState, AccountStorage, ExistedAccount, "
        "Account, ShardAccount, AccountStatus, AccStatusChange, ComputeSkipReason, TrStoragePhase, TrCreditPhase, "
        "TrComputePhase, TrActionPhase, TrBouncePhase, SplitMergeInfo, TransactionDescr (7 constructors), BurningConfig, MsgMetadata, "
        "HASH_UPDATE, Transaction; OutList, W5ExtendedAction, wallet v5r1 and v5 beta bodies (+ WalletV5ID), highload v2 body; HashmapE "
        "generically (impl_eq_spec_hashmapE). Outside: block-level structures (BlockInfo, ValueFlow, ShardState, "
        "…: decode models only), config parameters other than 5, abi message bodies",
        "the clause `decoded from real chain data and encoded again reproduces the original cell hash wherever the "
        "encoding is unique`: PROVED as reencode_chain_cell (= C03.reencode_canonical_cell) with uniqueness made a "
        "decidable predicate on the cell (canonicalCell: minimal VarUInteger/Grams prefixes, shortest dictionary labels, "
        "children consumed, ordinary cells), for Message / StateInit / Transaction / Account / CurrencyCollection and "
        "every other descriptor the checker walks; that the cells of the test blocks satisfy the predicate is CHECKED "
        "on every run (tlb.canon / tlb.canoninfo in C03's run: 593 of 593 real transactions and messages), not "
        "proved; where the encoding is not unique the hash changes (C03 noncanonical_cell_witnesses). "
        "reencode_own_output_message (formerly reencode_real) is only about the encoder's own output",
        "counted as obligations in the evidence but not claims (literals / own output): sumtag_literals, "
        "reencode_own_output_message; 41 impl_eq_spec_<S> theorems = the 40 structures + the generic HashmapE",
        "DNS: of tlb/dns.go only DNSText has a schema tie (dnsText_decodes_spec: the DECODER model against the "
        "transcribed `Text` declaration — the library has no encoder; tied to the code by tlb.dnstext / tlb.dns / "
        "tlb.dnsspec in C03's run); the DNSRecord variants are compared model = code only",
        "the transcription of block.tlb is trusted; it is COARSER than block.tlb in three respects: MsgAddressInt and "
        "MsgAddressExt are one node (.msgAddress: all four constructors are accepted wherever an address stands, as "
        "in the Go type), the schema's constraints ({n <= 30}, depth >= 1, the implicit-parameter equations) are not "
        "transcribed (they restrict the domain, not the layout), and the tables of the enumerations (AccountStatus, "
        "AccStatusChange, ComputeSkipReason) are hand-copied constants of the schema text",
    ],
    level_text="Machine-checked (Lean 4), all widths and values, for the 40 structures with a transcribed schema "
               "(not: block-level structures, config parameters other than 5, abi bodies). Primitive layer, about the "
               "ideal writers against the arithmetic meaning of the bits: writeUint_spec (0..64 bits), writeInt_spec "
               "(two's complement, 1..64), writeBigUint_spec / writeBigInt_spec (every width), varuint_minimal "
               "(minimal byte length, every n), limUint_width, unary_spec, sumtag_spec; composed with C06 down to the "
               "byte-level model of the Go writers: writeUint_on_bitstring, writeInt_on_bitstring. Structure layer: "
               "impl_eq_spec — for every regenerated descriptor accepted by the decidable matcher against the "
               "transcribed schema (field order BY NAME: the Go field at each position must carry the schema's "
               "field name modulo snake/Camel case and the 11-entry alias table BlockTlb.nameAliases; widths; tags; references), the "
               "encoder appends exactly the chunk the schema prescribes, for every "
               "in-domain value (induction on descriptors; 17 hand-written codecs, dictionaries, reference chains "
               "and the highload payload included); impl_eq_spec_<S> is "
               "decided by the kernel for 40 structures on the descriptors regenerated from the Go source on "
               "every run (a swapped field / wrong width / wrong tag breaks it); ext_message_layout for "
               "ton.CreateExternalMessage; dnsText_decodes_spec (the decoder of DNS texts returns the concatenation "
               "of the chunks of every cell the `Text` schema prescribes); specDict_is_hashmap_tree (the dictionary part of the schema side is the "
               "cell tree of a valid Hashmap with the given meaning); reencode_chain_cell (a chain cell that is "
               "canonical in the decidable sense is rebuilt bit for bit: same hash). Tie: ~11 000 lines per quick run where the cell of the real "
               "tlb.Marshal must equal the spec encoder's (exhaustive over primitive widths and VarUInteger "
               "lengths), plus model=code lines and the re-encoding of every real transaction/message with the "
               "non-canonical ones listed.",
    level_note="Trusted: the block.tlb transcription and specChunk, Lean kernel, translators, the correspondence "
               "harness. Structures without a transcribed schema are listed under partial.",
    technique="specification encoder from transcribed TL-B declarations; decidable descriptor/schema matcher with a "
              "once-proved soundness theorem; direct differential check of the real encoder against the spec",
)
