PROP = dict(
    id="C04",
    lean_modules=["TongoProofs.C04"],
    gen=["TlbTypes", "IntTypes"],
    spec_ops=("tlb.spec", "tlb.extmsg"),
    line_timeout="60s",
    rule="primitives EXHAUSTIVELY over the widths: UintN and IntN for every N in 1..64 and 128/256/257 at "
         "0/1/max/top-bit/min/-1 plus random values, VarUInteger n for every n in 1..32 at every byte length "
         "0..n-1 (minimal and all-ones), all BitsN, Unary, Grams incl. values >= 2^63; the structures with a "
         "transcribed schema (Grams, CurrencyCollection, MsgAddress, CommonMsgInfo, TickTock, StateInit, Message, "
         "wallet v3/v4 bodies, SignedMsgBody) on random in-domain values (all constructors, optionals "
         "present/absent, Either left/right); the envelope of ton.CreateExternalMessage for random address / body "
         "/ optional StateInit / fee; every transaction, message and state-init of the real blocks in "
         "tlb/testdata and ton/testdata re-encoded and hash-compared. non-trivial = distinct (structure, value) "
         "pair; real records by source cell",
    trusted_base=[
        "SPEC lean/TongoModel/Tlb/BlockTlb.lean: the transcription of the block.tlb declarations (block.tlb is "
        "not in the repository; each declaration quotes the schema text) and `specChunk`, the statement of what "
        "a schema prescribes (big-endian natToBits, two's complement intToBits, minimal VarUInteger length, "
        "`#<= n` on bitWidth n bits, tags as written after $/#, Maybe/Either flag bits, ^ = new cell)",
        "translators X1/X2 (regenerated descriptors desc_<S>, integer width facts) and the hand model of the "
        "encoder (shared with C03), tied to the code by the exact correspondence lines tlb.enc / tlb.dec",
        "spec ops tlb.spec / tlb.extmsg compare the cell produced by the REAL tlb.Marshal with specChunk directly "
        "(not with the model of the implementation); struct values reach the spec BY FIELD NAME (byName picks "
        "them by the schema's field names), so exchanging two same-typed Go fields yields a failing input",
        "the alias table Agree/BlockTlb.nameAliases (seqno~msg_seqno, rawmessages~messages, sign~signature, "
        "message~body)",
    ],
    assumptions=[
        "ideal bit-list level (C06 owns the refinement of boc.BitString); minBitsRequired's de Bruijn table is "
        "tied to bitWidth only through the exhaustive VarUInteger/Anycast lines, its proof is C06's",
        "dictionaries: only the empty HashmapE is in scope here (C05 owns labels; the 9 real transactions whose "
        "out_msgs dictionary uses the hml_same label re-encode to another hash on the unrepaired Hashmap encoder "
        "— counted as non-canonical, reported to C05, repaired there)",
        "wallet v5 / highload bodies have no transcribed schema yet (W5Actions, PayloadHighload)",
    ],
    partial=[
        "impl_eq_spec_<S> exists for: TickTock, ExtraCurrencyCollection, CurrencyCollection, Grams, MsgAddress "
        "(descriptor and hand-written codec), CommonMsgInfo (3 constructors), StateInit, Message, wallet v3 and "
        "v4 bodies, SignedMsgBody. Structures outside this list (Transaction, Account, HASH_UPDATE, HmLabel / "
        "Hashmap, wallet v5 / highload) are covered by C03's round trip and by the real-data re-encode oracle "
        "only: a symmetric mistake there is visible only through real data",
        "reencode_real is proved for cells produced by the encoder; for chain cells it is checked (go.redec on "
        "every real transaction and message), not proved (see C03 ReencodeHash)",
        "the transcription of block.tlb is trusted",
    ],
    level_text="Machine-checked (Lean 4), all widths and values: writeUint_spec (0..64 bits), writeInt_spec "
               "(two's complement, 1..64), writeBigUint_spec / writeBigInt_spec (every width), varuint_minimal "
               "(minimal byte length, every n), limUint_width, unary_spec, sumtag_spec. Structure layer: "
               "impl_eq_spec — for every regenerated descriptor accepted by the decidable matcher against the "
               "transcribed schema (field order BY NAME: the Go field at each position must carry the schema's "
               "field name modulo snake/Camel case and a 4-entry alias table; widths; tags; references), the "
               "encoder appends exactly the chunk the schema prescribes, for every "
               "in-domain value (induction on descriptors, 13 hand-written codecs included); impl_eq_spec_<S> is "
               "decided by the kernel for 11 structures on the descriptors regenerated from the Go source on "
               "every run (a swapped field / wrong width / wrong tag breaks it); ext_message_layout for "
               "ton.CreateExternalMessage. Tie: ~5 000 lines per quick run where the cell of the real "
               "tlb.Marshal must equal the spec encoder's (exhaustive over primitive widths and VarUInteger "
               "lengths), plus model=code lines and the re-encoding of every real transaction/message with the "
               "non-canonical ones listed.",
    level_note="Trusted: the block.tlb transcription and specChunk, Lean kernel, translators, the correspondence "
               "harness. Structures without a transcribed schema are listed under partial.",
    technique="specification encoder from transcribed TL-B declarations; decidable descriptor/schema matcher with a "
              "once-proved soundness theorem; direct differential check of the real encoder against the spec",
)
