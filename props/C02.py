PROP = dict(
    id="C02",
    lean_modules=["TongoProofs.C02"],
    gen=["LevelMask"],
    spec_ops=("cell.hash", "cell.levels"),
    rule="random DAGs; non-trivial = >= 2 cells",
    trusted_base=[],
)
