PROP = dict(
    id="C02",
    lean_modules=["TongoProofs.C02", "TongoProofs.C02Compose", "TongoProofs.C02Kat"],
    gen=["LevelMask", "CellDesc"],
    # the model of newImmutableCell is PROVED equal to the TON definition (impl_eq_spec, table_refines_tree), so its
    # answers are the specification: a mismatch on these ops is a violation with the table as failing input.
    # `spec.levels` is answered on the model side by the Lean SPEC itself (Spec.hashAt/depthAt on the unfolded tree).
    spec_ops=("cell.hash", "cell.levels", "cell.all", "cell.forms", "cell.rehash", "spec.levels", "lmask"),
    rule="(1) random DAGs of ordinary cells (1..40 cells, sharing, chains); (2) WFExotic DAGs over all five cell types "
         "built children first: parents' masks = OR of the children's (shifted right under Merkle cells), pruned "
         "branches carry the real level-wise hashes/depths (computed from the definition) of a generated original with "
         "an extra level bit, or random content with any mask 1..7, Merkle proof/update cells carry the children's "
         "level-0 hash/depth; the distribution counter ty<t>_mask<m> shows which (type, mask) pairs occurred; "
         "(3) every bit length 0..1023 as leaf and with children; (4) chains of depth 1022..1100 and pruned branches "
         "with stored depth 0..65535 under chains / under a Merkle proof (depth-limit boundary); (5) every cell of "
         "every bag of cells found in the repo's testdata directories (whole files, hex/base64 strings in JSON, BOCs "
         "embedded in binary lite-server answers), parsed by the real parser: all cells through the digest op "
         "cell.all and the direct oracle go.boc, roots and a sample of inner cells (exotic ones over-sampled) with "
         "explicit answers; (5a) every cell of the testdata that the library decodes as a tlb.Transaction / tlb.Message (blocks keep "
         "them in cells of their own): decoded hash field vs the definition, plain decoder and caching decoder "
         "(go.msgtx), plus cell.forms; (5c) Merkle updates over two pruned versions (old/new) of a tree with real "
         "pruned branches on both sides, optionally below ordinary wrapper cells (class_merkle_update); "
         "(5d) stateful: one cell built in memory and hashed BETWEEN writes (WriteBit / AddRef, then Hash, Hash256, "
         "HashString and a fresh Hasher, repeatedly): every hash is the hash of the current content (cell.rehash, "
         "go.rehash); accessors GetMerkleRoot / GetLibraryHash and the tlb.MerkleProof / tlb.MerkleUpdate decoders on "
         "generated exotic cells return the stored hashes/depths (go.accessors); (5b) malformed stream: any type byte 0..7, any 3-bit mask, any data length, masks unrelated to "
         "children (model = code exactly, and go.nopanic); (6) level-mask helpers on all masks 0..7 x levels 0..5 and random 32-bit masks. "
         "non-trivial = distinct table with >= 2 cells or an exotic root.",
    trusted_base=[
        "hand model lean/TongoModel/Cell.lean (levelStep/computeInfo/HashInfo.hashAt/depthAt/Table.infos) tied to "
        "boc/immutable_cell.go by exact correspondence of all four level hashes, depths and Level() on every run; "
        "lean/TongoModel/HashMemo.lean (memo table) is a model of the caching control flow only - its tie is the direct "
        "oracle go.cached",
        "translator X4 (harness/cmd/extract/intfuns.go) + lean/TongoModel/GoInt.lean for boc/level_mask.go "
        "(obligation gen_levelmask)",
        "lean/TongoModel/Prim/Sha256.lean validated against crypto/sha256 on every run (prim.sha256); in the theorems "
        "the hash function is a parameter",
        "harness: canonical table dumper h.Canon/RowOf, boc.VerifNewCell (builds cells the way DeserializeBoc does), "
        "the Go transcription of the definition harness/h/spechash.go used by the direct oracles",
    ],
    assumptions=[
        "the model's cell buffer is the ideal bit list zero-padded to the 128 bytes every Go cell buffer spans (parsed "
        "cells, NewCell, NewCellExotic, hook VerifNewCell); bits beyond len are zero (defect #7, BitString.ReadBits "
        "leaving data bits beyond len, was fixed by agent bits: go.readbits checks it on every run)",
        "level masks are 3-bit (what a bag of cells can encode: d1 >> 5); masks > 7 only through lmask",
        "theorems are for every hash function H; nothing about SHA-256 is used (no collision-freedom needed for C02)",
        "mutation of a tree between two calls of the same Hasher is outside the property (CacheInv is the hypothesis "
        "of cache_sound)",
    ],
    partial=[
        "'how the cell was obtained': built in memory from raw parts and parsed from a bag of cells are theorems "
        "(parsed_cells_hash_total); 'produced by the library's proof builder' is a theorem only through C18 on the trees "
        "the prover supports (plain: level 0, ordinary/library cells) - for other inputs it is the direct oracles "
        "go.built / go.builtdict / go.obtained",
        "hash_structural adds nothing over cache_sound (after memo_agrees both sides are Cell.info of the same tree); "
        "in the memo model a failed call drops the table updates, whereas Go keeps the entries of the sub-cells hashed "
        "before the failure - harmless because every theorem holds for ANY table satisfying CacheInv",
        "the specification totalises reads beyond the data of a malformed pruned branch (Spec.storedDepth uses getD 0); "
        "it is only meant on WFExotic cells (short_pruned_reads_padding documents the difference)",
        "known-answer vectors (TongoProofs/C02Kat.lean) are kernel-evaluated TESTS on literals, not theorems",
    ],
    level="proof",
    level_text="Theorems for ALL cell trees (lean/TongoProofs/C02.lean, no sorry/axioms beyond propext, Classical.choice, "
               "Quot.sound): impl_eq_spec - for every tree satisfying the decidable exotic-cell rules WFExotic (in fact "
               "the weaker wfSizes) and within the depth limit, the line-by-line model of newImmutableCell + "
               "immutableCell.Hash/Depth returns at levels 0..4 exactly the hashes/depths of the TON definition "
               "(Spec.hashAt/depthAt: recursion on cell and level with its OWN byte formulas - descriptor arithmetic, completion tag, big-endian depths, byte packing; no helper of the model is used; pinned by kernel-evaluated known-answer vectors with the real SHA-256: empty cell, reference-node hashes of block cells, a pruned branch at 4 levels, a real Merkle proof and Merkle update) and Level() = bit length of "
               "the mask, for every hash function H; reprHash_eq_spec (Cell.Hash = hash at level 3); depth_limit "
               "(ErrDepthIsTooBig iff a non-pruned cell would exceed depth 1024 at some level); no_panic_wf, and "
               "no_panic_any (with the 128-byte cell buffers hashing never panics on ANY tree with 3-bit masks, "
               "whatever types/lengths/refs) with the witness short_pruned_reads_padding (a 2-byte pruned branch is "
               "hashed from the zero padding of its buffer: outside WFExotic, where the definition does not apply); "
               "levelmask_facts / "
               "levelmask_bits (finite table, kernel decide) and gen_levelmask tying the hand model of the mask helpers "
               "to definitions regenerated from boc/level_mask.go on every run; cache_sound / cache_sound_errors / hasher_calls_sound (both tables of a Hasher - immutable cells and hex strings - "
               "any sequence of Hash/HashString calls: every answer, value OR error, equals the uncached function's; "
               "an error is never stored) / hash_structural; reprHash_inj_wfExotic / cell_hash_inj (the representation hash determines a WFExotic tree - any types, masks <= 7 - under collision-freedom of H on the finite list of hashed representations Spec.allReprs; used by C18.proof_boc_collisionFree and available to C01's KeyInjOn); sha256_len32 (the driver's SHA-256 has 32-byte digests); hash_ignores_reads (cells carrying agent bits' byte-level BitString with read cursor and a reference cursor at every node: any number of read-only operations anywhere leaves every hash unchanged) (memoised "
               "hashing with any valid pointer-keyed table = plain recursion; result depends on the tree only); "
               "table_refines_tree (the table evaluation run by the compiled driver = the tree recursion the theorems "
               "are about); forms_eq_spec (Hash256 / HashString / Level()); msg_tx_hash_is_spec (tree-level: composes C16.msg_hash_tree_level / tx_capture_tree_level) and "
               "msg_heap_hash_is_spec (composes C16's heap theorem msg_hash_is_cell_hash: from any cursor state, with any "
               "valid hasher table, Message.UnmarshalTLB reports the hash of the definition); parsed_cells_hash_total (for EVERY byte string the BOC reader model of C07 accepts, "
               "every row of the result unfolds, Table.infos returns a value or the depth error - never a panic, no other "
               "error - and the definition's hashes whenever the cell is WFExotic). Tie, checked on every run: Go Cell.Hash, all four level hashes/depths (hook "
               "VerifHashLevels[Cached]) and Level() vs the compiled model on generated WFExotic DAGs and on every cell "
               "of every testdata BOC; the Lean SPEC itself vs Go on small trees (spec.levels); direct oracles on Go "
               "alone against a Go transcription of the definition (go.spec, go.boc), every Hasher entry point called repeatedly in mixed order, incl. chains of depth 1022..1100 and shared sub-trees at the limit, vs the uncached functions for values AND errors (go.cached), cells obtained from the library's proof builder - cursors pruning at depths 1..4+, ProveKeyInHashmap - compared with an independently constructed structure, the exotic-cell rules and the definition's hash/depth/level of every cell (go.built, go.builtdict), "
               "Level()/Hash256/HashString vs model (cell.forms), decoded message/transaction hash field vs definition (go.msgtx), hash unchanged by reads (go.reads), independent of how the cell was obtained (go.obtained: builder API, "
               "serialise+parse; go.readbits), never a panic on malformed cells (go.nopanic).",
    level_note="assurance = min(theorems about the model, tie): the tie is differential (generated + all testdata), not a "
               "proof about the Go source; SHA-256 is a parameter in the theorems and the validated Lean implementation "
               "in the driver",
    technique="Lean 4: specification by structural recursion (cell) x recursion on the level; per-cell loop invariant "
              "for the model of newImmutableCell with finite mask facts by kernel decide; mutual induction over the "
              "nested cell tree; memo-table invariant; fold-over-array refinement. Go harness with bottom-up WFExotic "
              "generator and an independent transcription of the definition.",
)
