PROP = dict(
    id="C16",
    lean_modules=["TongoProofs.C16"],
    gen=["LevelMask", "TlbTypes", "IntTypes"],
    spec_ops=("msg.hash", "tx.hash", "tx.seq", "msg.seq"),
    rule="synthetic messages: the three info kinds in turn; src/dest over none/extern/std/var (incl. off-schema kinds the "
         "decoder accepts), anycast on a third of the addresses; init absent / inline (all optional parts) / in a "
         "reference; body inline / in a reference, body root of 0..1023 bits and 0..4 references over random DAGs, flipped "
         "to a reference when it does not fit; for every ext-in message a partner differing only in source, import fee, "
         "init, body placement and a standard destination's anycast (normalised hashes must be equal) and a partner "
         "differing in one destination bit / workchain / a variable destination's anycast / one body bit / body length / "
         "whole body (must differ); every transaction of the blocks in tlb/testdata (found by decoding every cell tagged "
         "0111) and every message of those transactions; every one of these also with one leaf replaced by a well-formed "
         "pruned branch (source cell of level 1), through the plain and the hasher-carrying decoder, and four at a time "
         "through ONE shared hasher; scripts over ONE reused tlb.Transaction / tlb.Message variable (decodes of three sources "
         "with SourceBoc()/Hash()/Hash(true) interleaved, fixed and random orders, plain / shared-hasher / fresh-hasher "
         "decoders). non-trivial = distinct message / transaction table",
    trusted_base=[
        "hand model lean/TongoModel/Message.lean (message layout as bit lists, shallow StateInit, the canonical ext-in "
        "builder) tied to tlb/messages.go, tlb/transactions.go by msg.hash / tx.hash on every run: Hash(false), Hash(true), "
        "info kind and the hash of Body.Value are compared for every synthetic and real message",
        "Cell.reprHash / computeInfo of lean/TongoModel/Cell.lean (C02) as the definition of the cell hash; the driver "
        "evaluates it row-wise over tables (Table.infos), the theorems speak about trees",
    ],
    assumptions=[
        "the hash function is a parameter H of every theorem; norm_distinguishes goes through C02 reprHash_eq_spec and keeps ONE "
        "idealisation: collision-freedom of H on the two canonical representations (CollisionFree H [canonRepr .., canonRepr ..]); "
        "it distinguishes destinations fully and bodies by their representation hash; the canonical cells must be well "
        "formed (Spec.WFExotic) and within the depth limit",
        "source_boc_roundtrip goes through C01 roundtrip_go_writer (the writer's order is a theorem there, order_valid): the "
        "premises left are that the writer's de-duplication key (hex representation hash) identifies the sub-cells of the "
        "one source cell (KeyInjOn: no hash collision inside it) and the format's size limits; on the Go side "
        "DeserializeBoc(SourceBoc()) is checked directly for every real transaction, with and without hasher",
        "layout_matches_go_descriptor ties the hand-written bit layout to the descriptor regenerated from tlb/messages.go "
        "through C04 impl_eq_spec_Message, in the domain of the transcribed block.tlb (anycast depth <= 30, no extra "
        "currencies, empty state-init library, ordinary body cell)",
        "mutable cells (TongoModel/MessageHeap.lean): pointers to cells with a bit cursor and a reference cursor, NextRef "
        "rewinding the child in place, ResetCounters, a decoder with no hasher or with a boc.Hasher whose memo table persists "
        "(C02 Memo.hashMemo). Hashing and serialising read the rows (data, length, type, mask, reference slots), never a "
        "cursor — as newImmutableCell does; msg_hash_is_cell_hash requires the hasher table to satisfy C02's CacheInv (true "
        "of a new hasher and preserved by every call: the cells must not have been MUTATED since they were hashed — a "
        "hasher used across writes to a cell is outside the model, as the Go comment on Hasher says). Nil pointers are not "
        "modelled. The fields reported at this level are the cursor-free decode over pointers; the end-to-end layout "
        "theorems (norm_*, msg_roundtrip_all_kinds) are stated on immutable trees and are not transported to pointers",
        "Message.Hash(true) discards the error of Hash256 (an unhashable canonical cell yields the zero hash in Go); the model "
        "keeps the Outcome — the theorems about the normalised hash are about canonical cells that can be hashed",
        "StateInit is modelled shallowly (the library dictionary is its root reference); body cells are ordinary cells "
        "(CopyRemaining turns an exotic body reference into an ordinary cell)",
        "Transaction field decoding is not modelled: the model of Transaction.UnmarshalTLB is the hash/source capture; real "
        "transactions that the Go decoder accepts are the test domain of tx.hash",
    ],
    partial=[
        "decode-after-encode is proved for all three kinds (msg_roundtrip_all_kinds) with extra currencies absent; an internal "
        "message carrying an extra-currency dictionary is covered by the correspondence only",
        "by construction (they unfold the tree-level definitions, marked so in their docstrings): msg_hash_tree_level, "
        "msg_fields_tree_level, tx_capture_tree_level, non_extin_unchanged, norm_hash_def; norm_depends_only_on_dest_body is "
        "immediate from norm_hash_def — the content of 'depends only on destination and body' is "
        "norm_ignores_src_fee_init_placement (encode -> decode end to end)",
    ],
    level_text="Theorems for ALL inputs about the model. On MUTABLE cells: for a cell in any cursor state (partly read, left "
               "over from an earlier decode, descendants likewise) and a decoder with any valid hasher memo table or none, "
               "Message.UnmarshalTLB reports Cell.Hash of the tree the pointer denotes and the fields decoded from the first "
               "bit and first reference — a closed form that mentions neither cursors nor the hasher (msg_hash_is_cell_hash, "
               "msg_hash_hasher_and_cursor_independent, derived from C02 cache soundness, not assumed); the same for "
               "transactions (tx_hash_is_cell_hash, source_boc_of_mutable_cell); an enclosing record with k ^Message / "
               "^Transaction fields reports for each the hash of ITS source cell (enclosing_record_message_hashes, "
               "enclosing_record_tx_hashes; acyclicity of the heap below a pointer that denotes a tree is proved). On "
               "immutable trees: the normalised hash equals the hash of the canonical cell and is "
               "the schema-level re-encoding of the canonical parts, which is a fixed point (norm_hash_def, "
               "norm_is_canonical_reencoding, canonical_is_fixed_point); it depends only on (destination without a standard "
               "address's anycast, body) — proved end to end through encode → decode for every well-formed source address, "
               "import fee < 2^120, absent/inline/referenced state-init and inline/referenced body "
               "(norm_ignores_src_fee_init_placement, body_inline_eq_ref; address, VarUInteger 16 and StateInit "
               "decode-after-encode lemmas); different destinations or bodies give different normalised hashes under the "
               "collision-freedom of H on the two canonical representations (norm_distinguishes; canonRepr_injective, encodeAddr_injective proved); non-ext-in unchanged; "
               "decode-after-encode for internal, external-in and external-out messages (msg_roundtrip_all_kinds); the layout is "
               "the one block.tlb prescribes and the one of the regenerated Go descriptor (layout_is_block_tlb, "
               "layout_matches_go_descriptor: a changed struct tag in tlb/messages.go breaks an obligation); "
               "source_boc_roundtrip through C01 roundtrip_go_writer (whole Go writer, order included); source_boc_tracks_last_decode: on ONE reused Transaction variable "
               "SourceBoc and Hash are functions of the LAST decoded source, whatever the order of the calls. "
               "Tie: exact comparison of Go's Hash(false)/Hash(true) with the model on ~11k messages and ~2k transactions per run "
               "(plain and hasher-carrying decoders, with and without a pruned branch below the source cell), msg.hash.moved: the message cell handed over with cursors moved and the hasher warmed), plus direct oracles (hash == Cell.Hash with/without hasher, moved cursors, enclosing "
               "records, equal/unequal classes, canonical re-encoding through tlb.Marshal, SourceBoc parsed back, Hash(true) "
               "leaves the message unchanged).",
    level_note="trusted: Lean kernel, the C02 specification of the hash and its memo-table model, the block.tlb transcription of "
               "C04, the harness",
    technique="Lean 4 model + theorems; differential correspondence on synthetic and real cells; direct oracles",
)
