PROP = dict(
    id="C16",
    lean_modules=["TongoProofs.C16"],
    gen=["LevelMask", "TlbTypes", "IntTypes"],
    spec_ops=("msg.hash", "tx.hash", "tx.seq", "msg.seq"),
    rule="synthetic messages: the three info kinds in turn; src/dest over none/extern/std/var (incl. off-schema kinds the "
         "decoder accepts), anycast on a third of the addresses; init absent / inline (all optional parts) / in a "
         "reference; body inline / in a reference, body root of 0..1023 bits and 0..4 references over random DAGs, flipped "
         "to a reference when it does not fit; for every ext-in message a partner differing only in source, import fee, "
         "init, body placement and a standard destination's anycast (normalised hashes must be equal) and a partner "
         "differing in one destination bit / workchain / a variable destination's anycast / one body bit / body length / "
         "whole body (must differ); every transaction of the blocks in tlb/testdata (found by decoding every cell tagged "
         "0111) and every message of those transactions; every one of these also with one leaf replaced by a well-formed "
         "pruned branch (source cell of level 1), through the plain and the hasher-carrying decoder, and four at a time "
         "through ONE shared hasher; scripts over ONE reused tlb.Transaction / tlb.Message variable (decodes of three sources "
         "with SourceBoc()/Hash()/Hash(true) interleaved, fixed and random orders, plain / shared-hasher / fresh-hasher "
         "decoders). non-trivial = distinct message / transaction table",
    trusted_base=[
        "hand model lean/TongoModel/Message.lean (message layout as bit lists, shallow StateInit, the canonical ext-in "
        "builder) tied to tlb/messages.go, tlb/transactions.go by msg.hash / tx.hash on every run: Hash(false), Hash(true), "
        "info kind and the hash of Body.Value are compared for every synthetic and real message",
        "Cell.reprHash / computeInfo of lean/TongoModel/Cell.lean (C02) as the definition of the cell hash; the driver "
        "evaluates it row-wise over tables (Table.infos), the theorems speak about trees",
    ],
    assumptions=[
        "the hash function is a parameter H of every theorem; norm_distinguishes goes through C02 reprHash_eq_spec and keeps ONE "
        "idealisation: collision-freedom of H on the two canonical representations (CollisionFree H [canonRepr .., canonRepr ..]); "
        "it distinguishes destinations fully and bodies by their representation hash; the canonical cells must be well "
        "formed (Spec.WFExotic) and within the depth limit",
        "source_boc_roundtrip uses C01 roundtrip; the premise that remains is C01's own order_valid (the order computed by "
        "importCell/reorderCells/revisit for the source cell is a valid layout unfolding to it), plus the format's size "
        "limits; on the Go side DeserializeBoc(SourceBoc()) is checked directly for every real transaction, with and "
        "without hasher",
        "layout_matches_go_descriptor ties the hand-written bit layout to the descriptor regenerated from tlb/messages.go "
        "through C04 impl_eq_spec_Message, in the domain of the transcribed block.tlb (anycast depth <= 30, no extra "
        "currencies, empty state-init library, ordinary body cell)",
        "msg_hash_hasher_independent assumes a sound hasher cache (C02 cache_sound); on the Go side hasher and plain "
        "decoders are compared on every message and transaction (cold and warm cache)",
        "StateInit is modelled shallowly (the library dictionary is its root reference); body cells are ordinary cells "
        "(CopyRemaining turns an exotic body reference into an ordinary cell)",
        "Transaction field decoding is not modelled: the model of Transaction.UnmarshalTLB is the hash/source capture; real "
        "transactions that the Go decoder accepts are the test domain of tx.hash",
    ],
    partial=[
        "decode-after-encode is proved for all three kinds (msg_roundtrip_all_kinds) with extra currencies absent; an internal "
        "message carrying an extra-currency dictionary is covered by the correspondence only",
        "source_boc_roundtrip is relative to C01 order_valid (not proved by the boc slice either: checked per input)",
    ],
    level_text="Theorems for ALL inputs about the model: the reported message / transaction hash is the representation hash "
               "of the whole source cell, fields are decoded from the start of the cell (msg_hash_is_cell_hash, "
               "msg_fields_from_start, tx_hash_is_cell_hash); the normalised hash equals the hash of the canonical cell and is "
               "the schema-level re-encoding of the canonical parts, which is a fixed point (norm_hash_def, "
               "norm_is_canonical_reencoding, canonical_is_fixed_point); it depends only on (destination without a standard "
               "address's anycast, body) — proved end to end through encode → decode for every well-formed source address, "
               "import fee < 2^120, absent/inline/referenced state-init and inline/referenced body "
               "(norm_ignores_src_fee_init_placement, body_inline_eq_ref; address, VarUInteger 16 and StateInit "
               "decode-after-encode lemmas); different destinations or bodies give different normalised hashes under the "
               "collision-freedom of H on the two canonical representations (norm_distinguishes; canonRepr_injective, encodeAddr_injective proved); non-ext-in unchanged; "
               "decode-after-encode for internal, external-in and external-out messages (msg_roundtrip_all_kinds); the layout is "
               "the one block.tlb prescribes and the one of the regenerated Go descriptor (layout_is_block_tlb, "
               "layout_matches_go_descriptor: a changed struct tag in tlb/messages.go breaks an obligation); "
               "source_boc_roundtrip through C01 roundtrip; source_boc_tracks_last_decode: on ONE reused Transaction variable "
               "SourceBoc and Hash are functions of the LAST decoded source, whatever the order of the calls. "
               "Tie: exact comparison of Go's Hash(false)/Hash(true) with the model on ~11k messages and ~2k transactions per run "
               "(plain and hasher-carrying decoders, with and without a pruned branch below the source cell), plus direct oracles (hash == Cell.Hash with/without hasher, moved cursors, enclosing "
               "records, equal/unequal classes, canonical re-encoding through tlb.Marshal, SourceBoc parsed back, Hash(true) "
               "leaves the message unchanged).",
    level_note="trusted: Lean kernel, the C02 specification of the hash, the block.tlb transcription of C04, the harness; open "
               "premise: C01 order_valid",
    technique="Lean 4 model + theorems; differential correspondence on synthetic and real cells; direct oracles",
)
