PROP = dict(
    id="C16",
    lean_modules=["TongoProofs.C16"],
    gen=[],
    spec_ops=("msg.hash", "tx.hash"),
    rule="placeholder",
    trusted_base=[],
    assumptions=[],
    partial=[],
)
