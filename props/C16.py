PROP = dict(
    id="C16",
    lean_modules=["TongoProofs.C16"],
    gen=["LevelMask", "TlbTypes", "IntTypes"],
    spec_ops=("msg.hash", "tx.hash", "tx.seq", "msg.seq"),
    rule="synthetic messages: the three info kinds in turn; src/dest over none/extern/std/var (incl. off-schema kinds the "
         "decoder accepts), anycast on a third of the addresses; init absent / inline (all optional parts) / in a "
         "reference; body inline / in a reference, body root of 0..1023 bits and 0..4 references over random DAGs, flipped "
         "to a reference when it does not fit; for every ext-in message a partner differing only in source, import fee, "
         "init, body placement and a standard destination's anycast (normalised hashes must be equal) and a partner "
         "differing in one destination bit / workchain / a variable destination's anycast / one body bit / body length / "
         "whole body (must differ); every transaction of the blocks in tlb/testdata (found by decoding every cell tagged "
         "0111) and every message of those transactions; every one of these also with one leaf replaced by a well-formed "
         "pruned branch (source cell of level 1), through the plain and the hasher-carrying decoder, and four at a time "
         "through ONE shared hasher; scripts over ONE reused tlb.Transaction / tlb.Message variable (decodes of three sources "
         "with SourceBoc()/Hash()/Hash(true) interleaved, fixed and random orders, plain / shared-hasher / fresh-hasher "
         "decoders). non-trivial = distinct message / transaction table",
    trusted_base=[
        "hand model lean/TongoModel/Message.lean (message layout as bit lists, shallow StateInit, the canonical ext-in "
        "builder) tied to tlb/messages.go, tlb/transactions.go by msg.hash / tx.hash on every run: Hash(false), Hash(true), "
        "info kind and the hash of Body.Value are compared for every synthetic and real message",
        "Cell.reprHash / computeInfo of lean/TongoModel/Cell.lean (C02) as the definition of the cell hash; the driver "
        "evaluates it row-wise over tables (Table.infos), the theorems speak about trees",
    ],
    assumptions=[
        "the hash function is a parameter H of every theorem; norm_distinguishes goes through C02 reprHash_eq_spec and keeps ONE "
        "idealisation: collision-freedom of H on the two canonical representations (CollisionFree H [canonRepr .., canonRepr ..]); "
        "it distinguishes destinations fully and bodies by their representation hash; the canonical cells must be well "
        "formed (Spec.WFExotic) and within the depth limit",
        "source_boc_roundtrip is stated for THE order o and THE bytes the writer model returns (hypotheses "
        "orderWith .. goSpecial = ok o, serializeBocModel .. = ok bs; their existence is source_boc_writer_succeeds) and "
        "concludes parseBoc bs = ok (o.table, o.roots), the root unfolds to the decoded cell, reprHash = reported hash; it is "
        "built from C01's pieces (orderWith_valid, OrderValid.once/sub, C01.roundtrip) in Lemmas/SourceBocPinned.lean. "
        "Premises: the writer's de-duplication key identifies the sub-cells of the one source cell (KeyInjOn: no hash "
        "collision inside it — discharged from CollisionFree for level-0 cells in source_boc_end_to_end, NOT dischargeable "
        "that way for a source cell with pruned branches, where it stays a premise), and the size limit as a condition "
        "on the INPUT: fewer than 2^24 structurally distinct sub-cells (SubCellsBelow). That the output is shorter than "
        "2^63 bytes is derived (serializeOrdered_length_lt). On the Go side DeserializeBoc(SourceBoc()) is checked directly "
        "for every real transaction, with and without hasher",
        "the model's SourceBoc takes the serialiser as a parameter (TongoModel is core Lean and cannot import the proofs-side "
        "presentation cellTable / goKey); the theorems source_boc_end_to_end and source_boc_of_mutable_cell_parses_back "
        "instantiate it with SourceBoc.goSourceBoc = C01's serializeBocModel on cellTable c keyed by the representation "
        "hash. The driver does not print SourceBoc bytes: the bytes are tied by C01's boc.serialize op, the C16 check of "
        "SourceBoc is the direct oracle go.tx.hash / go.tx.seq (parse back, compare hash)",
        "layout_matches_go_descriptor ties the hand-written bit layout to the descriptor regenerated from tlb/messages.go "
        "through C04 impl_eq_spec_Message, in the domain of the transcribed block.tlb (anycast depth <= 30, no extra "
        "currencies, empty state-init library, ordinary body cell)",
        "mutable cells (TongoModel/MessageHeap.lean): pointers to cells with a bit cursor and a reference cursor, NextRef "
        "rewinding the child in place, ResetCounters, a decoder with no hasher or with a boc.Hasher whose memo table persists "
        "(C02 Memo.hashMemo). Hashing and serialising read the rows (data, length, type, mask, reference slots), never a "
        "cursor — as newImmutableCell does; msg_hash_is_cell_hash requires the hasher table to satisfy C02's CacheInv (true "
        "of a new hasher and preserved by every call: the cells must not have been MUTATED since they were hashed — a "
        "hasher used across writes to a cell is outside the model, as the Go comment on Hasher says). Nil pointers are not "
        "modelled. The fields reported at this level are the cursor-free decode over pointers; the end-to-end layout "
        "theorems (norm_*, msg_roundtrip_all_kinds) are stated on immutable trees and are not transported to pointers",
        "Message.Hash(true) discards the error of Hash256 (an unhashable canonical cell yields the zero hash in Go); the model "
        "keeps the Outcome — the theorems about the normalised hash are about canonical cells that can be hashed",
        "StateInit is modelled shallowly (the library dictionary is its root reference); body cells are ordinary cells "
        "(CopyRemaining turns an exotic body reference into an ordinary cell)",
        "Transaction field decoding is not modelled: the model of Transaction.UnmarshalTLB is the hash/source capture; real "
        "transactions that the Go decoder accepts are the test domain of tx.hash",
    ],
    partial=[
        "decode-after-encode is proved for all three kinds (msg_roundtrip_all_kinds) with extra currencies absent; an internal "
        "message carrying an extra-currency dictionary is covered by the correspondence only",
        "by construction (they unfold the tree-level definitions, marked so in their docstrings; NOT counted among the "
        "results in level_text): msg_hash_tree_level, msg_fields_tree_level, tx_capture_tree_level, non_extin_unchanged "
        "(internal / external-out: Hash(true) = Hash(false) is how hashOf is defined), norm_hash_def (what the normalised "
        "hash is), the first conjunct of msg_roundtrip_all_kinds (reprHash c = m.hash, = msg_hash_tree_level), "
        "source_boc_tracks_last_decode / source_boc_and_hash_do_not_change_state (an induction over the op list of a "
        "three-line state machine); norm_depends_only_on_dest_body is immediate from norm_hash_def — the content of "
        "'depends only on destination and body' is norm_ignores_src_fee_init_placement (encode -> decode end to end)",
        "C02's msg_tx_hash_is_spec goes through the tree-level lemmas; the heap-level composition with C02 "
        "reprHash_eq_spec is msg_hash_is_spec_hash here (messages; for transactions compose tx_hash_is_cell_hash the same way)",
    ],
    level_text="Theorems for ALL inputs about the model. On MUTABLE cells: for a cell in any cursor state (partly read, left "
               "over from an earlier decode, descendants likewise) and a decoder with any valid hasher memo table or none, "
               "Message.UnmarshalTLB reports Cell.Hash of the tree the pointer denotes and the fields decoded from the first "
               "bit and first reference — a closed form that mentions neither cursors nor the hasher (msg_hash_is_cell_hash, "
               "msg_hash_hasher_and_cursor_independent, derived from C02 cache soundness, not assumed; msg_hash_is_spec_hash: "
               "on well-formed trees that hash is Spec.reprHash of the TON definition); the same for "
               "transactions (tx_hash_is_cell_hash, source_boc_of_mutable_cell); an enclosing record with k ^Message / "
               "^Transaction fields reports for each the hash of ITS source cell (enclosing_record_message_hashes, "
               "enclosing_record_tx_hashes; acyclicity of the heap below a pointer that denotes a tree is proved). On "
               "immutable trees: the normalised hash (by definition the hash of the canonical cell) is "
               "the hash of the schema-level re-encoding of the canonical parts, which is a fixed point ("
               "norm_is_canonical_reencoding, canonical_is_fixed_point); it depends only on (destination without a standard "
               "address's anycast, body) — proved end to end through encode → decode for every well-formed source address, "
               "import fee < 2^120, absent/inline/referenced state-init and inline/referenced body "
               "(norm_ignores_src_fee_init_placement, body_inline_eq_ref; address, VarUInteger 16 and StateInit "
               "decode-after-encode lemmas); different destinations or bodies give different normalised hashes under the "
               "collision-freedom of H on the two canonical representations (norm_distinguishes; canonRepr_injective, encodeAddr_injective proved); "
               "decode-after-encode of info, init and body for internal, external-in and external-out messages "
               "(msg_roundtrip_all_kinds, conjuncts 2-4); the layout is "
               "the one block.tlb prescribes and the one of the regenerated Go descriptor (layout_is_block_tlb, "
               "layout_matches_go_descriptor: a changed struct tag in tlb/messages.go breaks an obligation); "
               "source_boc_roundtrip: for THE order o and THE bytes bs the whole Go writer model returns (no chosen witness, no "
               "guard: parseBoc bs = ok (o.table, o.roots), root unfolds to the decoded cell, hash equal), size limit as a "
               "hypothesis on the input cell (< 2^24 distinct sub-cells), output length derived; with a regression example "
               "that the padded-table proof of the earlier statement no longer applies; source_boc_end_to_end / "
               "source_boc_of_mutable_cell_parses_back: the same after ANY sequence of decode/SourceBoc/Hash calls on one "
               "reused variable, resp. for the lazy SourceBoc of a mutable cell, with the concrete writer "
               "(goSourceBoc) and level-0 cells. "
               "Tie: exact comparison of Go's Hash(false)/Hash(true) with the model on ~11k messages and ~2k transactions per run "
               "(plain and hasher-carrying decoders, with and without a pruned branch below the source cell), msg.hash.moved: the message cell handed over with cursors moved and the hasher warmed), plus direct oracles (hash == Cell.Hash with/without hasher, moved cursors, enclosing "
               "records, equal/unequal classes, canonical re-encoding through tlb.Marshal, SourceBoc parsed back, Hash(true) "
               "leaves the message unchanged).",
    level_note="trusted: Lean kernel, the C02 specification of the hash and its memo-table model, the block.tlb transcription of "
               "C04, the harness",
    technique="Lean 4 model + theorems; differential correspondence on synthetic and real cells; direct oracles",
)
