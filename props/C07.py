PROP = dict(
    id="C07",
    lean_modules=["TongoProofs.C07"],
    gen=[],
    spec_ops=(),
    rule="(draft)",
    trusted_base=[],
    assumptions=[],
    partial=[],
)
