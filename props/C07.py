PROP = dict(
    id="C07",
    lean_modules=[],
    gen=[],
    spec_ops=(),
    rule="(draft)",
    trusted_base=[],
    assumptions=[],
    partial=[],
)
