PROP = dict(
    id="C07",
    lean_modules=["TongoProofs.C07"],
    gen=["BocHeader"],
    spec_ops=(),
    rule="byte strings: every truncation and every single-byte substitution (256 values on header positions, 8 bit "
         "flips elsewhere) of 24 (thorough: 60) seed bags of cells (Go writer output under all option sets, reference "
         "writer output under all header variants, wallet code / proofs from the repository); random multi-byte "
         "mutations (substitute, flip, delete, insert, duplicate); grammar-based adversarial inputs (magic x flag bits x "
         "size 0..255 x off_bytes 0..255 x counters around 0/1/2^8/2^16/2^32-1/2^63/2^64-1 x root and ref indices "
         "self/backward/out of range/maximal x d1/d2 combinations x with-hashes x exotic first bytes x pruned branches "
         "too short x CRC right/wrong/absent x trailing bytes x wrong index); random bytes bare and behind each magic; "
         "deep chains, DAG bombs; a deterministic sample of all of these additionally through every string / JSON entry point "
         "(go.carrier: hex, base64, quoted, 0x-prefixed, raw/url base64, truncated, odd length; degenerate documents "
         "empty..3 characters and quoting debris; multi-root documents). non-trivial = distinct input byte string",
    trusted_base=[
        "hand model lean/TongoModel/Boc.lean of parseBocHeader / deserializeCellData / DeserializeBoc / "
        "SetTopUppedArray (repaired versions) tied to boc/boc.go by exact comparison of ok <canonical cells, root "
        "hashes> / err / panic on every generated input",
        "Go runtime semantics assumed by the model: 64-bit uint/int wrap-around, slicing/indexing panics out of range, "
        "make panics beyond 2^48 bytes",
        "allocation accounting: the model charges the bytes requested through make/New (element sizes as constants); "
        "the harness measures runtime.MemStats.TotalAlloc around DeserializeBoc",
    ],
    assumptions=[
        "hash_no_panic is about the tree-level hashing model with `parsedBuf` buffers (ceil(len/8) data bytes, as the "
        "parser builds them); its tie to immutable_cell.go belongs to C02 (root hashes compared on every parsed input here)",
        "parse_alloc bounds the model's own accounting of requested bytes (make/New/append as charged in "
        "TongoModel/Boc.lean, incl. the growth of the cell buffer to 128 bytes); Go's TotalAlloc is measured per input",
        "the input is a Go slice: length < 2^63",
        "the theorems are about the REPAIRED reader (fix: commits 9bb2025, 8c4d1ff, 318c847, de8385b, a692f50, 45be0d5 in the "
        "repository under test); on the original code parse_total, parse_sound and parse_alloc are false (witnesses "
        "in corpus/C07/defects.ops, all reproduced on the original code)",
    ],
    partial=[
        "reserialize_ok IS a theorem about the writer MODEL (parse_valid + C01.order_valid: re-serialising any parse result "
        "never errs or panics, for every key identifying its cells -- KeyInjOn is a hypothesis, see C01 assumptions); "
        "toString_bounded bounds the lines printed by the ToString model. That Cell.Hash, ToBoc, ToString of the REAL "
        "code do not panic on parse results is additionally checked per input by go.parse (the tie of the hashing "
        "model to immutable_cell.go belongs to C02; root hashes are compared Go vs model on every parsed input here)",
        "stack use is not modelled as a quantity: the theorems bound the NESTING of any structural recursion over a "
        "parse result by the 1024-level depth limit (unfold_defined with fuel 1026, independent of the input size); "
        "that the Go recursions fit the goroutine stack at that depth is measured (go.parse.deep up to 10^6 cells)",
        "toString_bounded bounds the LINES printed by the model of toStringImpl (<= 4*65536+1, for every table incl. "
        "exponential DAGs); bytes and allocation of the real ToString are checked per input (output <= lines bound x "
        "(depth+263), TotalAlloc <= 32 x output + 1 MiB) and lines:bytes are compared Go vs model (boc.tostring)",
        "measured allocation bound used by the oracle: TotalAlloc(DeserializeBoc) <= 256*|input| + 1 MiB (a 2-byte cell "
        "costs a 112-byte struct and a 128-byte buffer, so 16 bytes per input byte is not achievable); the model "
        "theorem is parse_alloc <= 317*|input| + 8 in requested bytes",
    ],
    level="proof",
    level_text="Theorems for ALL byte strings (Lean 4): parse_total -- the model of the repaired reader, with every Go "
               "slice/index/make as an explicit partial operation and Go integer wrap-around, never panics; "
               "parse_alloc -- bytes requested from the allocator <= 317*|input| + 8 on every path incl. errors; "
               "parse_sound -- every returned cell has <= 1023 bits, <= 4 refs, every ref points to a LATER cell of the "
               "table (acyclic, present), pruned branches are complete, roots are cells, depth <= 1024; unfold_defined -- "
               "hence every root denotes a finite tree and recursion over it nests <= 1025 levels whatever the input; "
               "hash_no_panic -- the hashing model never panics on a parse result; parse_valid / reserialize_ok -- a parse result is a valid layout and the writer model re-serialises it without error; toString_bounded -- printing any root emits <= 4*65536+1 lines whatever the unfolding of the DAG. Tie: model == Go exactly on ~100k (thorough ~2M) adversarial inputs per run; "
               "direct oracle on Go: no panic / fatal crash / cycle / disproportionate allocation, and Hash, ToBoc, "
               "ToString, re-parse of every result succeed.",
    level_note="trusted: Lean kernel, hand model (exactly compared with Go each run), harness, check.py",
    technique="functional model with explicit partiality + Hoare triples over an allocation-counting monad (Lean 4); "
              "differential execution Go vs compiled model; grammar-based adversarial generation",
    line_timeout="120s",
)
