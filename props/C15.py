PROP = dict(
    id="C15",
    lean_modules=["TongoProofs.C15", "TongoProofs.C15Tlb"],
    gen=["WalletConsts", "WalletV5Id", "TlbTypes"],
    # the model IS the specification for these ops: the address is defined as the hash of the state-init laid out as
    # the TON schema says, the send parameters and the confirmation verdict are what the property states
    spec_ops=("w.addr", "w.gwa", "w.gsi", "w.codehash", "w.send", "w.sendc", "w.ctx", "cell.hash", "seed.key", "prim.sha512", "prim.hmac512", "prim.pbkdf2_512"),
    rule="addresses: every supported version x random Ed25519 keys x workchain in {default,0,-1,1,127,-128,255} x "
         "sub-wallet id in {default,0,2^32-1,698983191(+-1),random} x network id in {default,-239,-3,0,int32 bounds,random} "
         "through New().GetAddress, GenerateWalletAddress, GenerateStateInit; unsupported versions and odd key lengths; "
         "sends: scripted blockchain with account none/uninit/frozen/invalid/active (stored seqno 0,1,2^31,2^32-2,2^32-1,"
         "random; well-formed, with dictionary, dictionary bit without ref, truncated, absent data), GetAccountState / "
         "SendMessage errors, 0..max+50 messages, confirmation histories (never, advance at poll 1..5, only after the "
         "deadline, errors interleaved, error answers carrying larger numbers) with 300 ms real waits, plus "
         "scheduling-dependent histories (advance at poll 1..12) judged against the polls actually served. "
         "context cancellation before call 0,1,2,3,4,6,11,13 of a send against a context-honouring blockchain (model comparison "
         "where scheduling cannot matter, direct oracle otherwise); "
         "mnemonics: random 12..24-word texts (255/256 rejected by the version byte), accepted seeds found by an independent "
         "composition and their one-character / eleven-word variants, field-counting oddities (spaces only, tabs, double "
         "spaces, words outside the list), RandomSeed draws; "
         "non-trivial = distinct (version,key,options) address case or distinct (version,state,history,count,errors) send case",
    trusted_base=[
        "translator X1 (TlbTypes): the wallet struct descriptors are regenerated from wallet/*.go on every run; the hand-written "
        "layouts are proved equal to Tlb.encode on them (TongoProofs/C15Tlb.lean), so a field swap / width change breaks an obligation",
        "translator WalletConsts (harness/cmd/extract, go/ast): DefaultSubWallet, MainnetGlobalID, the v5 opcodes, the Version enumeration and maxMessageNumber() literals are re-read from wallet/*.go on every run and stated as decide-d obligations against the model (lean/TongoGen/WalletConsts.lean)",
        "hand model lean/TongoModel/{Wallet,WalletSend,CellOrd,CellRead}.lean tied to wallet/*.go, tlb/account.go by "
        "correspondence on every run (addresses bit-exact through SHA-256, captured payload decoded by fixed offsets)",
        "Lean SHA-256 (TongoModel/Prim/Sha256.lean) validated against crypto/sha256 on every run",
        "the code cells of the versions are inputs of the model (read from wallet.GetCodeByVer by the harness; their "
        "hashes are compared with the model's on every run and checked pairwise distinct)",
    ],
    assumptions=[
        "Cell.hashO (TON definition for level-0 cells) is proved equal to the shared line-by-line model Cell.reprHash on level-0 "
        "trees (hash_model_is_cell_hash) and compared with the real hash on every run",
        "collision-freedom of the hash function on the two representations compared (explicit hypothesis of "
        "address_injective / data_injective); the hash has 32-byte outputs",
        "wall-clock scheduling of the confirmation polls is an input of the model (list of clock readings and answers); "
        "the harness uses real 200-300 ms waits and histories whose verdict does not depend on scheduling for the model "
        "comparison, and judges scheduling-dependent histories against the polls actually served",
        "v1/v2 wallets cannot send (createSignedMsgBodyCell / NextMessageParams panic 'implement me'): modelled as panic",
        "OPTIONS THAT DO NOT CHANGE THE ADDRESS (theorem address_exceptions, exhaustive): v5r1 ignores the sub-wallet id; v1/v2 "
        "ignore sub-wallet id and network id; v3/v4/highload ignore the network id; absent sub-wallet id = explicit default "
        "uint32(698983191+workchain) (v3/v4/highload) resp. 0 (v5 beta); absent network id = explicit -239 (v5); absent "
        "workchain = explicit 0; workchains equal modulo 2^32 collide (int -> int32 / uint32 / uint8 conversions). The v5r1 "
        "wallet id and the v5 beta workchain byte depend on the workchain modulo 256 only (same DATA cell for 0 and 256; the "
        "addresses differ in the workchain field). Distinctness (address_distinct) is stated over (version, key, int32 "
        "workchain, identFields) with pairwise distinct code hashes as a hypothesis on codeOf (checked on the 12 real cells "
        "by the oracle go.codes.distinct on every run)",
        "the three address APIs share newWallet / generateAddress in Go; what differs, and what address_same_all_apis is about, "
        "is how each builds its option list (caller's list in any order with repetitions; GenerateWalletAddress's own list; "
        "GenerateStateInit hashed by the caller) - modelled with applyOptions (last setting wins)",
        "send_params_active / send_params_active_any_fields cover active data cells with an EMPTY plugin / extension dictionary "
        "(any other field values); non-empty and malformed dictionaries are covered by the correspondence runs only",
        "send_record_by_construction and the confirmation theorems are about the PROJECTION sendV2 of the send path (its Sent "
        "record is filled by construction); dest_is_self / sent_message_carries_params are about the message-level model "
        "sendV2Msg, which builds the external message with the C14 builders and is the model compared with RawSendV2's captured "
        "payload (op m.raw); send_msg_refines_record ties the two",
        "mnemonic -> key: HMAC-SHA-512 / PBKDF2-SHA-512 are parameters of the theorems; the driver runs the Lean SHA-512 "
        "primitives with the REAL iteration counts (390 and 100000; about 4 s per accepted seed, so 3 accepted seeds in the "
        "quick tier, 20 in the thorough tier, plus hundreds of rejected ones) and they are validated against crypto/* per run; "
        "Ed25519 key expansion is not modelled (the 32-byte Ed25519 seed is compared)",
    ],
    partial=[
        "the code cells of the twelve versions are pinned to the published hashes by the spec table publishedCodeHash compared with "
        "wallet.GetCodeByVer on every run (op w.codehash; the same hashes stand in abi/interfaces.go); code_hashes_pairwise_distinct "
        "/ code_hash_table_ok instantiate the distinctness hypothesis on that table - the cells themselves stay inputs of the model",
        "'different key / version / workchain / sub-wallet / network give different addresses' is FALSE as literally stated: "
        "the option changes listed in address_exceptions (v5r1 and v1/v2 ignore the sub-wallet id; v1/v2/v3/v4/highload ignore the "
        "network id; absent option = explicit default; workchains equal modulo 2^32) do not change the address. What is proved "
        "(address_distinct) is distinctness over (version, key, int32 workchain, identFields), under local collision-freedom and "
        "with 'the twelve code hashes are pairwise distinct' as a HYPOTHESIS on codeOf that is never instantiated in Lean "
        "(checked on the real cells by the oracle go.codes.distinct on every run)",
        "address_same_all_apis: (1)=(2) is a theorem about option lists (applyOptions: order, repetitions, nil vs explicit "
        "default workchain); (2)=(3) holds by construction in the model AND in Go (GenerateWalletAddress and "
        "GenerateStateInit both call newWallet(...).generateStateInit(); the address is the hash of that state init): there is "
        "no independent computation to compare, the conjunct is definitional; the agreement of the three REAL functions is "
        "established by the correspondence ops w.addr / w.gwa / w.gsi and the oracle go.addr.apis on every run",
        "send_params_active_any_fields assumes the plugin / extension dictionary of the data cell decodes (hypothesis on "
        "readHashmapE); malformed dictionaries are covered by the correspondence runs only; send_record_by_construction is true "
        "by construction (named so)",
        "seed_version_check restates seedToPrivateKey / checkSumSeed over an abstract Kdf (HMAC / PBKDF2 are parameters); the "
        "real primitives are validated by prim.* ops and seed.key lines",
    ],
    level="proof",
    level_text="Theorems for all inputs about the Lean model: the address is (int32 workchain, H(state-init "
               "representation)) with the state-init and data layouts of every version; the three public APIs - each "
               "with its own option list, the caller's in any order and with repetitions - compute the same address "
               "(address_same_all_apis, options_order_irrelevant); composed end to end under explicit local "
               "collision-freedom and pairwise distinct code hashes: the same address implies the same version, key, int32 "
               "workchain and identifying data fields (address_distinct, different_wallets_different_addresses), with the "
               "options that do NOT change the address listed as witnesses (address_exceptions); v5 wallet id injective in "
               "the effective network id; send parameters from the account state for any field contents "
               "(send_params_active_any_fields); the message handed to SendMessage - built by the C14 builders - decodes to "
               "the wallet's own address as destination, the init flag and seqno of NextMessageParams and the requested "
               "messages (dest_is_self, sent_message_carries_params: decode after build on the captured message); confirmation loop returns success "
               "iff a poll before the deadline shows a larger seqno without error (false on the code before the fix: "
               "negation proved on a witness, replayed on Go). The model is tied to the Go code by bit-exact "
               "correspondence of addresses/state-inits and of the decoded captured payloads and results on every run.",
    level_note="trusted: Lean kernel, the harness and its scripted blockchain, SHA-256 primitive (validated), "
               "collision-freedom assumption",
    technique="functional model + structural proofs (append/bit-list injectivity), differential correspondence with "
              "scripted blockchain interface, direct property oracles",
    line_timeout="120s",
)
