PROP = dict(
    id="C15",
    lean_modules=["TongoProofs.C15"],
    gen=[],
    spec_ops=("w.addr", "w.gwa", "w.gsi", "w.send", "w.ctx", "cell.hash"),
    rule="TODO",
    trusted_base=[],
    assumptions=[],
    partial=[],
)
