PROP = dict(
    id="C15",
    lean_modules=["TongoProofs.C15", "TongoProofs.C15Tlb"],
    gen=["WalletConsts", "WalletV5Id", "TlbTypes"],
    # the model IS the specification for these ops: the address is defined as the hash of the state-init laid out as
    # the TON schema says, the send parameters and the confirmation verdict are what the property states
    spec_ops=("w.addr", "w.gwa", "w.gsi", "w.send", "w.sendc", "w.ctx", "cell.hash", "seed.key", "prim.sha512", "prim.hmac512", "prim.pbkdf2_512"),
    rule="addresses: every supported version x random Ed25519 keys x workchain in {default,0,-1,1,127,-128,255} x "
         "sub-wallet id in {default,0,2^32-1,698983191(+-1),random} x network id in {default,-239,-3,0,int32 bounds,random} "
         "through New().GetAddress, GenerateWalletAddress, GenerateStateInit; unsupported versions and odd key lengths; "
         "sends: scripted blockchain with account none/uninit/frozen/invalid/active (stored seqno 0,1,2^31,2^32-2,2^32-1,"
         "random; well-formed, with dictionary, dictionary bit without ref, truncated, absent data), GetAccountState / "
         "SendMessage errors, 0..max+50 messages, confirmation histories (never, advance at poll 1..5, only after the "
         "deadline, errors interleaved, error answers carrying larger numbers) with 300 ms real waits, plus "
         "scheduling-dependent histories (advance at poll 1..12) judged against the polls actually served. "
         "context cancellation before call 0,1,2,3,4,6,11,13 of a send against a context-honouring blockchain (model comparison "
         "where scheduling cannot matter, direct oracle otherwise); "
         "mnemonics: random 12..24-word texts (255/256 rejected by the version byte), accepted seeds found by an independent "
         "composition and their one-character / eleven-word variants, field-counting oddities (spaces only, tabs, double "
         "spaces, words outside the list), RandomSeed draws; "
         "non-trivial = distinct (version,key,options) address case or distinct (version,state,history,count,errors) send case",
    trusted_base=[
        "translator X1 (TlbTypes): the wallet struct descriptors are regenerated from wallet/*.go on every run; the hand-written "
        "layouts are proved equal to Tlb.encode on them (TongoProofs/C15Tlb.lean), so a field swap / width change breaks an obligation",
        "translator WalletConsts (harness/cmd/extract, go/ast): DefaultSubWallet, MainnetGlobalID, the v5 opcodes, the Version enumeration and maxMessageNumber() literals are re-read from wallet/*.go on every run and stated as decide-d obligations against the model (lean/TongoGen/WalletConsts.lean)",
        "hand model lean/TongoModel/{Wallet,WalletSend,CellOrd,CellRead}.lean tied to wallet/*.go, tlb/account.go by "
        "correspondence on every run (addresses bit-exact through SHA-256, captured payload decoded by fixed offsets)",
        "Lean SHA-256 (TongoModel/Prim/Sha256.lean) validated against crypto/sha256 on every run",
        "the code cells of the versions are inputs of the model (read from wallet.GetCodeByVer by the harness; their "
        "hashes are compared with the model's on every run and checked pairwise distinct)",
    ],
    assumptions=[
        "Cell.hashO (TON definition for level-0 cells) is proved equal to the shared line-by-line model Cell.reprHash on level-0 "
        "trees (hash_model_is_cell_hash) and compared with the real hash on every run",
        "collision-freedom of the hash function on the two representations compared (explicit hypothesis of "
        "address_injective / data_injective); the hash has 32-byte outputs",
        "wall-clock scheduling of the confirmation polls is an input of the model (list of clock readings and answers); "
        "the harness uses real 200-300 ms waits and histories whose verdict does not depend on scheduling for the model "
        "comparison, and judges scheduling-dependent histories against the polls actually served",
        "v1/v2 wallets cannot send (createSignedMsgBodyCell / NextMessageParams panic 'implement me'): modelled as panic",
        "the sub-wallet id option is ignored by v1/v2 and v5r1 (no such field / not configurable in the Go API); "
        "injectivity is stated over the fields the version's data holds",
        "mnemonic -> key: HMAC-SHA-512 / PBKDF2-SHA-512 are parameters of the theorems; the driver runs the Lean SHA-512 "
        "primitives with the REAL iteration counts (390 and 100000; about 4 s per accepted seed, so 3 accepted seeds in the "
        "quick tier, 20 in the thorough tier, plus hundreds of rejected ones) and they are validated against crypto/* per run; "
        "Ed25519 key expansion is not modelled (the 32-byte Ed25519 seed is compared)",
    ],
    partial=[],
    level_text="Theorems for all inputs about the Lean model: the address is (int32 workchain, H(state-init "
               "representation)) with the state-init and data layouts of every version; the three public APIs agree; "
               "equal addresses imply equal workchain, code hash and data hash, and (per layout family) equal key and "
               "id fields, under explicit local collision-freedom; v5 wallet id injective in the network id; send "
               "parameters from the account state; destination is the wallet itself; confirmation loop returns success "
               "iff a poll before the deadline shows a larger seqno without error (false on the code before the fix: "
               "negation proved on a witness, replayed on Go). The model is tied to the Go code by bit-exact "
               "correspondence of addresses/state-inits and of the decoded captured payloads and results on every run.",
    level_note="trusted: Lean kernel, the harness and its scripted blockchain, SHA-256 primitive (validated), "
               "collision-freedom assumption",
    technique="functional model + structural proofs (append/bit-list injectivity), differential correspondence with "
              "scripted blockchain interface, direct property oracles",
    line_timeout="120s",
)
