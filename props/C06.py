PROP = dict(
    id="C06",
    lean_modules=["TongoProofs.C06"],
    gen=["MinBits", "BitConsts"],
    spec_ops=("bs.spec", "bs.cellspec"),
    rule="operation sequences of 20..200 random items over all 28 read/write/skip/grow/append/copy methods on "
         "capacities 0..2000 (boundaries over-weighted), widths 0..64 biased to 0/1/7/8/9/55..58/63/64, big-int widths "
         "1..257, unary up to 100, plus the same vocabulary on fresh and BOC-parsed cells with reference slots, and CopyRemaining after k NextRef for every reference count 0..4, every k, every bit-cursor alignment, with ResetCounters interleaved; sources of WriteBitString/Append that have been partially read; counts near 2^60..2^63 and negative counts for every reader; SetTopUppedArray on every last-byte value; "
         "non-trivial = distinct sequence containing at least one read at a cursor that is not byte aligned and "
         "(an operation that returns an error or a read wider than 56 bits). Fast-path grid: ReadUint/PickUint/ReadInt at "
         "every offset of a 128-byte buffer for widths {0,1,7,8,9,16,55..58,63,64} (thorough: every width 0..64) x 5 (7) "
         "contents, and at the last 10 offsets (incl. one past the end) of buffers of every length 1..127 bytes; Fift hex "
         "for every length 0..1023; malformed and non-ASCII text",
    trusted_base=[
        "hand model lean/TongoModel/BitString.lean (+ BitOps.lean) tied to boc/bitString.go, boc/cell.go by "
        "line-by-line correspondence on every run (bs.seq, bs.grid, bs.cell, bs.fromfift, bs.minbits); bs.spec lines are "
        "answered on the Lean side by the ideal bit list itself (the specification), so a mismatch there is a violation",
        "translator X4 (harness/cmd/extract) regenerating minBitsRequired/tab64 from boc/bitString.go (theorem "
        "gen_minBitsRequired) and translator BitConsts (CellBits, ReadUint/ReadInt/WriteUnary limits, 0b111 masks, "
        "suffixToBits table; theorems gen_bit_constants, gen_suffixToBits_sound/complete)",
        "Go runtime semantics assumed by the model: index/slice out of range panics, shifts >= width give 0, negative shift "
        "count panics, int64/uint64 wrap-around, make() zero-fills, append() keeps the prefix",
    ],
    assumptions=[
        "Go `int` arguments are integers in the ZOp layer (negative counts take the branch the repaired Go code takes); "
        "Grow keeps a natural argument",
        "WriteBigUint is stated for non-negative values (big.Int two's-complement bits of a negative argument are modelled "
        "and compared with Go, but not part of the specification)",
        "aliasing is outside the value-level model: ReadBytes on the aligned path returns a sub-slice of the buffer, "
        "WriteBitString/Append read the argument's buffer; the model copies values",
        "slicing panics in the model when the bound exceeds the list length; Go checks against the slice capacity, which "
        "after Grow/append may be larger — unreachable while len <= 8*|buf| (part of the proved invariant)",
        "the mutable cell model (MCell) keeps the non-nil prefix of the four reference slots; cells built through hooks with "
        "a nil slot in the middle are not described",
    ],
    partial=[
        "Grow with a negative argument (shrinks the capacity, possibly below the length or below zero) and NewBitString with a "
        "negative size are outside the model; On/Off at a position between the written length and the capacity are "
        "accepted by the code and dirty the buffer tail (theorem on_beyond_len_witness states the limit)",
        "value-range conditions that remain in Op.WF / ZOp.WF: uint64/int64 ranges given by the Go types, WriteInt width <= 64, "
        "WriteBigInt with a representable value (width >= 1), WriteBigUint with a non-negative value, source bit strings that "
        "hold their bits; outside them the model is compared with Go but the specification is not stated",
        "BinaryString / Print are not modelled",
        "specification = transcription of the implementation for a few operations: WriteInt with a value that is not "
        "representable in the width (sign bit + truncated magnitude, as the code does), Grow (capacity + n), Append "
        "(capacity raised to fit), Copy (cursor reset); for these `op_refines` says model = model, the independent content "
        "being only that the byte-level buffer arithmetic implements them without panic and keeps the invariant",
        "theorems named *_witness and the `example`s are closed literals evaluated by `decide`: tests that pin the old / "
        "limit behaviour, not universally quantified statements",
    ],
    level="proof",
    level_text="Lean 4 theorems about a byte-level model of boc.BitString (buffer bytes, cap/len/rCursor, Go's byte "
               "arithmetic, explicit errors and panics) that is executed against the real Go code on every run. Proved "
               "for ALL inputs: refinement to an ideal bit list (abs = first len bits of the buffer) under the invariant "
               "len<=cap<=8|buf|, rCursor<=len, clean tail; every write method appends exactly the specified bits "
               "(WriteBit/Uint/Int/Byte(s)/BitArray/BitString/BigUint/BigInt/Unary/LimUint), ok iff it fits, otherwise "
               "error after the prefix that fits with the old data intact (write_overflow); ReadUint = big-endian value of "
               "the next n bits for EVERY cursor offset and every width 0..64 on all three code paths (aligned copy, "
               "<57-bit shifted 8-byte load zero-padded at the buffer end, bit loop); ReadInt with 64-bit wrap-around, "
               "ReadByte (16-bit window), ReadBytes, ReadBits (both paths, result canonical), ReadBigUint/ReadBigInt for every "
               "width, ReadUnary, ReadLimUint; underflow => error with the state unchanged; write/read round trips for "
               "uint, int (1..64, all representable values), big int/uint (every width >= 1, so 1..257); minBitsRequired "
               "(de Bruijn lookup, regenerated from the Go source) = bit length for all uint64; op_refines for all 28 "
               "operations and ops_sequence for every list of well-formed operations from NewBitString(cap) (same "
               "outcomes as the ideal bit list, no panic, invariant kept); fifth AddRef errs. The four defects found "
               "(ReadBigUint partial byte, ReadBits dirty tail, parsed-cell buffer, WriteInt width 0/1) and the non-ASCII "
               "Fift-hex acceptance were reproduced on the Go code, repaired by fix: commits, and the model describes the "
               "repaired code; witnesses of the old behaviour are theorems about the `...Old` definitions and corpus lines. "
               "Also theorems: ToFiftHex = hex text of the abstract bits and BitStringFromFiftHex(ToFiftHex s) = the same bits for every length and content (fifthex_roundtrip); the first ceil(len/8) buffer bytes are the canonical packing of the bits (canonical_buffer). GetTopUppedArray = canonical topped-up bytes, SetTopUppedArray inverts it, and the repaired Cell.setTopUppedArray establishes the invariant with capacity 1023 for any parsed data (parsed_cell_inv). CopyRemaining = unread bits + unread references with the source cursors unchanged (copyRemaining_spec). Round 2: int arguments of any sign (zop_refines, zops_sequence, negative_read_errs), On/Off (onOff_refines), the exact language of BitStringFromFiftHex incl. lower case and every malformed text (fifthex_parse_spec), SetTopUppedArray on any tagged array and its error path, and cell-level sequences over a heap of cells with explicit aliasing (cell_ops_sequence, cell_ref_limits, cell_nextRef_resets_child) and cell_no_panic (no cell-level sequence without Grow/Append panics: CopyRemaining's internal panics are unreachable also with shared / self-referencing cells).",
    level_note="layering is a theorem: TongoProofs/Lemmas/BitsBridge*.lean prove that the ideal-level interfaces of the other slices — Tlb.Builder / Tlb.Slice (C03/C04), Tlb.Rd (C08), Json.toFift/fromFift (C20), and the (bits, refs) cell view — are exactly Op.spec / ZOp.spec / fiftSpec / fiftParse / MCell of this slice (operation by operation, same errors), and compose them with op_refines down to the byte-level model (builder_vs_go_write, slice_vs_go_readUint); the two places where those models disagreed with the repaired Go code at the start of round 4 (Builder.writeInt width 0/1, negative widths in TlbRead) are recorded there for their owners. Trusted: Lean kernel; the hand model's fidelity to boc/bitString.go and boc/cell.go is checked, not proved "
               "(>= 15 000 compared lines per quick run, 196 000 thorough, incl. the exhaustive offset x width grid); "
               "translator X4 for minBitsRequired; Go runtime semantics listed in trusted_base",
    technique="refinement proof (abstraction function + invariant) in Lean 4, per-operation simulation lemmas, induction "
              "over operation lists; differential execution of the compiled model against the Go code; direct oracles",
    search_cap=120000,
)
