PROP = dict(
    id="C06",
    lean_modules=["TongoProofs.C06"],
    gen=["MinBits"],
    spec_ops=("bs.spec",),
    rule="operation sequences of 20..200 random items over all read/write methods on capacities 0..2000 (boundaries "
         "over-weighted), widths 0..64 biased to 0/1/7/8/9/55..58/63/64, big-int widths 1..257; "
         "non-trivial = distinct sequence containing at least one read at a cursor that is not byte aligned and "
         "(an operation that returns an error or a read wider than 56 bits)",
    trusted_base=["hand model lean/TongoModel/BitString.lean tied to boc/bitString.go, boc/cell.go by correspondence on every run"],
    assumptions=[],
    partial=[],
)
