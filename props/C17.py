PROP = dict(
    id="C17",
    lean_modules=["TongoProofs.C17"],
    gen=["Shards", "Crc16Table"],
    spec_ops=(),
    rule="shards: random prefix length 0..63 (boundaries over-weighted) x random prefix; addresses inside/outside the "
         "shard incl. ones differing in the last prefix bit; related (ancestor/descendant) and unrelated shard pairs. "
         "non-trivial = distinct (prefix length, prefix) pair",
    trusted_base=["hand model lean/TongoModel/Shard.lean tied to ton/shards.go, ton/block.go by line-by-line correspondence on every run"],
    assumptions=[],
    partial=[],
)
