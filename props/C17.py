PROP = dict(
    id="C17",
    lean_modules=["TongoProofs.C17"],
    gen=["Shards", "Crc16Table"],
    # ops whose model answer IS the specification (the property speaks about these absolute values and the model is
    # proved to satisfy the property theorems): printers of every form, shard algebra, the substitution count (must be 0).
    # The parsers on malformed input (`*.from_*`, `addr.parse`, `adnl.parse`, `prim.*`) are exact-correspondence only.
    spec_ops=("shard.", "addr.raw", "addr.human", "addr.json", "addr.tl", "addr.tlb", "addr.subst", "addr.anycast",
              "adnl.to32"),
    rule="shards: random prefix length 0..63 (boundaries over-weighted) x random prefix; addresses inside/outside the "
         "shard incl. ones differing in the last prefix bit; related (ancestor/descendant) and unrelated shard pairs; "
         "non-trivial = distinct (prefix length, prefix) pair. account ids: workchains -128..127 (all flag combinations x "
         "both alphabets) and int32 boundaries/random for raw, JSON, TL; addresses zero / all-ones / leading zeros / "
         "random; every id goes through every form on Go alone (go.addr.roundtrip) and printer+parser vs model; "
         "non-trivial = distinct (workchain, address). substitutions: all 48 x 63 single-digit substitutions of N "
         "distinct friendly strings (quick N=300, thorough N=4000; the driver runs a csimp-proved table-driven CRC), each must be rejected; non-trivial = distinct "
         "string. malformed stream: fixed list (empty, no colon, short/odd/long/upper-case hex, signs, leading zeros, "
         "int32 overflow, two colons, newlines, wrong length, padding) + 12 mutation kinds applied to valid raw, "
         "friendly, base64, base32 and ADNL strings. ADNL: random addresses, with/without .adnl, upper case, same-length "
         "corruptions incl. '=' padding; non-trivial = distinct address.",
    trusted_base=[
        "translator X4 harness/cmd/extract/intfuns.go (Go integer functions -> BitVec definitions) and the Go-semantics "
        "prelude lean/TongoModel/GoInt.lean",
        "hand models lean/TongoModel/Shard.lean, Address.lean, Prim/Base64.lean, Prim/Base32.lean, Prim/Crc16.lean tied to "
        "ton/account.go, liteclient/adnl.go and Go's encoding/base64, encoding/base32, encoding/hex, strconv, fmt by "
        "line-by-line correspondence on every run",
        "third-party github.com/snksoft/crc (used by AccountIDFromBase64Url) is compared with utils.Crc16 and the model on "
        "every run (prim.crc16, prim.crc16x, go.crc) but not translated",
    ],
    assumptions=[
        "strings are modelled as byte lists; the model answers err for any input containing a byte >= 0x80 where Go "
        "would run rune-aware code (strings.Map, strings.ToUpper); the generators only produce such bytes in positions "
        "where Go also rejects",
        "JSON: UnmarshalJSON is modelled for documents of the form \"<printable ASCII without quote and backslash>\" "
        "(no escapes, no surrounding whitespace) plus the malformed classes generated; encoding/json itself is not modelled",
        "TL-B: all four MsgAddress constructors are modelled at the bit level and proved equal to the TL-B slice's schema "
        "spec (tlb_bits_eq_tlb_spec); a nil *BitString / nil AddrVar pointer (Go panics) is outside this model, see C03",
        "the regenerated MatchAccountID takes the big-endian uint64 of the first 8 address bytes as its input; the byte "
        "read is the hand model `be64` (theorem match_account_is_prefix is on the bytes; op shard.match_acct checks it "
        "against Go on full 32-byte addresses)",
    ],
    partial=[
        "JSON: json_roundtrip and the model of UnmarshalJSON cover documents \"<printable ASCII without quote and backslash>\" "
        "only; documents with escapes (\\u0030 …) or surrounding whitespace, which encoding/json accepts, have no theorem "
        "and are not generated",
        "raw form with a short hex part: raw_short_hex is a theorem for an EVEN number of hex digits (whole bytes); an odd "
        "number of digits (\"0:abc\", also zero-filled by Go) is covered by the correspondence and go.addr.roundtrip only",
        "strings containing bytes >= 0x80 (rune-aware strings.Map / strings.ToUpper in Go): no theorem, model answers err",
        "tongo.ParseAddress on names containing '.' (DNS resolution) is outside the model",
        "the hand models use List.getD / take / drop after explicit length tests (fromBase64Url after len = 36, fromTL after "
        "len >= 4, parseADNL after len = 35, rewriteAddr/be64 on the 32-byte address of a WF id): Go cannot panic at those "
        "points; for address lists shorter than the Go array (excluded by WF in every theorem) the model reads zero bytes",
    ],
    line_timeout="120s",   # the substitution lines do 3024 parses each; generous because checks run under heavy machine load
    level_text=(
        "Theorems for ALL inputs (kernel-checked, no bv_decide/native_decide): shard_roundtrip + shard_roundtrip_parse_encode, "
        "match_is_prefix and match_account_is_prefix (on the address bytes), anycast_rewrite_bytes, "
        "(prefix lengths 0..63), match_block (+ zero shard), parent_child_inverse, child_parent_inverse, "
        "child_extends_prefix, convert_shard_ident (0..63), anycast_rewrite (depths 1..30) on 64/32-bit wrap-around "
        "arithmetic; raw_roundtrip (all int32 x 256-bit), raw_short_hex (zero-fill), human_roundtrip (int8 x 4 flag "
        "combinations x both alphabets), human/tlb_workchain_truncated, parse_dispatch, json_roundtrip, tl_roundtrip, "
        "tlb_roundtrip, tlb_bits_roundtrip, tlb_bits_eq_tlb_spec + tlb_bits_roundtrip_all (all four constructors), adnl_base32_roundtrip, parse_address_flags (root package tongo.ParseAddress: id and "
        "bounce flag survive print->parse), and single_char_rejected (every 48-character valid "
        "string x 48 positions x 63 other digit values is rejected) via CRC linearity. Tie: the integer code of "
        "ton/shards.go, ton/block.go, the anycast arithmetic of ton/account.go, utils.Crc16/Crc16String step and the "
        "256-entry TABLE are REGENERATED from the Go source on every run (X4) and proved equal to the hand model "
        "(gen_* theorems, the table by decide over 256 entries); the string codecs are hand models checked against the "
        "real code through the public API on every run (exact answers incl. err on a malformed stream), plus direct "
        "oracles on Go alone for every round trip, every substitution, shard algebra and the three CRC implementations."
    ),
    level_note="trusted: Lean kernel, translator X4 + GoInt prelude, the hand models of Go's standard-library codecs "
               "(validated differentially on every run), harness dumpers, check.py diff",
    technique="Lean 4 proofs (bit-level extensionality, GF(2)-linearity of the CRC register, finite decide over tables) + "
              "source-to-Lean translation of integer code + differential correspondence",
)
