PROP = dict(
    id="C01",
    lean_modules=[],
    gen=[],
    spec_ops=("boc.parse", "boc.emit"),
    rule="(draft)",
    trusted_base=[],
    assumptions=[],
    partial=[],
)
