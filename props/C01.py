PROP = dict(
    id="C01",
    lean_modules=["TongoProofs.C01"],
    gen=[],
    # ops for which the model IS the specification: the verified reader (parse_emit / roundtrip are theorems about
    # it) and the reference writer
    spec_ops=("boc.parse", "boc.emit"),
    rule="go.writer: random DAGs (1..400 cells; bit lengths biased to 0, 1..7 mod 8, 1016..1023; 0..4 refs; shapes "
         "rand/chain/diamond/bintree-with-shared-levels/wide; ordinary + the four exotic types with consistent masks), "
         "chains of 1024..1027 cells (depth limit), 255/256/257 (thorough: 65535/65536/65537) distinct cells, cell "
         "data sizes around 128/256/32768/65536 (offset width, also doubled by cache bits), and every bag of cells "
         "found in the repository (testdata, wallet code constants, block proofs) -- each serialised with all 2^3 "
         "option sets, from a maximally shared and a fully unshared build, with a fresh and a reused Hasher. "
         "boc.emit/boc.parse/go.reader: random valid tables in random topological orders x random header variants "
         "(3 magics, idx, crc, cache bits, size up to 4, off_bytes up to 8, several roots, absent count, cells with "
         "stored hashes). boc.order / boc.serialize on every go.writer table; every string form (hex, base64 std padded, JSON, single-root and Must readers) and the flags argument of SerializeBoc on two option sets per table. non-trivial = DAG with >= 2 cells and (sharing or a non-byte-aligned cell or an exotic cell), "
         "distinct by table (+ parameters)",
    trusted_base=[
        "hand model lean/TongoModel/Boc.lean (reader) tied to boc/boc.go by exact comparison on every run (boc.parse: "
        "ok <canonical cells, root hashes> / err / panic), incl. every bag of cells found in the repository",
        "reference writer emitBoc: Lean definition = specification of the format (TL-B serialized_boc, "
        "serialized_boc_idx, serialized_boc_idx_crc32c); its Go port in the harness is compared byte for byte (boc.emit)",
        "CRC-32C and SHA-256 Lean primitives, validated against Go's standard library on every run",
        "float expression math.Ceil(float64(bits)/8) of serializeBoc modelled by the integer (bits+7)/8 (exact: bits <= 64)",
    ],
    assumptions=[
        "hash hypotheses of keyInjOn_of_collisionFree / roundtrip_go_writer_sha: CollisionFree H (representations of the "
        "table's cells) AND hlen: every output of H has 32 bytes; hlen is not proved for the Lean sha256 primitive (H is a "
        "parameter; the primitive is validated against Go's crypto/sha256 on every run)",
        "KeyInjOn is DERIVED from CollisionFree in C01 only for level-0 tables (mask 0, no pruned branch: "
        "keyInjOn_of_collisionFree, roundtrip_go_writer_sha; for WFExotic cells with level masks agent hash derives it "
        "from Lemmas/CellHashInj.reprHash_inj_wfExotic for C18's proof cells); otherwise it remains a hypothesis, "
        "and it is FALSE for inconsistent masks even without collisions (a mask-0 parent hashes only the level-0 stored "
        "hash of a pruned child, so two different children can give equal parent hashes): the Go writer would merge such "
        "cells; the generators only build consistent masks",
        "ValidLayout (hypothesis of parse_emit / order_valid / roundtrip_*) includes pruned-branch completeness (a pruned "
        "branch holds 2+34*popcount(mask) bytes), exotic cells starting with their type byte, depth <= 1024",
        "serializeBoc's `flags` argument (two header bits: Cell.ToBoc* pass 0, boc.SerializeBoc the caller's value; the "
        "reader ignores the field; the model and all theorems are for flags = 0) and the capacity "
        "NewBitString((1023+224)*cells) of the output buffer (ErrBitStingOverflow beyond it) are not modelled",
        "BocOrder.lean indexes with `[i]!`/`set!` (total): `orderWith = .ok` does not by itself witness the absence of "
        "index panics in importCell/reorderCells/revisit; that every index used is in range follows from the invariants "
        "ImpInv / Inv that importCell_spec / revisit_spec prove to hold at every step (refs < size, sizes equal), and from "
        "the exact tie boc.order/boc.serialize (a Go panic would show as a mismatch)",
        "order_valid / roundtrip_go_writer are about Order.orderWith (lean/TongoModel/BocOrder.lean), the hand model "
        "of importRoots/importCell/reorderCells/revisit: it is tied to the code on every run by exact comparison "
        "(boc.order: the cell order read off Go's bytes by the verified reader; boc.serialize: all 2^3 outputs byte "
        "for byte), and the verified reader still checks every Go output per input (go.writer/boc.check)",
        "KeyInjOn: the de-duplication key identifies the unfolded tree (for Go's key, the hex SHA-256 representation "
        "hash: no collision among the cells of the input, Hash() succeeds); the input is a ValidLayout (<= 1023 bits, "
        "<= 4 refs, depth <= 1024, exotic cells carry their type byte)",
        "de-duplication is keyed by the SHA-256 representation hash: 'shared sub-trees stored once / structurally "
        "equal' is modulo hash collisions; exotic cells are generated with consistent level masks",
        "a Go slice is shorter than 2^63 bytes (hypothesis is_slice / length < two63)",
        "serializeOrdered is stated for fewer than 2^24 cells (WriteInt(refByteSize, 3) truncates the size field beyond) "
        "and roots among the cells",
    ],
    partial=[
        "the two weight passes of reorderCells are modelled exactly and tied by boc.order, but nothing is proved about "
        "them beyond what order_valid needs: it holds for EVERY special predicate, so the passes cannot break it",
        "canonical: serialize_canonical is a theorem about the model (two presentations of the same trees => same bytes); "
        "the Hasher cache of the Go code (fresh vs reused) is not modelled and is checked per input",
        "Cell-level statements use the pre-order presentation cellTable (no sharing); that Go pointer graphs correspond "
        "to table presentations is the modelling convention (rows = *Cell objects), tied by the harness",
        "hash equality after the round trip relies on the hashing model of C02 (root hashes are compared Go vs model "
        "on every parsed input)",
    ],
    level="proof",
    level_text="Theorems for ALL inputs (Lean 4, no sorry/axioms beyond propext, Classical.choice, Quot.sound): "
               "parse_emit -- the model of the (repaired) Go reader applied to the output of a general reference writer "
               "returns exactly the table and roots written, for every admissible header variant and every bit length "
               "0..1023 (completion tag); ref_width_boundaries / off_width_sufficient -- the widths serializeBoc "
               "computes are sufficient and minimal (incl. 255/256/65535/65536 and doubled offsets with cache bits); "
               "writer_params_ok + roundtrip -- the header arithmetic of serializeBoc for ANY valid cell order yields "
               "bytes that parse back to the same cells; order_valid -- the exact model of Go's ordering (importCell "
               "with de-duplication, reorderCells, revisit) succeeds on every valid DAG presentation and, for EVERY "
               "special predicate, yields a valid layout storing each structurally distinct sub-cell exactly once "
               "whose roots unfold to the input trees; roundtrip_go_writer -- hence the whole writer model round-trips "
               "through the reader for all 2^3 options; keyInjOn_of_collisionFree / roundtrip_go_writer_sha -- the key "
               "hypothesis discharged from collision-freedom for level-0 cells; serialize_canonical -- presentation-"
               "independent bytes; cell_has_presentation / roundtrip_go_writer_single / roundtrip_cell -- the statements on Cell trees, every witness pinned (order = ok o, serialize = ok bs, parse bs = ok (o.table, o.roots), root unfolds to c, same representation hash) and the size conditions derived from the input (fewer than 2^24 rows/nodes). Tie: reader model == Go, order model == Go (cell order and all "
               "8 outputs byte for byte), Go writer through the verified reader, Go reader against the reference "
               "writer, on every generated input.",
    level_note="trusted: Lean kernel, hand model of the reader (exactly compared with Go each run), harness, check.py",
    technique="functional model + structural induction (Lean 4); Hoare triples over an allocation monad; invariant "
              "proofs for the import (de-duplication) and revisit state machines for every `special` predicate; lock-step "
              "simulation of two presentations (canonicity); differential execution Go vs compiled Lean model (reader, "
              "cell order, all 8 outputs byte for byte), verified parser additionally used as per-input oracle",
    line_timeout="120s",
)
