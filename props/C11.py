PROP = dict(
    id="C11",
    lean_modules=["TongoProofs.C11"],
    gen=["AdnlConsts"],
    # the model IS the specification for these ops (frame layout, stream cipher continuity, handshake packet,
    # parameter slices): a disagreement is a violation with the op line as failing input
    spec_ops=("adnl.", "prim."),
    rule="network cases: go.adnl.session = one real liteclient.Connection over loopback TCP against the independent "
         "in-harness ADNL server (random server key per case), 0..50 packets each way at the same time, payload "
         "0..64 KiB incl. boundary sizes, server writes cut at random segment boundaries; go.adnl.faults = real "
         "newEncryptedConnection+handshake, then a server stream with ONE fault: every (bit flip | byte change | "
         "truncation) x (length | nonce | payload | checksum | the handshake confirmation) combination in turn, random "
         "frame and position. non-trivial = distinct (seed, packet sizes, fault) network case. Pure cases (both sides, "
         "same inputs): params accessors, marshal, ParsePacket / receive loop on streams built by the harness's "
         "independent framing (intact, truncated, out-of-bounds length, bit/byte faults in every region), "
         "encryptedConn.send through one cipher at offsets, handshake packet from explicit (keys, shared, params) "
         "incl. too short shared secrets, spec-server accept/reply; AES-256-CTR and SHA-256 against Go's library. "
         "go.adnl.concurrent: 2..16 goroutines x 5..40 packets calling Connection.Send on ONE connection at the same time "
         "(GOMAXPROCS >= 4): the independent server must receive intact frames carrying exactly the multiset sent, per-goroutine "
         "order kept, and the wire bytes must equal the model's single continuous cipher over the frames in arrival order. "
         "go.adnl.magics: payloads BEGINNING with each TL magic the client treats specially (pong, ping, query, answer, auth nonce / authentificate / complete, key-id prefix) at lengths 3,4,8,11,12,13,16,64 in random order: Responses() must yield exactly what the model's Connection.reader forwards (theorem only_pong_consumed: only a 12-byte tcp.pong and tcp.authentificationNonce messages are kept). "
         "go.adnl.connfaults: the fault stream (every kind x region in turn) through the real Connection: Responses() must yield the frames before the faulty one and then NOTHING, not even an empty packet; go.adnl.slowconsumer: the consumer of Responses() sleeps 1.5 s, every packet must still arrive; go.adnl.dialdeadline: NewConnection with a 300 ms dial context, both directions still work 700 ms later; go.adnl.pingrace (THOROUGH tier, real time 28 s): 8 goroutines hammer Connection.Send across ~9 keep-alive pings, every frame the server reads must be intact (the quick tier has the regenerated obligation every_socket_write_is_under_mu of the ClientOrder translator, judged by C12). "
         "go.adnl.coalesced: the server writes the handshake confirmation and the first 1..6 packets in ONE Write, or cut at "
         "every byte position 0..140 (inside / right behind the confirmation) and at random later positions: every packet must "
         "come out of Responses(). thorough adds the 8 MiB-64 / 8 MiB-63 payloads once.",
    trusted_base=[
        "translator AdnlConsts (go/ast, harness/cmd/extract/adnlconsts.go): params slice bounds, cipher key/nonce pairing, handshake key/iv "
        "slices and packet layout, key-id prefix, frame length bounds, TL magics regenerated into TongoGen/AdnlConsts.lean with 7 decide-d "
        "obligations 'code constant = spec constant' (spec: TongoModel/AdnlConstsSpec.lean, magics recomputed as CRC-32 by the kernel); "
        "theorem model_uses_spec_constants ties the hand model to the same spec constants",
        "hand model lean/TongoModel/Adnl.lean tied to liteclient/adnl.go, encrypted_conn.go by exact byte comparison on every run "
        "(pure ops through the standard line diff; bytes observed on the real socket are handed to the compiled model by the "
        "executor itself, harness/cmd/vh/modelproc.go, because client nonces/keys are random at run time)",
        "executable primitives lean/TongoModel/Prim/Sha256.lean, Aes.lean (specification-level, validated against crypto/sha256, "
        "crypto/aes+cipher.NewCTR on every run: prim.sha256, prim.aes256ctr); the theorems treat H and the keystreams as parameters",
        "the in-harness ADNL server harness/cmd/vh/adnlsrv.go (crypto/ecdh X25519 + math/big Edwards->Montgomery + crypto/aes + "
        "crypto/sha256; shares no code with liteclient) as stand-in for 'a server implementing the specification'; its accept/reply "
        "logic is compared with the Lean spec server (adnl.accept, adnl.reply)",
        "hooks liteclient/adnl_verif.go (build tag verif): accessors/constructors only",
    ],
    assumptions=[
        "HLen H: digests have 32 bytes (explicit hypothesis; true of SHA-256)",
        "CollisionFree H {original, altered nonce||payload}: local injectivity of the hash, premise of payload_or_nonce_altered only",
        "DHCommutes cv: the ONLY cryptographic premise of handshake_accept_keys — each side's X25519 scalar times the Montgomery form of the "
        "other side's Ed25519 public key is the same value. keys.go is modelled (newKeys sends the Ed25519 PUBLIC key; sharedKey: "
        "Edwards->Montgomery conversion of the peer key with its failure, own scalar = clamp(SHA-512(seed)[0:32]), clamp_spec); the curve "
        "operations edPub / toMont / x25519 / sha512 are parameters (structure Curve). handshake_accept keeps the weaker form with the shared "
        "secret as a free variable. Checked on the implementation by go.adnl.dh (tongo's curve25519-voi path vs crypto/ecdh + math/big) and "
        "by every network case. TIE of the keys.go model, everything except the scalar multiplication: adnl.keyid (Address.hash vs keyId), "
        "adnl.scalar (the private-key conversion sharedKey uses vs clamp(SHA-512(seed)[0:32]) with the model's SHA-512), adnl.tomont (does "
        "sharedKey accept the peer key — invalid encodings and small-order points rejected — and the Montgomery u vs the model's executable "
        "toMontSpec / isLowOrderU), go.adnl.sharedkey (sharedKey = X25519(that scalar, that u) with crypto/ecdh), go.adnl.newkeys (the PUBLIC "
        "key newKeys sends is the one whose owner shares the returned secret); x25519.X25519's error on an all-zero result is modelled "
        "(handshake_low_order_server_key)",
        "AES-256-CTR and SHA-256 are parameters of the theorems (any keystream function, any hash)",
        "TCP is modelled as a reliable byte stream; io.ReadFull as 'take n bytes when available' (not-yet = no result, no error)",
        "Go's types fix the lengths the model takes as hypotheses: nonce [32]byte, params [160]byte, Ed25519 public key 32 bytes",
    ],
    partial=[
        "corruption_never_delivered (def, NOT a theorem): 'no alteration whatsoever is delivered' is probabilistic for a real hash. "
        "What IS proved: delivered_iff_wellformed_frame_prefix — parser = frame grammar: for an ARBITRARY byte stream (any corruption, any "
        "trailing frames) ParsePacket delivers (q, r) iff the stream is the encryption of a WellFormedFrame for q (a description of a frame "
        "that does not mention the parser) followed by r; marshal_is_wellformed (no hash assumption: corruption is delivered only if it "
        "produced another well-formed frame). The guard-level unfolding of parsePacket is only a lemma (parse_delivers_iff); altered_body_delivered_iff_collision (delivered iff "
        "H collides on original and altered nonce||payload) with corollary payload_or_nonce_altered under CollisionFree on exactly these two "
        "strings; checksum_only_altered (no hash assumption); length_bounds; truncation; corruption_never_delivered_partial_last_frame — a "
        "LARGER declared length is 'not delivered' ONLY when nothing follows the frame (with following frames the reader consumes their bytes; "
        "the iff above is the statement for that case). All are exercised by the fault stream with real SHA-256.",
        "segmentation_independent re-runs the pure receive loop on every prefix of the stream; there is no incremental reader state "
        "(buffer + offset fed chunk by chunk) with a homomorphism theorem — the Go side's chunked reads are covered by the harness "
        "(random segment boundaries) only",
        "authentication (tcp.authentificate / authKey path of connection.go) is not modelled and not exercised",
        "the client-side handshake has no read deadline (a silent server blocks NewConnection/reconnect forever) and a parse error "
        "leaves the Connection 'Connected' but deaf until a send fails: liveness observations outside the property statement",
    ],
    level="proof",
    level_text="Lean 4 theorems for ALL inputs over a hand model of adnl.go/encrypted_conn.go that is parametric in the hash and the "
               "keystreams: frame_roundtrip, stream_continuity (any list of packets, any starting offset; induction with the "
               "keystream offset as invariant), segmentation_independent (after any prefix of the byte stream exactly the complete "
               "frames are delivered and the reader waits), bidirectional, handshake_accept_keys (keys.go modelled; premise: X25519 commutes) + handshake_accept + session_after_handshake against a spec "
               "server written from the protocol description, length_bounds, "
               "checksum_only_altered, delivered_iff_wellformed_frame_prefix (parser = independent frame grammar) and altered_body_delivered_iff_collision (iff), payload_or_nonce_altered (corollary under collision-freedom on the two strings), truncation, only_pong_consumed. "
               "The general 'any alteration is never delivered' stays a def (probabilistic). Tie: every run compares the real code "
               "and the compiled model byte for byte on the same inputs (marshal, ParsePacket, receive loop, send, handshake packet, "
               "params slices), and runs the real client over loopback TCP against an independent server, checking the bytes it "
               "wrote and the packets it delivered against the model; direct oracles on the Go code alone decide violations.",
    level_note="trusted: Lean kernel; SHA-256/AES-CTR definitions (validated against Go's library each run); the independent harness "
               "server and the harness; X25519 and TCP are outside the model (hypotheses).",
    technique="interactive proof (Lean 4) + differential execution of model and implementation + loopback network sessions with fault injection",
    line_timeout="60s",
)
