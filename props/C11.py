PROP = dict(
    id="C11",
    lean_modules=["TongoProofs.C11"],
    gen=[],
    spec_ops=("adnl.", "prim."),
    rule="TODO",
    trusted_base=[],
    assumptions=[],
    partial=[],
    line_timeout="60s",
)
