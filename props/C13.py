PROP = dict(
    id="C13",
    lean_modules=["TongoProofs.C13"],
    gen=[],
    spec_ops=("select.",),
    exhaustive=True,
    rule="TODO",
    trusted_base=[],
    assumptions=[],
    partial=[],
)
