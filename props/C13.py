PROP = dict(
    id="C13",
    lean_modules=["TongoProofs.C13"],
    gen=["PoolSeqno"],
    # for these ops the Lean driver evaluates the SPECIFICATION (specSelect, proved equal to the model of the repaired
    # updateBest in C13.select_spec): a mismatch is a violation with the line as failing input
    spec_ops=("select.",),
    exhaustive=True,
    line_timeout="60s",
    rule="selection: the COMPLETE grid 1..4 members x alive x seqno in {0,1,2,3,2^32-2,2^32-1} x rtt in {1,2,3} x "
         "2 strategies x previous choice (none or any member) = 17 177 328 configurations, in both tiers, through the "
         "real updateBest/BestMasterchainClient; one line = one slice of <= 1296 configurations (answer = digest of "
         "the chosen ids; the go.select.rule line of the same slice names the first configuration that breaks the "
         "rule); plus sampled configurations of 1..8 members with arbitrary heads near a random base (incl. the "
         "uint32 boundary), negative durations, an unknown strategy. wait protocol: scripted scenarios (k<=5 waiters "
         "(WaitMasterchainSeqno and the wait inside BestMasterchainClient) x m head updates on 1..3 connections x "
         "refreshes that switch the best connection x cancellations x real 120 ms timers x waiters held at the entry "
         "of their select while heads arrive) on the real goroutines, observed after every step; adversarial schedules forced through "
         "ctx.Done()/ID()/MasterHead() gates (the two original deadlocks; a waiter parked between subscribe's head "
         "check and its registration while the target head is processed; more than cap pending updates with Run held "
         "back, the last one reaching the target; random unsettled interleavings). non-trivial = distinct grid slice, distinct sampled configuration or "
         "distinct scenario script",
    trusted_base=[
        "hand models lean/TongoModel/PoolSelect.lean and PoolSM.lean of liteapi/pool/conn_pool.go and connection.go; "
        "tie: exhaustive selection grid against the proved specification, scripted wait scenarios against the "
        "transition system, on every run",
        "hook liteapi/pool/export_verif.go (build tag verif): pool members are real *connection values (real mutex, "
        "real SetMasterHead/MasterHead, real update channel) whose IsOK/AverageRoundTrip/Client are injected",
        "Go semantics assumed by PoolSM: sync.RWMutex (Lock needs no reader and no writer; the only modelled reader "
        "is Run), buffered channels, select picks any ready case, deferred unlock runs on panic",
    ],
    assumptions=[
        "time.After firing, context cancellation and the ticker are environment actions of the model (enabled "
        "whenever the thread is parked in its select); real timers and the Go scheduler are outside the model, so "
        "'returns an error once its timeout has elapsed' is proved as 'err only after the timer/ctx action' plus "
        "deadlock freedom, not as a bound in seconds",
        "updateBest is abstracted in PoolSM to 'lock, read every head, store ANY member or keep the choice, unlock'; "
        "the selection rule is proved separately on a consistent snapshot of the members (select_spec) - the two "
        "passes of the real updateBest may see different heads if a connection advances in between",
        "read-only critical sections of the pool lock without blocking operations (bestConnection, "
        "ConnectionsNumber) are not separate threads of the model",
        "'reports a head' = a SetMasterHead publication processed while the connection is the best one; a switch to "
        "a connection that is already ahead notifies nobody until its next head (behaviour of the code, modelled as "
        "is)",
    ],
    partial=[
        "select_spec_orig_partial: the selection rule for the code as ORIGINALLY written holds only under "
        "seqno < 2^32-1 (select_wrap_witness: negation at 2^32-1, replayed on Go, fixed in the repo)",
        "no_deadlock is a safety statement (some thread can always move unless all are parked/finished); liveness "
        "under a fair scheduler ('every blocked thread eventually runs') is not stated",
        "eventually_notified: a head >= target offered to a waiter is in its channel or about to be put there; that "
        "the waiter's select then picks the channel rather than a simultaneously ready timer/ctx is Go's choice "
        "(either outcome is allowed by the model)",
        "wait scenarios compared with the model are quiescent between steps; non-quiescent interleavings are "
        "exercised on the real code only by the go.wait.adv.* oracles (no hang, sound outcomes), not compared "
        "step by step with the model",
    ],
    level="proof",
    level_text="Selection: theorem for ALL configurations (any number of members, any heads/rtts): the repaired "
               "updateBest returns exactly the property's rule - the alive, at-most-one-block-behind member of "
               "least rtt, first among ties (best-ping) / the first such member (first-working), previous choice "
               "when there is none (select_spec); the original uint32 test violates it at seqno 2^32-1 "
               "(select_wrap_witness, decide). Wait protocol: theorems over a transition system with ANY number of "
               "waiters, SetMasterHead callers and connections and ALL interleavings, by inductive invariants: "
               "no_deadlock, wait_outcomes, eventually_notified, subscribe_short_circuit for the repaired code; the "
               "original code deadlocks (two decide-checked counterexample traces, both replayed on the real "
               "goroutines and repaired in the repo). Tie checked on every run: the full 17.2 M-point selection "
               "grid through the real updateBest against the proved specification, scripted wait scenarios on the "
               "real goroutines against the transition system, direct Go oracles for the rule and for hangs.",
    level_note="trusted: Lean kernel, the hand-written PoolSM/PoolSelect models (tied by the checks above), the Go "
               "runtime semantics of RWMutex/channels/select assumed by PoolSM, the hook file; timers and the "
               "scheduler are environment actions",
    technique="functional model + induction over lists (selection); transition system + inductive invariants "
              "closed by case analysis over 17 actions (wait protocol); decide-checked counterexample traces; "
              "exhaustive grid + scripted/adversarial schedules on the real goroutines for the tie",
)
