PROP = dict(
    id="C13",
    lean_modules=["TongoProofs.C13"],
    gen=["PoolConsts"],
    # for these ops the Lean driver evaluates the SPECIFICATION (specSelect, proved equal to the model of the repaired
    # updateBest in C13.select_spec): a mismatch is a violation with the line as failing input
    spec_ops=("select.",),
    exhaustive=True,
    line_timeout="60s",
    rule="selection: the COMPLETE grid 1..4 members x alive x seqno in {0,1,2,3,2^32-2,2^32-1} x rtt in {1,2,3} x "
         "2 strategies x previous choice (none or any member) = 17 177 328 configurations, in both tiers, through the "
         "real updateBest/BestMasterchainClient; one line = one slice of <= 1296 configurations (answer = digest of "
         "the chosen ids; the go.select.rule line of the same slice names the first configuration that breaks the "
         "rule); plus sampled configurations of 1..8 members with arbitrary heads near a random base (incl. the "
         "uint32 boundary), negative durations, an unknown strategy. wait protocol: scripted scenarios (k<=5 waiters "
         "(WaitMasterchainSeqno and the wait inside BestMasterchainClient) x m head updates on 1..3 connections x "
         "refreshes that switch the best connection x cancellations x real 120 ms timers x waiters held at the entry "
         "of their select while heads arrive) on the real goroutines, observed after every step; adversarial schedules forced through "
         "ctx.Done()/ID()/MasterHead() gates (the two original deadlocks; a waiter parked between subscribe's head "
         "check and its registration while the target head is processed; more than cap pending updates with Run held "
         "back, the last one reaching the target; random unsettled interleavings). non-trivial = distinct grid slice, distinct sampled configuration or "
         "distinct scenario script",
    trusted_base=[
        "hand models lean/TongoModel/PoolSelect.lean and PoolSM.lean of liteapi/pool/conn_pool.go and connection.go; "
        "tie: exhaustive selection grid against the proved specification, scripted wait scenarios against the "
        "transition system, translator PoolConsts (comparisons/constants/structure -> obligations), on every run",
        "hook liteapi/pool/export_verif.go (build tag verif): every pool of the harness is built through the REAL "
        "addConnection (members arrive in a non-configuration order; the wrapper that injects "
        "IsOK/AverageRoundTrip/Client is put in the place of the *connection addConnection created, order and "
        "initial best connection are addConnection's); the members are real *connection values (real mutex, real "
        "SetMasterHead/MasterHead, real update channel)",
        "Go semantics assumed by PoolSM: sync.RWMutex (Lock needs no reader and no writer; the only modelled reader "
        "is Run), buffered channels, select picks any ready case, deferred unlock runs on panic",
    ],
    assumptions=[
        "the timeout of a waiter is state of the model (armed when the wait begins; the environment action "
        "wDeadline = 'the timeout has elapsed' makes it due; only then can the select take the timer case; the "
        "repaired code never re-arms it, the original did: timer_rearm_witness). How much real time passes between "
        "the deadline and the return is the Go scheduler's, outside the model: it is measured on the real code by "
        "the oracle go.wait.deadline (tolerance T/2 + 10x the timer lateness observed by a canary)",
        "context cancellation and the ticker are environment actions, enabled whenever the thread is in its select",
        "there is no instant at which all heads are read together: 'the newest head known to the pool' means the "
        "newest head the refresh has read (select_spec_concurrent); the original two-read updateBest violated even "
        "that (select_two_pass_witness, fixed in the repo)",
        "wait_success_spec assumes weak fairness of Run and STRONG fairness of the waiter's receive (Go hands a sent "
        "value directly to a receiver blocked in select; the model's channel is a buffer Run may refill) and that "
        "neither timer nor ctx of that waiter fires",
        "read-only critical sections of the pool lock without blocking operations (bestConnection, "
        "ConnectionsNumber) are not separate threads of the model",
        "'reports a head' = a SetMasterHead publication processed while the connection is the best one, or the head "
        "the new best connection already has at a switch (the original code notified nobody on a switch: found in "
        "round 2, fixed in the repo)",
    ],
    partial=[
        "PoolConsts obligations subscribe_ok, wait_ok, offer_ok, setHead_ok, maxLoop_ok, bestPingReplaces_ok tie the "
        "source comparison to the formula transcribed next to the model (target <= head, max, cur < new, m < s, "
        "c.rtt < b.rtt), not to PoolSM.step / PoolSelect themselves (structure_ok, consts_ok, firstWorking_ok, "
        "bestPing_ok, addConnection_ok do mention the model); a divergence between those formulas and step would "
        "be seen only by the wait.script / selectmv correspondence. Operands are matched by their exact source "
        "text since round 5 (any other operand makes the translator fail)",
        "select_spec_orig_partial: the selection rule for the code as ORIGINALLY written holds only under "
        "seqno < 2^32-1 (select_wrap_witness: negation at 2^32-1, replayed on Go, fixed in the repo)",
        "liveness is split in two theorems: wait_success_spec (the result becomes ok) and wait_returns (the deferred "
        "unsubscribe gets the pool lock: weak fairness of Run and of subscribing waiters, strong fairness of the "
        "waiter's own lock acquisition); all fairness assumptions are hypotheses of the theorems (WeakFair / "
        "StrongFair over an explicit Exec), and both theorems are instantiated on explicit fair executions "
        "(Lemmas/PoolSMFairExample.lean: liveness_nonvacuous, timeout_nonvacuous)",
        "end to end the success clause is two theorems, not one leads-to statement: no_lost_wakeup (state invariant: "
        "best connection at/after the target => a head >= target is in the channel, handed out, or still in the "
        "pipeline setter -> channel -> Run) and wait_success_spec (from 'in the channel / handed out' to ok under "
        "fairness); that the pipeline stages drain is publish_not_dropped + no_deadlock, not a fairness theorem of "
        "its own; while a head is still in the pipeline the best connection may change (then the new one's head is "
        "offered instead)",
        "NoDeadlock is global (some thread can move), not per thread; SetMasterHead callers have no liveness "
        "theorem of their own beyond publish_not_dropped (their send is enabled whenever the channel has room)",
        "offered_head_not_lost: a head >= target offered to a waiter is in its channel or about to be put there; that "
        "the waiter's select then picks the channel rather than a simultaneously ready timer/ctx is Go's choice "
        "(either outcome is allowed by the model)",
        "non-quiescent schedules compared step by step with the model are those realisable with the gates (Run held "
        "inside notifySubscribers with at most one thread queued on the write lock; waiters held at the entry of "
        "their select); arbitrary unsettled interleavings are exercised by go.wait.adv.random on the real code only",
    ],
    level="proof",
    level_text="Selection: theorem for ALL configurations (any number of members, any heads/rtts): the repaired "
               "updateBest returns exactly the property's rule - the alive, at-most-one-block-behind member of "
               "least rtt, first among ties (best-ping) / the first such member (first-working), previous choice "
               "when there is none (select_spec); the original uint32 test violates it at seqno 2^32-1 "
               "(select_wrap_witness, decide). Wait protocol: theorems over a transition system with ANY number of "
               "waiters, SetMasterHead callers and connections and ALL interleavings, by inductive invariants: "
               "no_deadlock, wait_outcomes, offered_head_not_lost, no_lost_wakeup, timeout_bounded, "
               "subscribe_short_circuit, subscribe_atomic, "
               "publish_not_dropped, select_spec_concurrent (the refresh modelled read by read against moving heads) "
               "and the liveness theorems wait_success_spec / wait_returns (fair executions; instantiated on explicit "
               "fair executions: liveness_nonvacuous, timeout_nonvacuous) for the repaired code; "
               "indices_in_range shows that no getD/set default of the model is reachable; the "
               "original code deadlocks, re-arms its timeout, loses a wake-up on a switch, reads heads and round-trip "
               "times twice (decide-checked counterexample traces, all replayed on the real "
               "goroutines and repaired in the repo). Tie checked on every run: the full 17.2 M-point selection "
               "grid through the real addConnection + updateBest against the proved specification, pool start-up "
               "(order of arrival vs configuration order, initial best connection: start_order_and_best, "
               "PoolConsts.addConnection_ok), scripted wait scenarios (quiescent "
               "and gate-forced non-quiescent ones) on the real goroutines against the transition system step by "
               "step, refreshes with heads moved between the reads, direct Go oracles for the rule and for hangs, "
               "and a go/ast translator (PoolConsts) whose obligations tie the comparisons, constants and "
               "lock/channel structure of the source to the model.",
    level_note="trusted: Lean kernel, the hand-written PoolSM/PoolSelect models (tied by the checks above), the Go "
               "runtime semantics of RWMutex/channels/select assumed by PoolSM, the hook file; timers and the "
               "scheduler are environment actions",
    technique="functional model + induction over lists (selection); transition system + inductive invariants "
              "closed by case analysis over the 23 actions (wait protocol); decide-checked counterexample traces; "
              "exhaustive grid + scripted/adversarial schedules on the real goroutines for the tie",
)
