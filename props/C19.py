PROP = dict(
    id="C19",
    lean_modules=["TongoProofs.C19"],
    gen=["TonConnectConsts", "TonConnectMsg"],
    # the model IS the specification here: the signed digest layout, the MAC/expiry rule of the payload, the accept/
    # reject decision and the key returned are what the property states
    spec_ops=("tc.msg", "tc.payload", "tc.parse", "tc.check", "tc.domain", "prim.hmac256", "prim.sha256"),
    rule="digest layout: workchains incl. int32 bounds x domains 0..300 bytes x timestamps over int64 x payloads; payloads: "
         "valid / bit-flipped / short / long / upper-case / non-hex / foreign secret x fresh / expired / future / arbitrary "
         "times; proofs: every wallet version with a known code hash (V1R1..V5R1) x random key pairs x honest proof with key "
         "from the get-method (tiny-int / int257 stack), from the state-init after 5 kinds of get-method failure, without "
         "state-init; one variation each of: payload or domain refused, expired / future timestamp, timestamp / domain / "
         "payload / address substituted after signing, foreign signer, signature bit flip / wrong length / bad base64, foreign "
         "state-init, foreign or short or negative get-method key, address forms (short hex, friendly, two colons, bad "
         "workchain, upper case), state-init without code / data / both, unknown code, split-depth, short data, lockup code, "
         "several roots, not a BOC; Ed25519 verdicts computed with crypto/ed25519 for every candidate key; real-clock "
         "boundary cases (lifetime -1/0/+1 s) and end-to-end flows as direct oracles. "
         "get-method stub answering 17 failure shapes (executor error, exit codes 2 and 2^32-1, nil / empty stack, null, NaN, "
         "cell, slice, builder, continuation, tuple, unknown and empty constructor names, int+null, null+int, two ints); "
         "StaticDomain against ports, sub-domains, case, trailing dot, scheme, Unicode look-alikes and normalisation forms, "
         "punycode, NUL, empty; "
         "non-trivial = distinct (version, key pair) with its family of proofs",
    trusted_base=[
        "translator TonConnectConsts (harness/cmd/extract, go/ast): the two prefixes and the default lifetimes are re-read from tonconnect/server.go on every run and stated as decide-d obligations against the model",
        "hand model lean/TongoModel/TonConnect.lean tied to tonconnect/server.go, proof.go by correspondence on every run",
        "Lean SHA-256 and HMAC-SHA-256 (TongoModel/Prim) validated against crypto/sha256, crypto/hmac on every run",
        "results of standard-library / already-covered parsers are inputs of the model: base64 decoding of the signature, "
        "bag-of-cells parsing of the state-init string (C07), the executor's get-method answer",
        "Ed25519 verdicts are supplied by the harness from crypto/ed25519 (not re-implemented in Lean)",
    ],
    assumptions=[
        "IDEAL SIGNATURE SCHEME (Sig.Ideal, lean/TongoProofs/Lemmas/SigIdeal.lean) - a local hypothesis of every negative "
        "theorem: SigCorrect; SigUnforgeable (verify pk m s = true -> exists sk, pk = pub sk and s = sign sk m); SigBinds (a "
        "signature determines its signer's public key and, on 32-byte digests, the digest). Real Ed25519 satisfies them only "
        "up to negligible probability against bounded adversaries; the same negatives are exercised with crypto/ed25519 on "
        "every run. The accept-all verifier does NOT satisfy them (theorem Sig.accept_all_violates); a toy scheme does "
        "(Sig.toy_ideal), so the theorems are not vacuous",
        "CollisionFree SHA-256 on the byte strings compared (inner and outer message strings of the two messages; the "
        "representations of the cells of the supplied and of the genuine state init) - local hypotheses, with a non-vacuity example",
        "unforgeability of the 16-byte truncated HMAC-SHA-256 of the payload under the server secret: the theorems say a "
        "payload whose MAC does not match is refused (reject_payload_forged, reject_proof_with_bad_payload); that nobody "
        "without the secret can make it match is NOT a theorem",
        "the substituted-field theorems assume the presented address decodes to 32 bytes: convertTonProofMessage puts the "
        "hex-decoded address into the signed message WITHOUT a length check while ton.ParseAccountID left-pads a short "
        "hex part to 32 bytes for the lookup; with a shorter address the byte layout is not injective (documented, no "
        "practical forgery found: it needs the victim's signature over a colliding layout)",
        "check_total is about CheckProof's own logic: boc.DeserializeBocBase64, the executor / abi.GetPublicKey and the two "
        "callbacks are represented by their results (error / roots, failure / integer, verdicts); a panic inside them "
        "(C07/C08 totality) is outside the statement and not composed",
        "cells are hashed with the level-0 formula Cell.hashO = Go's Cell.Hash on trees of level-0 non-pruned cells "
        "(C15 hash_model_is_cell_hash); supplied state inits containing pruned branches / cells of higher level are outside "
        "the model (hand-tested: rejected on both sides), and the theorems about an attacker-supplied state init assume a "
        "tree of ordinary cells (Cell.wfOrd)",
        "time.Since is read once per check and is an input of the model (nanoseconds); timestamps |t| < 2^62 (no Duration "
        "saturation modelled); boundary behaviour at exactly the lifetime is a theorem and is replayed on the real clock",
        "ton.ParseAccountID is modelled on strings with exactly one colon (the only ones convertTonProofMessage lets through)",
        "state-inits with a library dictionary are outside the modelled fragment (answer 'unmodelled', never generated)",
        "the domain and payload callbacks are opaque verdicts of the model (Env.domainOk / payloadOk); StaticDomain and the "
        "server's own CheckPayload are modelled separately and composed in reject_domain_static / reject_proof_with_bad_payload",
    ],
    partial=[
        "'accepted ONLY for the key controlling the address' is proved CONDITIONALLY on the ideal signature scheme and "
        "collision-freedom (reject_foreign_signer, reject_substituted_address / _domain / _timestamp / _payload, "
        "reject_stateinit_of_other_key, accepted_was_signed): no unconditional or computational (game-based) statement",
        "the get-method path trusts the executor's answer: that the key returned by get_public_key IS the key controlling "
        "the account is the blockchain's semantics, outside the model; the state-init path is proved "
        "(stateinit_for_address_has_owner_key) for the wallet data layouts of the known versions",
    ],
    level_text="Theorems for all inputs about the Lean model of CheckProof: an honest proof (CreateSignedProof) for any "
               "wallet version with a known code hash is accepted and yields the wallet key, via the get-method or via the "
               "state-init (signature correctness assumed). Decision-logic rejections proved outright: payload refused / MAC "
               "mismatch / payload expired (composed with the server's CheckPayload) / proof expired with strict boundary / "
               "domain / undecodable fields / state-init hash mismatch / unknown or key-less wallet code. CRYPTOGRAPHIC "
               "rejections proved UNDER the ideal signature scheme Sig.Ideal (correct + unforgeable + binding) and "
               "CollisionFree SHA-256: whatever is accepted was signed by a secret key of the returned key over the digest of "
               "the presented fields (accepted_was_signed); a proof signed by another key than the one controlling the "
               "account is rejected (reject_foreign_signer); a signature made over other address / workchain / domain / "
               "timestamp / payload is rejected (reject_substituted_*, through the injective byte layout message_binds); a "
               "supplied state init that hashes to the account address holds the owner's key, so a state init of another key "
               "plus that key's signature is rejected (reject_stateinit_of_other_key). The accept-all verifier is excluded by "
               "the hypotheses (accept_all_violates), a toy ideal scheme and a collision-free 32-byte hash instantiate them. "
               "CheckProof's own logic and ParseStateInit never panic and only hand 32-byte keys to ed25519.Verify (false "
               "before the repairs: negation proved on a witness and replayed on Go). The model is tied to the Go code by exact "
               "correspondence of digest, payload verdicts, ParseStateInit and CheckProof outcomes on every run, with real Ed25519/HMAC.",
    level_note="trusted: Lean kernel, harness incl. stub executor, validated SHA-256/HMAC primitives; IDEALISATIONS (hypotheses "
               "of the negative theorems): ideal signature scheme, SHA-256 collision-freedom; assumption: HMAC unforgeability",
    technique="decision-logic model + case analysis proofs, parse/print round-trip lemmas, injectivity of fixed-width "
              "encodings, differential correspondence with real crypto, direct property oracles (incl. a zero-key forgery)",
)
