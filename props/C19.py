PROP = dict(
    id="C19",
    lean_modules=["TongoProofs.C19"],
    gen=["TonConnectConsts", "TonConnectMsg"],
    # the model IS the specification here: the signed digest layout, the MAC/expiry rule of the payload, the accept/
    # reject decision and the key returned are what the property states
    spec_ops=("tc.msg", "tc.payload", "tc.parse", "tc.check", "tc.domain", "prim.hmac256", "prim.sha256"),
    rule="digest layout: workchains incl. int32 bounds x domains 0..300 bytes x timestamps over int64 x payloads; payloads: "
         "valid / bit-flipped / short / long / upper-case / non-hex / foreign secret x fresh / expired / future / arbitrary "
         "times; proofs: every wallet version with a known code hash (V1R1..V5R1) x random key pairs x honest proof with key "
         "from the get-method (tiny-int / int257 stack), from the state-init after 5 kinds of get-method failure, without "
         "state-init; one variation each of: payload or domain refused, expired / future timestamp, timestamp / domain / "
         "payload / address substituted after signing, foreign signer, signature bit flip / wrong length / bad base64, foreign "
         "state-init, foreign or short or negative get-method key, address forms (short hex, friendly, two colons, bad "
         "workchain, upper case), state-init without code / data / both, unknown code, split-depth, short data, lockup code, "
         "several roots, not a BOC; Ed25519 verdicts computed with crypto/ed25519 for every candidate key; real-clock "
         "boundary cases (lifetime -1/0/+1 s) and end-to-end flows as direct oracles. "
         "get-method stub answering 17 failure shapes (executor error, exit codes 2 and 2^32-1, nil / empty stack, null, NaN, "
         "cell, slice, builder, continuation, tuple, unknown and empty constructor names, int+null, null+int, two ints); "
         "StaticDomain against ports, sub-domains, case, trailing dot, scheme, Unicode look-alikes and normalisation forms, "
         "punycode, NUL, empty; "
         "non-trivial = distinct (version, key pair) with its family of proofs",
    trusted_base=[
        "translator TonConnectConsts (harness/cmd/extract, go/ast): the two prefixes and the default lifetimes are re-read from tonconnect/server.go on every run and stated as decide-d obligations against the model",
        "hand model lean/TongoModel/TonConnect.lean tied to tonconnect/server.go, proof.go by correspondence on every run",
        "Lean SHA-256 and HMAC-SHA-256 (TongoModel/Prim) validated against crypto/sha256, crypto/hmac on every run",
        "results of standard-library / already-covered parsers are inputs of the model: base64 decoding of the signature, "
        "bag-of-cells parsing of the state-init string (C07), the executor's get-method answer",
        "Ed25519 verdicts are supplied by the harness from crypto/ed25519 (not re-implemented in Lean)",
    ],
    assumptions=[
        "signature correctness of Ed25519 (premise of accept_honest); unforgeability and collision-freedom of SHA-256 are "
        "what 'a proof signed for other address/domain/timestamp/payload or by another key is rejected' reduces to "
        "(message_binds, message_binds_digest) - they are assumptions, exercised with real Ed25519 in every run",
        "time.Since is read once per check and is an input of the model (nanoseconds); timestamps |t| < 2^62 (no Duration "
        "saturation modelled); boundary behaviour at exactly the lifetime is a theorem and is replayed on the real clock",
        "ton.ParseAccountID is modelled on strings with exactly one colon (the only ones convertTonProofMessage lets through)",
        "state-inits with a library dictionary are outside the modelled fragment (answer 'unmodelled', never generated)",
    ],
    partial=[],
    level_text="Theorems for all inputs about the Lean model of CheckProof: an honest proof (CreateSignedProof) for any "
               "wallet version with a known code hash is accepted and yields the wallet key, via the get-method or via the "
               "state-init (signature correctness assumed); each rejection clause (payload refused / MAC mismatch / payload "
               "expired / proof expired with strict boundary / domain / undecodable fields / state-init hash mismatch / "
               "unknown or key-less wallet code) is proved; the signed byte layout is injective in (workchain, address, "
               "domain, timestamp, payload), so substitutions change the digest unless SHA-256 collides; CheckProof and "
               "ParseStateInit never panic and only hand 32-byte keys to ed25519.Verify (false before the repairs: negation "
               "proved on a witness and replayed on Go). The model is tied to the Go code by exact correspondence of digest, "
               "payload verdicts, ParseStateInit and CheckProof outcomes on every run, with real Ed25519/HMAC.",
    level_note="trusted: Lean kernel, harness incl. stub executor, validated SHA-256/HMAC primitives; assumptions: Ed25519 "
               "unforgeability, SHA-256 collision-freedom",
    technique="decision-logic model + case analysis proofs, parse/print round-trip lemmas, injectivity of fixed-width "
              "encodings, differential correspondence with real crypto, direct property oracles (incl. a zero-key forgery)",
)
