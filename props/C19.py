PROP = dict(
    id="C19",
    lean_modules=[],
    gen=[],
    spec_ops=("tc.msg", "tc.payload", "tc.parse", "tc.check", "prim.hmac256"),
    rule="TODO",
    trusted_base=[],
    assumptions=[],
    partial=[],
)
