PROP = dict(
    id="C19",
    lean_modules=["TongoProofs.C19"],
    gen=["TonConnectConsts", "TonConnectMsg"],
    # the model IS the specification here: the signed digest layout, the MAC/expiry rule of the payload, the accept/
    # reject decision and the key returned are what the property states
    spec_ops=("tc.msg", "tc.payload", "tc.parse", "tc.check", "tc.domain", "prim.hmac256", "prim.sha256"),
    rule="digest layout: workchains incl. int32 bounds x domains 0..300 bytes x timestamps over int64 x payloads; payloads: "
         "valid / bit-flipped / short / long / upper-case / non-hex / foreign secret x fresh / expired / future / arbitrary "
         "times; proofs: every wallet version with a known code hash (V1R1..V5R1) x random key pairs x honest proof with key "
         "from the get-method (tiny-int / int257 stack), from the state-init after 5 kinds of get-method failure, without "
         "state-init; one variation each of: payload or domain refused, expired / future timestamp, timestamp / domain / "
         "payload / address substituted after signing, foreign signer, signature bit flip / wrong length / bad base64, foreign "
         "state-init, foreign or short or negative get-method key, address forms (short hex, friendly, two colons, bad "
         "workchain, upper case), state-init without code / data / both, unknown code, split-depth, short data, lockup code, "
         "several roots, not a BOC; Ed25519 verdicts computed with crypto/ed25519 for every candidate key; real-clock "
         "boundary cases (lifetime -1/0/+1 s) and end-to-end flows as direct oracles. "
         "get-method stub answering 17 failure shapes (executor error, exit codes 2 and 2^32-1, nil / empty stack, null, NaN, "
         "cell, slice, builder, continuation, tuple, unknown and empty constructor names, int+null, null+int, two ints); "
         "StaticDomain against ports, sub-domains, case, trailing dot, scheme, Unicode look-alikes and normalisation forms, "
         "punycode, NUL, empty; "
         "non-trivial = distinct (version, key pair) with its family of proofs",
    trusted_base=[
        "translator TonConnectConsts (harness/cmd/extract, go/ast): the two prefixes and the default lifetimes are re-read from tonconnect/server.go on every run and stated as decide-d obligations against the model",
        "hand model lean/TongoModel/TonConnect.lean tied to tonconnect/server.go, proof.go by correspondence on every run",
        "Lean SHA-256 and HMAC-SHA-256 (TongoModel/Prim) validated against crypto/sha256, crypto/hmac on every run",
        "results of standard-library / already-covered parsers are inputs of the model: base64 decoding of the signature, "
        "bag-of-cells parsing of the state-init string (C07), the executor's get-method answer",
        "Ed25519 verdicts are supplied by the harness from crypto/ed25519 (not re-implemented in Lean)",
    ],
    assumptions=[
        "IDEALISED SIGNATURE SCHEME, FOR HONESTLY GENERATED KEYS ONLY (Sig.Ideal, lean/TongoProofs/Lemmas/SigIdeal.lean) - a local "
        "hypothesis of every negative theorem: SigCorrect, and SigSound: a genuine signature (made with sk over a 32-byte digest m) "
        "verifies under an honestly generated key pub sk' for a 32-byte digest m' only if pub sk' = pub sk and m' = m (for Ed25519 "
        "with prime-order keys: up to collisions / fixed points of the internal SHA-512 mod the group order - an IDEALISATION). "
        "Every rejection theorem REQUIRES the key controlling the account (from the get-method or the state init) to be honestly "
        "generated (Sig.Honest pub k). accepted_was_signed alone additionally assumes SigUnforgeable under honest keys. The "
        "accept-all verifier does NOT satisfy the hypotheses (Sig.accept_all_violates); a toy scheme does (Sig.toy_ideal)",
        "THE LIMIT (witnessed): for keys that are NOT honestly generated CheckProof gives no such guarantee - Go's ed25519.Verify "
        "accepts a fixed signature for EVERY message under the small-order key 01 00..00 (oracle go.ed.smallorder); if the "
        "account's get-method reports that key, a proof forged without any private key IS accepted (oracle go.tc.smallkey, "
        "expected and reproduced on every run): CheckProof proves control of the key the account reports, nothing more; and "
        "ParseStateInit returning the all-zero key for the lockup code made forged proofs acceptable (known finding, fixed; "
        "zero_key_returned_before_fix, oracle go.tc.lockup). The hypotheses are consistent with this "
        "(Sig.toy_dishonest_key_accepts_all)",
        "CollisionFree SHA-256 on the byte strings compared (inner and outer message strings of the two messages; the "
        "representations of the cells of the supplied and of the genuine state init) - local hypotheses, with a non-vacuity example",
        "unforgeability of the 16-byte truncated HMAC-SHA-256 of the payload under the server secret: the theorems say a "
        "payload whose MAC does not match is refused (reject_payload_forged, reject_proof_with_bad_payload); that nobody "
        "without the secret can make it match is NOT a theorem",
        "the substituted-field theorems assume the presented address decodes to 32 bytes: convertTonProofMessage puts the "
        "hex-decoded address into the signed message WITHOUT a length check while ton.ParseAccountID left-pads a short "
        "hex part to 32 bytes for the lookup; with a shorter address the byte layout is not injective (documented, no "
        "practical forgery found: it needs the victim's signature over a colliding layout)",
        "check_total is about CheckProof's own logic: boc.DeserializeBocBase64, the executor / abi.GetPublicKey and the two "
        "callbacks are represented by their results (error / roots, failure / integer, verdicts); a panic inside them "
        "(C07/C08 totality) is outside the statement and not composed",
        "cells are hashed with the level-0 formula Cell.hashO = Go's Cell.Hash on trees of level-0 non-pruned cells "
        "(C15 hash_model_is_cell_hash); supplied state inits containing pruned branches / cells of higher level are outside "
        "the model (hand-tested: rejected on both sides), and the theorems about an attacker-supplied state init assume a "
        "tree of ordinary cells (Cell.wfOrd)",
        "time.Since is read once per check and is an input of the model (nanoseconds); timestamps |t| < 2^62 (no Duration "
        "saturation modelled); boundary behaviour at exactly the lifetime is a theorem and is replayed on the real clock",
        "ton.ParseAccountID is modelled on strings with exactly one colon (the only ones convertTonProofMessage lets through)",
        "state-inits with a library dictionary are outside the modelled fragment (answer 'unmodelled', never generated)",
        "the domain and payload callbacks are opaque verdicts of the model (Env.domainOk / payloadOk); StaticDomain and the "
        "server's own CheckPayload are modelled separately and composed in reject_domain_static / reject_proof_with_bad_payload",
    ],
    partial=[
        "'accepted ONLY for the key controlling the address' is proved ONLY when that key is honestly generated, and "
        "CONDITIONALLY on the idealised signature scheme and collision-freedom (reject_foreign_signer, reject_substituted_address / _domain / _timestamp / _payload, "
        "reject_stateinit_of_other_key, accepted_was_signed): no unconditional or computational (game-based) statement",
        "the get-method path trusts the executor's answer: that the key returned by get_public_key IS the key controlling "
        "the account is the blockchain's semantics, outside the model; the state-init path is proved "
        "(stateinit_for_address_has_owner_key) for the wallet data layouts of the known versions",
        "check_total covers CheckProof's own logic only: its callees (BOC deserialisation - C07/C08 -, the executor, the "
        "callbacks) are represented by their results; their totality is not composed",
        "the decision-logic theorems hash cells with the level-0 formula Cell.hashO (Go's Cell.Hash on trees of level-0 "
        "non-pruned cells only); the new negatives about a supplied state init assume a tree of ordinary cells (Cell.wfOrd); "
        "no concrete collision-free instance is given for the state-init theorems (the field theorems have instances: pad32 for "
        "the workchain, nvTail for domain / timestamp / payload)",
        "the substituted-field theorems need the presented address to decode to 32 bytes (ParsedWF); Go's "
        "convertTonProofMessage has no such check (see assumptions)",
    ],
    level_text="Theorems for all inputs about the Lean model of CheckProof: an honest proof (CreateSignedProof) for any "
               "wallet version with a known code hash is accepted and yields the wallet key, via the get-method or via the "
               "state-init (signature correctness assumed). Decision-logic rejections proved outright: payload refused / MAC "
               "mismatch / payload expired (composed with the server's CheckPayload) / proof expired with strict boundary / "
               "domain / undecodable fields / state-init hash mismatch / unknown or key-less wallet code. CRYPTOGRAPHIC "
               "rejections proved UNDER the idealised scheme Sig.Ideal (correct + sound, honestly generated keys only), "
               "CollisionFree SHA-256, and the premise that the key controlling the account is honestly generated: a proof "
               "signed by another key than that one is rejected (reject_foreign_signer); what is accepted under an honest key was "
               "signed by a secret key of it over the digest of the presented fields (accepted_was_signed, needs SigUnforgeable); a signature made over other address / workchain / domain / "
               "timestamp / payload is rejected (reject_substituted_*, through the injective byte layout message_binds); a "
               "supplied state init that hashes to the account address holds the owner's key, so a state init of another key "
               "plus that key's signature is rejected (reject_stateinit_of_other_key). The accept-all verifier is excluded by "
               "the hypotheses (accept_all_violates); a toy scheme instantiates them while accepting everything under a dishonest "
               "key, which is what Go's Ed25519 does under the small-order key 01 00..00 - there CheckProof accepts a forged proof "
               "(oracles go.ed.smallorder, go.tc.smallkey; zero_key_returned_before_fix); toy 32-byte hashes give collision-free "
               "instances for the workchain / domain / timestamp / payload theorems. "
               "CheckProof's own logic and ParseStateInit never panic and only hand 32-byte keys to ed25519.Verify (false "
               "before the repairs: negation proved on a witness and replayed on Go). The model is tied to the Go code by exact "
               "correspondence of digest, payload verdicts, ParseStateInit and CheckProof outcomes on every run, with real Ed25519/HMAC.",
    level="proof",
    level_note="trusted: Lean kernel, harness incl. stub executor, validated SHA-256/HMAC primitives; IDEALISATIONS (hypotheses "
               "of the negative theorems, honestly generated keys only): signature soundness / unforgeability, SHA-256 "
               "collision-freedom; assumption: HMAC unforgeability; the negative clauses are conditional theorems, see partial",
    technique="decision-logic model + case analysis proofs, parse/print round-trip lemmas, injectivity of fixed-width "
              "encodings, differential correspondence with real crypto, direct property oracles (incl. a zero-key forgery)",
)
