PROP = dict(
    id="C05",
    lean_modules=["TongoProofs.C05"],
    gen=["HashmapKeys"],
    # hm.decode / hm.get: the model's decoder is proved equal to the specification (decode_any_valid, get_spec) on
    # valid trees, and both sides must agree on everything else; a mismatch there is a violation with the line as input
    spec_ops=("hm.decode", "hm.get"),
    rule="one case = one key set over one key type (Uint/Int widths 1,2,3,7,8,9,15,16,17,31,32,33,63,64; Bits80..512; "
         "AddressWithWorkchain) x value type (Uint32, Bits256, rest-of-cell payload with refs, ^payload); sizes 0..200; shapes "
         "random / long common prefix / all-zero and all-one runs of 6..10,15,16 bits / dense range / min+max / both signs / "
         "last-bit pairs / clusters; per set: Put-build in ascending, descending and random orders (+ replacing updates), "
         "the same mapping as a tree with random label forms (short, long incl. over-long, same) per edge, Get on present and "
         "absent keys, Put on the decoded dictionary; plus leaf-capacity and 7/8/9-bit label boundaries, damaged trees, "
         "HashmapAugE trees (Uint32 and CurrencyCollection extras), typed integer keys outside their declared width, "
         "NewHashmapE with slices of different lengths, every strictly valid Hashmap found in the BOCs of the repo's "
         "testdata and in the BOC literals of all *_test.go files (decoded, and re-encoded: the hash must not change; likewise "
         "for generated trees written canonically by the independent encoder), the augmented dictionaries of the test blocks "
         "located by the block layout (InMsgDescr, OutMsgDescr, ShardAccountBlocks, ShardAccounts of the Merkle updates with "
         "their pruned branches, hashmap_aug.hex, the inline transactions dictionary of every AccountBlock) and the out_msgs "
         "dictionary of every transaction (decode + re-encode to the same hash). "
         "non-trivial = distinct (key type, key set) with >= 2 keys, or a real dictionary",
    trusted_base=[
        "translator HashmapKeys (harness/cmd/extract/hashmapkeys.go): go/ast over tlb/*.go, exact method-body templates; "
        "regenerates lean/TongoGen/HashmapKeys.lean (all 137 key types: FixedSize = bits written = bits read, comparison kind) "
        "with decide-d obligations on every run",
        "hand model lean/TongoModel/Hashmap.lean tied to tlb/hashmap.go by exact correspondence on every run "
        "(hm.build / hm.putkeys / hm.decput / hm.decode / hm.get / hm.new / hmb.* / hma.decode / hmai.decode / hm.minbits)",
        "independent dictionary writer/readers in harness/cmd/vh/c05.go (specTree, specParse, augParse, goKeyBits) used by "
        "the go.* oracles; hooks tlb/hashmap_verif.go (read-only accessors for the extras of HashmapAug/HashmapAugE)",
        "value and key codecs of the concrete Go types (Uint32, Bits256, UintN/IntN/BitsN keys) are C03's; here they are "
        "exercised, not proved",
    ],
    assumptions=[
        "ALIASING is invisible to the value-level model (a dictionary there is a list of pairs, not slices sharing arrays): "
        "whether a value retained from a variable (struct copy, Keys()/Values()/Items() result) survives a later Unmarshal / "
        "Put / Marshal through that variable or through a copy is decided only by the stateful oracles go.hm.reuse / "
        "go.hmb.reuse / go.hma.reuse (random scripts over ONE variable: Unmarshal of smaller, equal and larger dictionaries, "
        "Put on the variable, Put on retained copies, Marshal of everything; after every step every retained value must "
        "render as when it was retained). What Go's own semantics allow is not flagged: a struct copy and the Keys()/"
        "Values() results share arrays with the variable until the next Unmarshal into it, so a Put may show through them. "
        "Marshal sorts into NEW slices: the receiver's slices are not reordered (checked: marshal-mutates-receiver)",
        "theorems speak about the encoded key bits; the typed layer is modelled on top (encUintKey / encIntKey = what Marshal "
        "writes for a Go integer key, also outside its declared width; the driver keeps typed keys): a typed key outside its "
        "domain is outside C05's quantifier — it is stored under its truncation, Int1 outside {0,-1} makes Marshal fail — and by "
        "marshal_sound it can never corrupt OTHER entries: colliding truncations make Marshal fail (oracle go.hm.oob)",
        "NewHashmap/NewHashmapE with slices of different lengths is API misuse (documented precondition): modelled "
        "(marshalSlicesE, itemsSlices; op hm.new): fewer values than keys = Marshal error and Items/Get/Put index panic, surplus "
        "values ignored; Put on such a dictionary is not modelled",
        "value codecs are parameters: theorems assume, for the values that occur, that the decoder reads back what the encoder "
        "wrote (DecodesValue). Success theorems additionally assume that a leaf has room for the value next to a full-width "
        "label (Fits: 2 + bitlen n + n + value bits <= 1023 — a SUFFICIENT condition, attained by a single mixed-bit key; leaves "
        "below forks have more room); soundness theorems (marshal_sound, marshal_unmarshal_sound, encodeMap_ok_tree) need no "
        "size condition: whatever fits is encoded faithfully, whatever does not makes Marshal fail",
        "key width n < 2^64 (a Go int); every shipped key type has n <= 512",
    ],
    partial=[
        "HashmapAug/HashmapAugE have no encoder in tongo (MarshalTLB = 'not implemented'): decode side only "
        "(aug_decode_any_valid incl. extras tree and root extra, aug_decode_empty, aug_inline_decode_any_valid); the concrete "
        "extra codecs (Grams, CurrencyCollection, DepthBalanceInfo, ImportFees) live in the driver and are tied by "
        "correspondence on synthetic and real dictionaries, not proved",
        "pruned branches: theorems for plain dictionaries (decode_pruned_valid, pruned_agrees_with_full); for augmented "
        "dictionaries and for library cells correspondence only",
        "AddressWithWorkchain keys with a workchain outside int8: known finding (key type truncates the 32-bit field)",
    ],
    level_text="Theorems for ALL inputs (Lean 4, no sorry/axioms beyond propext/Classical.choice/Quot.sound): "
               "decode(encode) = id on any sorted distinct key list of any width (decode_encode_sorted, "
               "encode_sorted_tree); every valid Hashmap n tree with any mix of hml_short/hml_long/hml_same labels "
               "decodes to its meaning in ascending key-bit order (decode_any_valid); HashmapE round trip for any slice "
               "order and empty = single 0 bit (hashmapE_roundtrip, decode_empty); Put keeps Compare order and key "
               "widths, insertion-order independence of slice and encoding (put_sorted, build_perm, "
               "encode_order_independent); Get/Put agree with the mapping (get_spec, put_spec); Put on a decoded "
               "dictionary re-encodes to the updated mapping for every key family incl. signed (decode_then_put_encodes); "
               "the pre-repair encoder fails on the Int8 witness (decode_then_put_unsorted_fails, by decide); encodeMap on the "
               "numeric slice order of signed keys equals encodeMap on bit order (decode_encode_signed); HashmapAugE decode "
               "(aug_decode_any_valid); the whole property in one statement (build_encode_decode); the encoder's label form is "
               "the shortest of the three (labels_shortest). Round 2: dictionaries inside Merkle proofs (decode_pruned_valid, "
               "pruned_agrees_with_full: pairs of the un-pruned part in order, Get agrees wherever the key's path is not pruned); "
               "marshal_sound (for ANY slice, duplicates allowed: Marshal ok => keys distinct and decode = sorted input, so colliding "
               "or out-of-domain keys can only fail, never corrupt other entries); typed layer (encIntKey_in_range, "
               "bytes_compare_is_bit_order, slices_agree); exact cell capacity (encode_never_overflows); augmented dictionaries "
               "with extras, root extra and inline form. Round 4: size-free soundness (encodeMap_ok_tree, marshal_unmarshal_sound, "
               "marshal_succeeds); re-encoding a canonical tree reproduces it cell for cell, ties included (reencode_canonical); "
               "the model's comparison is a strict total order for EVERY key type of the regenerated table and equals the typed "
               "Go Compare of each family (every_key_type_strict_total, put_sorted_every_key_type, "
               "typed_compare_is_model_compare). "
               "Tie: hand model, compared line by line with the real code on every run (exact tables of Marshal output, "
               "Keys/Values/Items/Get), plus direct oracles on the Go code alone.",
    level_note="trusted: Lean kernel, the hand model's correspondence harness and its independent dictionary writer, "
               "value/key codecs (C03)",
    technique="structural induction over the dictionary tree / key list; refinement of the Go encoder to the TL-B tree",
    go_jobs=16,
)
