PROP = dict(
    id="C05",
    lean_modules=["TongoProofs.C05"],
    gen=[],
    spec_ops=("hm.decode", "hm.get"),
    rule="todo",
    trusted_base=[],
    assumptions=[],
    partial=[],
)
