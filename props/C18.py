PROP = dict(
    id="C18",
    lean_modules=[],
    gen=[],
    spec_ops=(),
    rule="tbd",
    trusted_base=[],
)
