PROP = dict(
    id="C18",
    lean_modules=["TongoProofs.C18"],
    gen=[],
    spec_ops=(),
    rule="tbd",
    trusted_base=[],
)
