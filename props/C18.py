PROP = dict(
    id="C18",
    lean_modules=["TongoProofs.C18"],
    gen=[],
    # exact correspondence only: the model of pruneCells/CreateProof/ProveKeyInHashmap is proved to satisfy the property
    # on supported (plain) trees, but the ops are also run on unsupported inputs; violations come from the go. oracles,
    # which use the DEFINITION of the hash (harness/h/spechash.go), independent of newImmutableCell.
    spec_ops=(),
    rule="dictionaries built with the real tlb.HashmapE over key widths 8,16,32,64,256 x value widths 8,32,64,256 (ten "
         "type pairs), 1..300 entries, keys uniform / small numbers / clustered around a base / runs of equal bits, "
         "values from a 3-element domain half of the time (equal sibling leaves, shared after canonicalisation); every "
         "present key (a sample of 40 for big dictionaries in the quick tier) and 6-20 absent keys (half of them one or "
         "two bit flips away from a present key), plus keys of the wrong width and the empty key; each through "
         "mk.prove (model = code: value bits and the canonical table of the PARSED proof bytes) and go.prove (direct "
         "oracles). Random DAGs of ordinary and library cells (unfolded size <= 1500) x 0..5 random cursor paths incl. "
         "the root, nested and shared positions through NewMerkleProver/Cursor/CreateProof (mk.prune, go.prune); chains "
         "of depth 1022..1025; unsupported inputs (trees containing pruned/Merkle cells) and non-existing cursor paths "
         "(model = code only: err / panic). Key widths that are not a multiple of 8 (real tlb.UintN keys: 1..7, 9, 12, 15, 17, "
         "19, 31, 33, 63 bits) with every present key, random absent keys and absent keys that differ from a present "
         "key in exactly a non-empty subset of its last 1..7 bits (also for the byte-multiple widths); dictionaries "
         "whose leaves reference library cells (exotic cells on the kept part of the proof); TWO proofs from ONE "
         "prover (mk.prove2/go.prove2: present-present incl. first/last key, absent-then-present; mk.prune2/go.prune2: "
         "two cursors with independent path sets, second proof compared with a fresh prover's; mk.prune.il/go.prune.il: "
         "two LIVE cursors of one prover with interleaved Prune calls, CreateProof in both orders, each proof compared "
         "with a fresh prover's). Every generated proof is also read through the library's own accessors: "
         "Cell.GetMerkleRoot and the tlb.MerkleProof decoder must report the original root's hash and depth. "
         "non-trivial = distinct (key, dictionary) resp. (tree, non-empty path set) resp. (pair of requests, tree).",
    trusted_base=[
        "hand model lean/TongoModel/Merkle.lean tied to boc/merkle_proof.go, immutableCell.pruneCells, "
        "tlb.ProveKeyInHashmap/loadLabel by exact correspondence on every run (proof bytes are parsed by the real parser "
        "and compared as canonical tables; SerializeBoc's byte layout itself is C01's subject)",
        "C02's model of newImmutableCell and its theorems (impl_eq_spec) - the Merkle model calls it for hash0/depth0",
        "harness/h/spechash.go (Go transcription of the hash definition) and the independent dictionary lookup in "
        "harness/cmd/vh/c18.go used by the direct oracles",
    ],
    assumptions=[
        "H32: the hash function returns 32-byte digests (true for SHA-256; explicit hypothesis of the theorems); no "
        "collision-freedom is needed: the statements are equalities of hashes, not injectivity claims",
        "supported trees (`plain`): well-formed, level 0 throughout, ordinary and library cells only - what pruneCells "
        "supports and what a dictionary is; trees containing pruned/Merkle cells are covered by model = code only",
        "ProveKeyInHashmap is modelled with the prover's root and the `cell` argument being the same tree with fresh "
        "read cursors (what its only sensible use is; the harness resets the root's counters between calls); the key "
        "comparison by ToFiftHex strings is modelled as bit-list equality - justified by fifthex_key_compare for bit "
        "strings satisfying C06's invariant",
        "the value type of ProveKeyInHashmap is modelled as 'read valueBits bits' (tlb.Uint8/32/64, Bits256 in the "
        "harness); other decoders are C03/C05's subject",
        "absent_key_errors / value_revealed use a minimal lookup (dictLookup) on arbitrary trees; "
        "value_revealed_dict / absent_key_errors_dict restate them against agent dict's HTree meaning and Hashmap "
        "decoder for trees that are valid dictionaries",
    ],
    partial=[
        "proof_boc_collisionFree has NO premise about the writer left: hypotheses are H32 (true of the real SHA-256: "
        "h32_sha256), CollisionFree H on the finite list Spec.allReprs H proof (the named idealisation of the hash "
        "function), CellOK of the ORIGINAL tree (within the BOC format limits; exotic cells start with their type "
        "byte) and the size bounds of C01.roundtrip_go_writer. The presentation is agent boc's Order.cellTable proof "
        "(valid layout proved: structural depth <= 1024 because hashing accepted the proof) and KeyInjOn for Go's "
        "key is derived from C02.reprHash_inj_wfExotic (covers mask-1 cells and pruned branches). proof_boc (any "
        "presentation + KeyInjOn as hypotheses) and proof_boc_layout (any given layout) are the weaker forms",
        "the writer model is C01's (Order.serializeBocModel); its tie to boc.SerializeBoc is C01's correspondence, and "
        "the correspondence of this property compares the PARSED real proof bytes with the model's cell on every run",
        "prove_no_panic needs noSingleRef (no cell with exactly one ref): on a malformed fork with one ref "
        "ProveKeyInHashmap panics in Cursor.Ref(1) (modelled, compared; outside 'all dictionaries')",
        "fifthex_key_compare is a stand-alone justification of modelling the ToFiftHex comparison as bit equality; "
        "proveKey itself compares bit lists",
    ],
    level="proof",
    level_text="Theorems for ALL supported trees, ALL prune sets (any predicate on positions, root included) and every "
               "32-byte hash function (lean/TongoProofs/C18.lean): pruned_hash0 - pruneCells succeeds and the pruned "
               "tree has at level 0 exactly the hash and depth of the original, by the TON definition of C02 "
               "(Spec.hashAt, independent of newImmutableCell); pruned_stores_original - the cell at every pruned "
               "position is `01 01 hash0 depth0` of the subtree it replaced; proof_root - whenever CreateProof returns, "
               "the root is a Merkle-proof cell `03 hash0(t) depth0(t)` over that pruned tree, the proof satisfies "
               "WFExotic and the depth limit (so C02.impl_eq_spec applies to it); proof_verifies - the child's level-0 "
               "hash/depth equal the committed ones, by the definition and by the hashing implementation model; "
               "prune_total - never a panic, and a proof is returned iff tree and proof cell are within the depth "
               "limit; absent_key_errors - if the TON dictionary lookup of the key fails, ProveKeyInHashmap returns no "
               "proof; value_revealed - for a returned (value, proof): the lookup in the ORIGINAL finds a leaf starting "
               "with the value and the same lookup in the proof's child finds the same leaf data (the path is never "
               "pruned); prove_no_panic; walk_fuel_sufficient (the model's fuel is never exhausted, so errors are genuine); fifthex_key_compare; value_revealed_dict / absent_key_errors_dict - the same in terms of agent dict's model "
               "(C05): for the cell tree of ANY valid TON dictionary of any key width, the library's Hashmap decoder on the "
               "proof's child returns exactly [(key, val)] with get key of the dictionary's meaning = some val, and an "
               "absent key gets no proof; proof_boc_collisionFree - under collision-freedom of H on the proof's representations, the bytes the model of "
               "the WHOLE Go writer (C01: importCell/reorderCells order keyed by the representation hash, header) writes "
               "for the proof parse back (C07 reader) to a table whose single root unfolds to the proof, is the "
               "Merkle-proof cell `03 hash0 depth0`, and whose table hashing gives the definition's hashes. Tie, on every run: value bits and canonical table of the parsed proof bytes vs "
               "the compiled model for every generated (dictionary, key) and (tree, path set); direct oracles on Go "
               "alone with the hash DEFINITION: committed hash/depth = original root's, child level-0 hash = committed, "
               "every pruned branch stores hash/depth of what it replaces, kept cells unchanged, WFExotic, value "
               "decodable from the proof by an independent lookup AND by the library's Hashmap decoder, absent key => "
               "error for every key width incl. non-byte-multiples (absent_key_errors is a theorem for keys of any "
               "length: the model compares all key bits), a second proof from the same prover is as good as a fresh "
               "prover's (the model gives every Cursor() its own prune set), Go's own Hash() of the proof = definition. A genuine defect was found and fixed (pruned set "
               "keyed by *immutableCell pruned the proven leaf when its sibling was the same cell).",
    level_note="assurance = min(theorems about the model, tie); the tie is differential. The byte-level BOC round trip of "
               "the proof is C01's subject.",
    technique="Lean 4: mutual induction over the nested cell tree against the specification hash of C02; one fuel "
              "induction relating the loop of ProveKeyInHashmap to the dictionary lookup on the original and on any "
              "pruning by the collected positions. Go harness: real tlb.HashmapE dictionaries, real prover, oracles "
              "from an independent hash and lookup.",
)
