PROP = dict(
    id="C20",
    lean_modules=["TongoProofs.C20"],
    gen=["IntJson"],
    spec_ops=(),
    rule="placeholder",
    trusted_base=[],
    assumptions=[],
    partial=[],
)
