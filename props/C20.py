PROP = dict(
    id="C20",
    lean_modules=["TongoProofs.C20"],
    gen=["IntJson"],
    spec_ops=(),
    rule="values: every generated integer width 1..64 signed and unsigned at 0, 1, max, max-1, min, min+1, -1 and random "
         "values; every big.Int type at 0, +-1, +-2^w boundaries and random; every BitsN length; ton.Bits256, tl.Int256, "
         "Grams, SignedCoins (negatives incl. min int64), Magic; bit strings of 0..1023 bits (boundaries over-weighted); all "
         "four address kinds, standard workchains -128..127 in turn, variable workchains over the int32 range, anycast "
         "present/absent, lengths 0..1023, and on every run the workchain boundaries -128, -127, -1, 0, 1, 126, 127 (std) / "
         "-129, 128, +-2^15, +-2^31 (var); Maybe[T] for eleven instantiations incl. a composite record; cells (random DAGs with references; on every run DAGs of exactly 255/256/257 distinct cells — "
         "65535/65536/65537 in the thorough tier — with 4-ref and 1023-bit cells, chains of depth 1023 and 1024), account "
         "ids, message-body envelopes (hand-made object documents: key case, duplicates, nulls, wrong types, op-code range). "
         "On EVERY run and seed (deterministic part): the four envelope types abi.InMsgBody / ExtOutMsgBody / JettonPayload / "
         "NFTPayload over every SumType (empty; cell with no / 0 / max / random op code; every registered name), for every "
         "registered name ~28 documents with a malformed, missing or wrongly typed Value and unregistered names, mutations of "
         "named bodies; destination reuse (decode A then B into ONE variable, result must be B) for consecutive values of every "
         "family, all Maybe instantiations some->none / none->some / some->some, and pairs of envelope documents; cell "
         "documents whose bag has 0 / 2 / 3 roots (and one-root controls), also inside envelopes. "
         "Every sixth value (every third in the thorough tier) is followed by ~130 mutated "
         "documents (quotes dropped/added, signs, spaces, leading zeros, exponents, underscores, overlong and boundary "
         "numbers, wrong lengths, non-hex, truncations, byte replacement, other JSON types, non-ASCII bytes). "
         "non-trivial = distinct (family, value) pair",
    trusted_base=[
        "the reference for the envelope oracle (harness/cmd/vh/c20_envelopes.go envReference: {SumType, OpCode, Value raw}; "
        "empty name = no value, the cell name = a one-root cell document read through boc.DeserializeBoc, any other name must "
        "be registered and Value must decode into the registered record; every failure is an error) — go.json.mal compares the "
        "FULL outcome of json.Unmarshal and of the method with it (error vs value, SumType, OpCode, decoded Value)",
        "hand model lean/TongoModel/Json.lean + Prim/Dec.lean tied to the Go methods by the line correspondence on every run "
        "(json.print: exact output text of json.Marshal; json.parse: outcome of the UnmarshalJSON METHOD on every generated "
        "and mutated document; json.valid: the transcribed encoding/json scanner against json.Valid)",
        "translator IntJson (go/ast over tlb/integers.go): one decided obligation per generated type (174) that its "
        "Sprintf format, parse function, base, bit size / byte length and Trim are those of the model for the width in its name",
        "transcriptions of Go library code inside the model: strconv.ParseUint/ParseInt loops, big.Int.SetString(.,10), "
        "hex.DecodeString, the parts of fmt.Fscanf/Sscanf used (%x into []byte, %d into uint32), encoding/json's scanner",
    ],
    assumptions=[
        "rune-wise Go functions (fmt.Fscanf for ton.Bits256, fmt.Sscanf for the anycast suffix) read the input through a "
        "transcription of utf8.DecodeRune (invalid sequences = U+FFFD, one byte) and fmt's full space table; documents with "
        "arbitrary bytes are compared with the model for every family. json.Unmarshal into a Go string is modelled with "
        "escapes, surrogate pairs and the U+FFFD sanitation (goUnquote)",
        "boc.Cell / tlb.Any: the PARSE side is the BOC reader model of C01/C07 (compared on every cell document and its "
        "mutations); the PRINT side is C01's model of the whole Go writer (order of importCell/reorderCells/"
        "revisit + header arithmetic): json_roundtrip_cell_go_writer is stated for THE order o the writer model returns and "
        "THE text the printer returns (hypotheses; existence: json_cell_go_writer_succeeds) and concludes that the parser "
        "returns exactly (o.table, r) with o.roots = [r] and r unfolding to the input tree — built from C01's pieces "
        "(orderWith_valid, OrderValid.once/sub, C01.roundtrip) in Lemmas/SourceBocPinned.lean; premises: KeyInjOn (the writer's "
        "de-duplication key, the hex hash, identifies the sub-cells: no collision inside the one cell; NOT dischargeable "
        "from CollisionFree for cells with pruned branches, where it stays a premise) and the size limit as a condition on "
        "the INPUT cell (fewer than 2^24 structurally distinct sub-cells); the output length bound is derived; "
        "the printed text itself is compared only through the direct round-trip oracle (the model does not print cells in the "
        "driver). ton.AccountID: C17's byte-level model of its JSON form, theorem json_roundtrip_accountid = C17.json_roundtrip",
        "the MsgAddr values of the model cannot express two states of the Go struct: an AddrVar whose AddrLen differs from "
        "the length of Address (MarshalJSON prints Address, the parser recomputes AddrLen: such a value does not round-trip; "
        "it cannot come from a TL-B decode) and nil AddrExtern / AddrVar pointers with the corresponding SumType "
        "(MarshalJSON dereferences them: a panic on a hand-built value) — both outside the property's domain of decoded values",
        "the two models of Fift hex (Json.toFift/fromFift here, fiftSpec/fiftParse of C06) are proved equal "
        "(fift_models_agree; the same lemmas exist as Tongo.Bridge.fift_toFift / fift_fromFift in the bits slice), so the "
        "byte-level theorems of C06 apply to the JSON forms",
        "abi.InMsgBody / ExtOutMsgBody: the envelope (object members, key folding, duplicate keys, null, wrong JSON types, "
        "OpCode range) is modelled and compared on hand-made and mutated documents; the registry of known body types and "
        "their struct-level JSON stay on the Go side (a named body is reported by name); in json_roundtrip_envelope_known "
        "the body type's own JSON is a hypothesis (ValueText + its round trip); it is instantiated on the one composite "
        "record whose struct-level JSON is modelled (json_roundtrip_envelope_known_record, tlb.Anycast standing for a "
        "registered type) — the real registered body types have no concrete theorem",
        "Maybe of a composite record is modelled for tlb.Maybe[tlb.Anycast] (encoding/json's struct codec for two uint32 "
        "fields); other composite records are not claimed",
        "tlb.HashmapE has an encoder only and is outside the statement",
        "an op code on an EMPTY envelope body is accepted by the parsers and not printed ({}): such a value cannot come from "
        "a TL-B decode and is excluded from the accepted-document round trip",
        "the correspondence op json.parse envelope still reports a named body by name only (the model has no registry); the "
        "outcome for named bodies is checked by the direct oracle against the Go-side reference, not against the Lean model",
    ],
    partial=[
        "decimal_signed_bits1_quirk: 'every out-of-range literal is an error' is FALSE at bit size 1 (tlb.Int1): "
        "strconv.ParseInt(s,10,1) returns -1 without error for every literal below -1 (Go standard library behaviour, "
        "reproduced by the model; the values 0 and -1 still round-trip). Proved for bit sizes 2..64 "
        "(decimal_signed_out_of_range)",
        "msgaddress_extern_empty_not_roundtrip: zero-length addr_extern prints \"\" and parses as addr_none (known finding; the "
        "round-trip theorem excludes it through AddrDomain)",
        "json_parse_total is true BY CONSTRUCTION for 9 of its 12 conjuncts (integers, big, BitsN, Bits256, Int256, Grams, "
        "SignedCoins, Magic, Maybe: neither the Go code nor the model has a panic point there); content: the Fift suffix index "
        "and the Anycast slice expression (explicit panic points shown unreachable), Cell/Any via C07 parse_total "
        "(json_parse_total_cell), envelopes (json_parse_total_envelope); ton.AccountID malformed input: direct oracle only",
        "json_roundtrip_wrapped / json_roundtrip_via_string / json_roundtrip_envelope_known are generic wrapper forms with the "
        "inner round trip as a hypothesis; concrete instances: json_roundtrip_cell_go_writer, json_roundtrip_accountid "
        "(a re-export of C17.json_roundtrip, nothing of its own), json_roundtrip_unknown_body_cell (on an already ordered "
        "table, json_roundtrip_cell), json_roundtrip_envelope_known_record",
        "message-body envelopes with a REGISTERED body type: no theorem about any real registered type — the struct-level "
        "JSON of the abi body types is not modelled; json_roundtrip_envelope_known_record instantiates the generic form on "
        "tlb.Anycast as a stand-in record. For real body types the evidence is the direct Go round-trip oracle only",
    ],
    level_text="Theorems for ALL inputs about the model: strconv read-back of %d for every bit size 1..64 with the exact range "
               "behaviour (decimal_roundtrip_unsigned/signed, out-of-range literals rejected), big integers of any size, "
               "hex with length check, ton.Bits256 through the Fscanf model, tl.Int256, Grams, SignedCoins (after the fix; the "
               "shipped ParseUint version is proved to reject every negative), Magic, Maybe[T] (generic in T), Fift-hex bit "
               "strings of any length, MsgAddress for every address of the property's domain (all kinds, any anycast, "
               "workchain and length; the look-alike exclusion is exactly the ambiguous case: msgaddress_var_lookalike_all — EVERY "
               "256-bit variable address in an int8 workchain reads back as a standard address), every printer's "
               "output accepted by the transcribed JSON scanner (json_valid), no parser panics on any input "
               "(json_parse_total — by construction for 9 of its 12 conjuncts, see partial; content: Fift suffix index, Anycast "
               "slice expression, cells, envelopes); cells through the whole Go writer and reader of C01 "
               "(json_roundtrip_cell_go_writer: for THE order and THE text the writer returns, no chosen witness, no guard, size "
               "limit as a hypothesis on the input cell; with a regression example that the padded-table proof of the earlier "
               "statement no longer applies), the "
               "message-body envelopes: empty and Unknown bodies (json_roundtrip_envelope_empty/unknown, "
               "json_roundtrip_unknown_body_cell end to end), Maybe of a composite record (json_roundtrip_maybe_anycast). "
               "NOT theorems of this property in their own right: AccountID (json_roundtrip_accountid re-exports C17) and "
               "envelopes with a registered body type (json_roundtrip_envelope_known is generic in the body's own JSON, "
               "instantiated only on tlb.Anycast as a stand-in; no real registered type has a theorem). The ~170 generated types are tied to the model by the regenerated table (174 decided "
               "obligations + generated_*_types_roundtrip quantify over the table). The model is tied to the code by exact "
               "correspondence on ~85k lines per quick run (6.4M lines thorough) and by direct round-trip / validity / "
               "no-panic oracles on the real json.Marshal/json.Unmarshal.",
    level_note="trusted: Lean kernel, the hand transcription of Go library functions (validated by the correspondence on "
               "mutated documents), the IntJson translator, the harness",
    technique="Lean 4 model + theorems; go/ast translator with decided obligations; differential correspondence; direct oracles",
)
