PROP = dict(
    id="C10",
    lean_modules=["TongoProofs.C10", "TongoProofs.C09"],
    gen=["LiteApi", "TlLength", "TlBindings", "TlBindingsP1", "TlBindingsP2", "TlBindingsP3", "TlBindingsP4",
         "TlBindingsP5", "TlBindingsP6", "TlBindingsP7", "TlBindingsP8", "TlBindingsAll"],
    # the model IS the specification for these: the TL rules applied to the schema text carried in the line
    info_ops=("tl.crcid",),  # id spelled in the schema vs CRC-32 of the declaration text: outside C10 (the property speaks of the id given in the schema line); reported in the evidence only
    spec_ops=("tl.enc", "tl.dec", "tl.fenc", "tl.fdec", "tl.req", "tl.ans", "tl.reqdec", "tl.schema",
              "tl.hw."),
    rule="for every declaration of lite_api.tl (45 types: single-constructor types through their bare constructor, "
         "multi-constructor types and the hand-written liteServer.SignatureSet boxed; 29 functions: parameter struct, "
         "client method against a stub connection, answers, request decoder): schema-directed random values with all "
         "subsets of the tested mode bits enumerated in turn (+ random untested bits), byte strings biased to "
         "0/1..8/252..260, vectors 0..50, nested sums; plus byte strings of EVERY length 0..1100 (bytes and string "
         "carriers; around 2^16 and 2^24 in the thorough tier). non-trivial = distinct (declaration, value) pair",
    trusted_base=[
        "harness/tlmini (tokeniser + printer of the TL subset, reflection binding Go struct <-> value text by the "
        "generator's naming convention, reference encoder used only to produce inputs and for the go. oracles)",
        "translator X3 (tokeniser -> compact Lean value, names as character codes); tied to the raw file twice: "
        "kernel-checked liteapi_render_c / liteapi_render (Lean value = canonical text) and run-time op tl.schema (the model's own parser on the raw file prints the "
        "same canonical text)",
        "CRC-32 / little-endian primitives of the model, validated against hash/crc32 on every run (prim.crc32)",
    ],
    assumptions=[
        "the ADNL packet framing/encryption under the request envelope is C11's subject; here the connection is a "
        "stub with the identity cipher (hook liteclient/export_verif.go) and the ADNL payload is compared",
        "decoding is modelled for well-formed input and for the dispatch errors (unknown id, liteServer.error, short "
        "answer); totality/allocation on arbitrary malformed input is property C08",
    ],
    # ids of lite_api.tl that are NOT the CRC-32 of their declaration text (mirror of Tl.crcExceptions in
    # lean/TongoModel/Tl/LiteClient.lean; the first three are known findings, the last one is pinned upstream). They are
    # outside C10's statement, which speaks of the id given in the schema line.
    crc_exceptions=["liteServer.libraryResultWithProof", "liteServer.lookupBlockResult",
                    "liteServer.getLibrariesWithProof", "liteServer.getValidatorStats"],
    partial=[
        "ctor_id_is_crc32 holds for every declaration of lite_api.tl EXCEPT the four of crc_exceptions (regenerated "
        "obligation liteapi_ids_crc32: table-driven CRC over character codes evaluated by the kernel, carried to the "
        "bitwise CRC by crc32T_eq_crc32N); for the exceptions the spelled id differs (info op tl.crcid, witness "
        "ctor_id_is_crc32_counterexample)",
        "X6 (generator output == checked-in generated.go / integers.go after gofmt) is an input-free comparison of two "
        "artefacts, evaluated by go.regen.*; no theorem",
    ],
    level="proof",
    level_text="theorems for all inputs: round trip / prefix-freeness / layout clauses of the TL schema semantics for "
               "every well-formed schema (TongoProofs.C09, functional induction on the encoder), instantiated at the "
               "regenerated schema of lite_api.tl (wf_liteapi by kernel evaluation), request envelope, request decoder "
               "table, answer handling for EVERY function of the regenerated function table (liteapi_answer_decodes), "
               "constructor ids = CRC-32 of the declaration text (ctor_id_is_crc32, regenerated kernel obligation), "
               "hand-written codecs (TongoProofs.C10). Tie: every generated type, request "
               "struct, client method (against a stub connection), answer path and the request decoder of the real Go "
               "code is executed on schema-directed random values and compared with the model, which is the "
               "specification for these ops; go.* oracles check round trip, self-delimitation and layout on the "
               "implementation alone",
    line_timeout="180s",
)
