PROP = dict(
    id="C10",
    lean_modules=["TongoProofs.C10", "TongoProofs.C09"],
    gen=["LiteApi", "TlLength", "TlBindings", "TlBindingsP1", "TlBindingsP2", "TlBindingsP3", "TlBindingsP4",
         "TlBindingsP5", "TlBindingsP6", "TlBindingsP7", "TlBindingsP8", "TlBindingsAll"],
    # the model IS the specification for these ops: the TL rules applied to the schema text carried in the line
    info_ops=("tl.crcid",),  # id spelled in the schema vs CRC-32 of the declaration text: outside C10 (the property speaks of the id given in the schema line); reported in the evidence only
    spec_ops=("tl.enc", "tl.dec", "tl.fenc", "tl.fdec", "tl.req", "tl.ans", "tl.reqdec", "tl.schema",
              "tl.hw.", "tl.wait."),
    rule="for every declaration of lite_api.tl (45 constructors of 43 types: single-constructor types through their bare constructor, "
         "multi-constructor types and the hand-written liteServer.SignatureSet boxed; 29 functions: parameter struct, "
         "client method against a stub connection, answers, request decoder): schema-directed random values with all "
         "subsets of the tested mode bits enumerated in turn (+ random untested bits), byte strings biased to "
         "0/1..8/252..260, vectors 0..50, nested sums; plus byte strings of EVERY length 0..1100 (bytes and string "
         "carriers; around 2^16 and 2^24 in the thorough tier). non-trivial = distinct (declaration, value) pair",
    trusted_base=[
        "translator X7 (harness/cmd/extract/tlbindings.go, go/ast): reads liteclient/generated.go and the tagged wrappers "
        "of liteclient/extensions.go into the Lean value Gen.tlBindings; it matches every statement against the few "
        "shapes the generator emits and FAILS on any other statement; what it reads as a step is what the theorems "
        "speak about - a translator that misreads a statement shape in the same way for every method is not detected "
        "by the theorems (it is by the correspondence ops, which execute every binding)",
        "the step semantics Tl.Bind.marshalGo/unmarshalGo (lean/TongoModel/Tl/Bindings.lean): the builtin cases "
        "(tl.Marshal/tl.Unmarshal on uint32, uint64, Int256, []byte, string, bool, slices, pointers - reflection "
        "code of tl/encoder.go, tl/decoder.go) are hand-modelled, tied by the correspondence ops only",
        "the specification itself: Tl.encode/Tl.decode (lean/TongoModel/Tl/Codec.lean) and the Lean-side schema "
        "parser lean/TongoModel/Tl/Parser.lean used by the driver (its output on the raw file is compared with the "
        "kernel-checked value Gen.liteApi through the canonical text: op tl.schema / liteapi_render)",
        "harness/tlmini (tokeniser + printer of the TL subset, reflection binding Go struct <-> value text by the "
        "generator's naming convention, reference encoder used only to produce inputs and for the go. oracles)",
        "translator X3 (tokeniser -> compact Lean value, names as character codes; and the same schema with string "
        "literals, Gen.liteApiS, proved equal by the kernel: liteapi_literal); tied to the raw file twice: "
        "kernel-checked liteapi_render_c / liteapi_render (Lean value = canonical text) and run-time op tl.schema (the model's own parser on the raw file prints the "
        "same canonical text)",
        "CRC-32 / little-endian primitives of the model, validated against hash/crc32 on every run (prim.crc32)",
    ],
    assumptions=[
        "the ADNL packet framing/encryption under the request envelope is C11's subject; here the connection is a "
        "stub with the identity cipher (hook liteclient/export_verif.go) and the ADNL payload is compared",
        "decoding is modelled for well-formed input and for the dispatch errors (unknown id, liteServer.error, short "
        "answer); totality/allocation on arbitrary malformed input is property C08; steps_eq_schema speaks about the "
        "encodings of typed values only (UnmarshalTL on bytes that are no encoding: correspondence ops and C08)",
        "a Go struct is represented as the list of its field values in declaration order, a nil pointer/absent slice as "
        "`absent`, the sum struct by its SumType string and the fields of the selected variant (Bind.rep): fields of "
        "the unselected variants and the aliasing of Go values are outside the model",
        "hand models (one line each, NOT extracted): ton.AccountID, ton.BlockIDExt, tl.Int256 Marshal/Unmarshal "
        "(handwritten_types_spec / handwritten_types_decode; tied by ops tl.hw.*); tlb.VmStack.MarshalTL has no theorem "
        "(oracle go.tl.hw.vmstack only)",
    ],
    # ids of lite_api.tl that are NOT the CRC-32 of their declaration text (mirror of Tl.crcExceptions in
    # lean/TongoModel/Tl/LiteClient.lean; the first three are known findings, the last one is pinned upstream). They are
    # outside C10's statement, which speaks of the id given in the schema line.
    crc_exceptions=["liteServer.libraryResultWithProof", "liteServer.lookupBlockResult",
                    "liteServer.getLibrariesWithProof", "liteServer.getValidatorStats"],
    partial=[
        "ctor_id_is_crc32 holds for every declaration of lite_api.tl EXCEPT the four of crc_exceptions (regenerated "
        "obligation liteapi_ids_crc32: table-driven CRC over character codes evaluated by the kernel, carried to the "
        "bitwise CRC by crc32T_eq_crc32N); for the exceptions the spelled id differs (info op tl.crcid, witness "
        "ctor_id_is_crc32_counterexample)",
        "steps_eq_schema is one direction: every value the schema encodes is marshalled to those bytes and read back "
        "from them (+ any trailing bytes). Not proved: that MarshalTL refuses what the schema refuses (Go types make "
        "most of it unrepresentable; byte strings of 2^24 bytes and more: ops go.tl.toolong), and what UnmarshalTL does "
        "on bytes that are not an encoding",
        "liteServerRequest / the envelope: request_envelope is about the hand model `envelope` (tied by ops tl.req, "
        "tl.wait.* against the stub connection); of client.go X7 extracts the two Wait methods only (the envelope "
        "magics magicADNLQuery / magicADNLAnswer / magicLiteServerQuery are pinned by the ops and by "
        "ctor_id_is_crc32_client_constants on the hand constants; the tcp.* magics of connection.go belong to C11)",
        "malformed input: the ops tl.dec / tl.fdec / tl.ans / tl.reqdec also carry encodings with ONE malformed leaf "
        "(length prefix 255, escape form for a short string, non-zero padding, length past the data, unknown Bool "
        "magic); the specification (C09.tl_decode_malformed) REFUSES prefix 255 and unknown Bool magics, ACCEPTS the "
        "non-canonical escape form and does not inspect padding content (so does Go; a sender must write zeros) - "
        "decided from the TL rules, which define the one-byte form and the escape 254 only and give Bool two ids; "
        "other malformed input (truncations inside values, oversized counts) is C08's",
        "liteapi/models.go (table of `<Constructor>Tag` constants, unused inside the repository) is compared with the "
        "schema ids by the input-free oracle go.tl.tagtable only (4 stale constants repaired, commit 6cd6d39)",
        "package tl's reflection codec for sum types (tl.SumType + tlSumType struct tags; used by the generated "
        "request wrappers for marshalling only) is compared in both directions with the generated codec of adnl.Message "
        "by the oracle go.tl.reflectsum; tl.decodeVector on vectors of zero-size items: known finding go.tl.zerovec "
        "(no such vector in lite_api.tl)",
        "tl/parser's constructor grouping (non-adjacent constructors of one type) cannot be observed on lite_api.tl, "
        "whose constructors are adjacent: it is checked by C09's fixed coverage schema",
        "X6 (generator output == checked-in generated.go / integers.go after gofmt) is an input-free comparison of two "
        "artefacts, evaluated by go.regen.*; no theorem",
        "tl_spec_builtin / tl_spec_length_escape / tl_spec_composite and the encode conjuncts of tl_spec_padding (C09) "
        "restate the definition of the specification in bytes; they say nothing about Go",
    ],
    level="proof",
    level_text="THEOREMS ABOUT THE GO BINDINGS (as extracted by translator X7, regenerated on every run; they cover field "
               "order, guards, flag bits, tag / request-id literals, NOT the byte layout of the builtin leaves: uint32/"
               "uint64/Int256/[]byte/string/bool/vector count are written and read in the step semantics by the "
               "specification's own le/encBytes/readLE/readBytes - the reflection code of tl/encoder.go, tl/decoder.go is "
               "tied by the executed ops only, except tl.EncodeLength which X4 extracts: gen_EncodeLength): "
               "steps_eq_schema (stated in TongoProofs.C09, generic) - proved once for every schema S and bindings value B accepted by the decidable "
               "matcher agreeAll: for every type and every value the schema encodes, the MarshalTL step sequences "
               "write exactly Tl.encode and the UnmarshalTL step sequences read it back leaving any trailing bytes; "
               "instantiated at the current generated.go / lite_api.tl by 72 kernel-decided obligations (43 types + 29 "
               "functions: Gen.bind_type_i, Gen.bind_func_i -> Gen.bindings_agree; + Gen.wait_consts_agree for the "
               "hand-written Wait methods of client.go), giving "
               "liteapi_steps_eq_schema, liteapi_client_request (request-id literal + request struct = encodeRequest), "
               "liteapi_client_answer (error literal tested first, result literal / sum switch), "
               "liteapi_decoder_table (taggedRequestDecodeFunctions); liteapi_wait_seqno / liteapi_wait_block (hand-written "
               "(*Client).WaitMasterchainSeqno / WaitMasterchainBlock of client.go, both bodies shape-matched by X7, the "
               "prefix id = CRC-32 of its declaration: wait_prefix_id_is_crc32). A wrong mode bit, swapped fields, a wrong tag or "
               "request id in ONE generated method breaks the obligation of that declaration (checked with seeds C10-3, "
               "C10-5 and five own mutations). THEOREMS ABOUT THE SPECIFICATION: round trip / prefix-freeness of the TL "
               "schema semantics for every well-formed schema (C09), instantiated at the regenerated schema (wf_liteapi "
               "by kernel evaluation); request envelope; request decoder; answers for every function "
               "(liteapi_answer_decodes); ids = CRC-32 of the declaration text (ctor_id_is_crc32, regenerated kernel "
               "obligation). HAND MODELS: ton.AccountID / ton.BlockIDExt / tl.Int256 codecs, both directions. Of the 36 "
               "theorems of TongoProofs.C10, 16 are closed facts about the regenerated schema / bindings (kernel "
               "evaluated instances - they are the obligations that change with the repository), 2 "
               "(handwritten_types_spec/_decode) are binder-free conjunctions of universally quantified clauses, 18 are "
               "universally quantified. TESTED TIE (kept in full): every generated type, request struct, client method (against a stub "
               "connection), answer path and the request decoder of the real Go code is executed on schema-directed "
               "random values and compared with the specification; this also covers what X7 does not extract (reflection "
               "helpers of package tl on builtin types, client.go); go.* oracles check round trip, self-delimitation and "
               "layout on the implementation alone",
    line_timeout="180s",
)
