PROP = dict(
    id="C12",
    lean_modules=["TongoProofs.C12"],
    gen=["ClientOrder"],
    # client.run: the model PREDICTS the per-call results of a script with a determined outcome by running the
    # transition system; a disagreement is a violation with the scenario as failing input
    spec_ops=("client.run",),
    rule="one op line = one whole scenario on the real liteclient.Client over 1..3 real Connections (loopback TCP) to the "
         "scripted in-harness ADNL server (one listener per connection), 2..64 concurrent callers x 1..5 calls each. "
         "client.run: client timeout 2 s, per call one of: answer at once / after <= 60 ms / twice with different "
         "payloads / unknown id first / pong + short + foreign-magic + 36-byte answer first / on the other connection / "
         "malformed TL length first / never / far too late (the last three with a caller-side 50 ms context deadline, so that "
         "machine load cannot change the result class); result classes compared with the model's prediction. "
         "go.client.chaos: timeout 40-120 ms, delays 0..1.5x timeout, up to 3 drops in the middle of requests, 0..2 idle "
         "drops, and (slow cases) 1..2 connection attempts cut during reconnect; the recorded history (begin/return per call, "
         "query seen, every packet written, drops, re-accepted handshakes) is validated by checkHistory of the compiled model. "
         "non-trivial = distinct scenario line (seed, shape, script).",
    trusted_base=[
        "hand model lean/TongoModel/ClientSM.lean; tie = (i) translator ClientOrder (go/ast): operation order of Request, "
        "registerCallback, unregisterCallback, processQueryAnswer, Client.reader, Connection.Send, Connection.reconnect regenerated "
        "into TongoGen/ClientOrder.lean with decide-d obligations on every run (incl. every_socket_write_is_under_mu: EVERY call site of encryptedConn.send in connection.go is inside a Connection.mu critical section, except the two authentication steps); (ii) histories of real executions accepted by "
        "checkHistory; (iii) predicted result classes of deterministic scripts",
        "history checker ClientSM.checkHistory (executable, NOT verified): inserts the hidden actions (register/pickConn/send, deliver/"
        "chanSend, recv/timeout/unregister, socket death, reconnect steps incl. stale spawned reconnects) and checks each is enabled and "
        "each observed result is the one the system produces; placement rules: packets delivered in wire order per connection when a "
        "result needs them, queries a server reads late are placed before their connection refuses sends, failing sends as late as "
        "possible, lost queries as early as possible. The round-robin counter is not replayed (order of concurrent callers at connMutex "
        "is unobservable) — covered by theorem round_robin + go.client.roundrobin. Timeouts are accepted whenever the call is waiting "
        "(the model's deadline is the environment's), so 'timeouts only for unanswered ids' is checked only by the deterministic scenarios",
        "scripted ADNL server harness/cmd/vh/adnlsrv.go + c12.go; event log order = wire order per connection (events and I/O under one mutex)",
        "hooks liteclient/client_verif.go, adnl_verif.go (build tag verif): extra connections option, registry accessors, VerifRetire",
    ],
    assumptions=[
        "PeersDrain (the peer reads what is written) is NOT assumed by the invariants but IS needed for 'a call returns by its deadline': "
        "Connection.Send writes under Connection.mu without a deadline and is not context-aware; with a stalled peer the property is FALSE on "
        "the real client (known finding go.client.stalled, exercised in the THOROUGH tier only so that a known oracle failure does not switch off "
        "the failing-input search of quick runs; model witness stalled_peer_outlives_deadline)",
        "fairness for reconnect_live as Lean hypotheses over infinite executions: SockDies (F1), WeakFair writeFail/pingDone (F2), StrongFair "
        "pingFail/reconnectStart (F3: sync.Mutex is starvation-free), WeakFair reconnectOk (F4: the server completes a handshake)",
        "queriesMutex and connMutex critical sections are atomic steps (no nested acquisition in the code: ClientOrder obligations); only "
        "Connection.mu is modelled as a lock that can be held across a blocking operation; 0 < nConn (NewClient always has a connection)",
        "IdsDistinct (query ids pairwise different; 256 bits from math/rand in the code): premise of demux_not_other and of part 3 of register_before_send",
        "each modelled action is atomic: one critical section under queriesMutex / connMutex / Connection.mu, or one channel operation; "
        "Go mutex, buffered-channel and select semantics are assumed",
        "the environment is unconstrained: any packets in any order, drops, timeouts at any moment, reconnect outcomes",
        "Honest (each delivered answer's payload is a function of its id) is the premise of demux_own_answer / demux_not_other; demux itself has no premise",
    ],
    partial=[
        "TIMERS ARE NOT STATE in this model: the client timeout, the 10 s silence timer and the 3 s ping period are always-enabled "
        "environment actions (`timeout k` whenever the call waits, `silence c` whenever a reader runs, `pingBegin/pingFail` whenever the mutex "
        "is free); there is no clock and no `tick`. What depends on their VALUES is covered by effectiveDeadline/timeout_is_min (a pure "
        "function), the regenerated obligations (unconditional WithTimeout, fresh time.After per packet) and the real-time scenarios only",
        "HAND-WRITTEN request wrappers of client.go (WaitMasterchainSeqno / WaitMasterchainBlock: waitMasterchainSeqno#baeab892 prefix, "
        "lookupBlock#fac8f71e, answer tags bba9e148 / 752d8219) are not modelled; go.client.wait runs them through the real Client against the "
        "scripted server, which reads the bytes with its own TL reading (constants from TON's lite_api.tl)",
        "no_deadlock_client: clauses 1, 2, 5 are facts of `step` that hold in every state; only clauses 3 and 4 use invariants. Healthy ignores "
        "canWrite (a connection with a stalled peer counts as healthy)",
        "timeout_returns, duplicate_dropped, round_robin, status_machine_send_fails are SINGLE-STEP facts about `step` (true in every state, "
        "by case analysis of the definition), not invariants over runs; demux_not_other needs an injective `ans` (different ids, different answers)",
        "no theorem 'every call returns' under fairness of its own goroutine + PeersDrain (only the ingredients: rank decreases, never increases, "
        "sends_complete_when_peers_drain); lock-order deadlock is expressible only for Connection.mu",
        "idle-timer behaviour (a healthy connection on which only pings/pongs flow must not be re-dialled; an answer arriving after > 10 s "
        "must not be lost): the 10 s silence and 3 s ping periods are constants inside liteclient/connection.go, so the scenario "
        "go.client.idle runs in REAL TIME (32 s) in the thorough tier only (it is the first line of the thorough generator, so the "
        "failing-input search of a quick run reaches it when an obligation breaks); the quick tier covers it by the regenerated obligation "
        "reader_idle_timer_is_fresh_for_every_packet only. The transition system's `silence` action is enabled whenever a reader runs "
        "(over-approximation): no theorem about the timer",
        "timeout_is_min is about effectiveDeadline (min of caller deadline and start + client timeout); the untimed transition system lets "
        "`timeout` fire at any moment. Tie: obligation request_applies_client_timeout_first + go.client.deadlines (caller context none / "
        "shorter / equal / longer / much longer / cancelled mid-flight, never-answered calls)",
        "data-race freedom: NOT a theorem. Supported only by the thorough-tier op go.client.race (harness rebuilt with -race, 40 chaos + 40 "
        "deterministic scenarios, any DATA RACE report fails); the quick tier does not cover it",
        "wall-clock oracles are judged relative to a scheduling canary (a goroutine sleeping 5 ms in a loop): tolerance 1 s + 5 x the worst "
        "oversleep seen during the scenario, and a scenario during which the whole process was stalled is run again (max 5 times) "
        "instead of being judged — a stall of the machine is not a defect of the client; a late call caused by the client's own locking "
        "does not show on the canary and still fails",
        "wall-clock statements (timeout by the deadline, reconnection within a bound, 3 s ping) are runtime facts: oracles "
        "deadline-overrun (> 1 s), not-reconnected-within-15s, client-not-usable-after-drops only; the model's timeout action is "
        "enabled at any moment",
        "goroutine count: runtime fact, oracle go.client.goroutines (300 warm-up calls, then 3000/10000 calls, growth <= 8) and registry-leak "
        "(queries empty after every scenario); the theorem no_leak_model is about the registry only",
        "deadlock freedom beyond reader_never_blocks (e.g. Connection.reader blocked on the unbuffered resp channel when no Client reads it) is not modelled",
        "authentication path (authKey) not modelled",
        "OBSERVATION 1 (stale reconnect) — decided: NOT a violation. A `go reconnect()` spawned by a failing Send can run after the "
        "reconnect has completed (the guard only tests status == Connecting) and tear down the fresh connection; calls in flight on it "
        "time out by their deadline (which the statement allows for unanswered calls) and one more reconnect follows. Only write failures "
        "on a Connected connection spawn such goroutines and none is spawned while Connecting, so their number is bounded by the failed "
        "sends of the burst before the first reconnect: reconnection is still bounded and later calls succeed. The model admits the "
        "behaviour (reconnectStart with spawned > 0), it occurs in validated real histories, and every chaos scenario ends with the "
        "oracles not-reconnected-within-15s / client-not-usable-after-drops, which pass",
        "OBSERVATION 2 (no read deadline in the client handshake) — decided: NOT a violation of the statement as quantified. The fault "
        "sequences of C12 are connection DROPS (mid-request, idle, during reconnect): a peer that closes during the handshake gives EOF and the "
        "reconnect loop retries after 1 s (exercised by the slow chaos scenarios). The unbounded case needs a peer that accepts the TCP "
        "connection and then neither answers nor closes, which no server implementing the specification does; it is fairness assumption F4 "
        "of reconnect_live. It remains a robustness weakness (reconnect() then blocks in ParsePacket for ever, status stays Connecting)",
        "OBSERVATION 3 (deaf but Connected after a parse error) — decided: NOT a violation of C12. A parse error needs a corrupted stream or "
        "a frame outside 64..8 MiB, i.e. a C11 fault, not a drop/reorder/duplicate history of C12; the server has not closed the connection, "
        "so 'after the server closes the connection the client reconnects' does not apply, and calls on that connection still return timeout "
        "by their deadline. C11 only requires that the bad frame is not delivered (it is not). It remains a robustness weakness: "
        "handleIncomingPackets closes its channel, Connection.reader returns, nothing closes the socket, status stays Connected until a Send fails",
    ],
    level="proof",
    level_text="Lean 4 theorems over a labelled transition system of the request path, for every reachable state / every enabled action "
               "list, any number of callers and connections, unconstrained environment: demux, demux_first_answer (first delivered answer for the id after registration wins, "
               "duplicate_dropped), demux_all_callers (+ demux_own_answer, demux_not_other under IdsDistinct), no_deadlock_client "
               "(reachable states, Connection.mu modelled: an unreturned call has an enabled own action, or waits for the mutex held by a goroutine "
               "inside a write, or is inside a write blocked by the peer; the mutex holder never waits for a mutex), stalled_peer_outlives_deadline "
               "(witness: with a peer that stops reading a call outlives any deadline — reproduced on the real client, known finding), "
               "sends_complete_when_peers_drain, reconnect_live (non-vacuity: cycExec, an execution that drops and reconnects for ever, meets all six "
               "hypotheses), reconnect_live (LIVENESS over infinite executions with the fairness assumptions as Lean hypotheses: "
               "the connection is healthy again infinitely often), reconnect_recoverable (existence of a <= 5-step recovery path; not liveness) + "
               "call_can_succeed, timeout_is_min, reader_never_blocks (inductive invariant: registered id => empty channel; pending send => empty channel, unique), "
               "register_before_send, timeout_returns, no_leak_model, status_machine (+ _send_fails, _drop_reconnects), round_robin. "
               "The invariants are proved by case analysis over all 21 actions. Tie to the code: operation-order obligations regenerated "
               "from the Go source by a go/ast translator on every run, and histories of real concurrent executions (drops, reconnects, "
               "duplicates, unknown ids, malformed answers) validated as traces of the model; traces_validated_against_impl counts the "
               "deterministic scenarios whose per-call results equal the model's prediction, chaos histories are validated inside the "
               "go.client.chaos oracle. Data races, wall-clock bounds and goroutine counts are runtime facts supported by harness oracles only.",
    level_note="trusted: Lean kernel; the history checker and the scripted server; Go's mutex/channel semantics; the Go scheduler, timers, TCP and "
               "the race detector are outside the model.",
    technique="interactive proof (Lean 4, inductive invariants) + source-order translator + trace validation of real concurrent executions",
    line_timeout="180s",
    go_jobs=8,
    search_cap=3000,
)
