PROP = dict(
    id="C08",
    lean_modules=["TongoProofs.C08"],
    gen=[],
    spec_ops=(),
    rule="TL: every type with an UnmarshalTL in liteclient (registry re-checked against the source) plus synthetic types "
         "for the generic decoder x valid encodings from the real Marshal, truncations, bit flips, length prefixes "
         "replaced at every aligned offset (2^16, 2^24-1, 2^31-1, 2^32-1, 4097, 253), random bytes. "
         "non-trivial = distinct (type, malformed input)",
    trusted_base=["hand models lean/TongoModel/TlDecode.lean, Helpers08.lean tied to tl/decoder.go, liteclient/*.go, "
                  "tlb/stack.go, tlb/tuple.go by correspondence on every run; TL descriptors regenerated from "
                  "liteclient/generated.go (go/ast) and reflection on every run"],
    assumptions=[],
    partial=[],
    line_timeout="60s",
)
