PROP = dict(
    id="C08",
    lean_modules=["TongoProofs.C08", "TongoProofs.C08Gen"],
    gen=["TldTypes"],
    spec_ops=(),
    rule="TL: every type with an UnmarshalTL in liteclient (registry re-checked against the source with go/ast on every run) plus "
         "synthetic types for the generic decoder x {valid encodings from the real Marshal, truncation at every offset, bit "
         "flips, length prefixes replaced at every 4-aligned offset by 2^16 / 2^24-1 / 2^31-1 / 2^32-1 / 4097 / 253, random "
         "bytes}; LiteapiRequestDecoder on every registered request tag; ADNL length prefixes and query answers. "
         "TL-B: every exported type of tlb, abi, wallet plus the generic instantiations reached through their fields x "
         "{random trees, damaged valid encodings (bit flip, truncation, ref removal/duplication, well-formed exotic cell of "
         "every type, pruned branch / library cell spliced at a ref), exhaustive single-position damage of one valid "
         "encoding, fork-bomb DAGs <= 10^5 unfolded cells, chains 100..1500 cells deep, malformed exotic cells (kept "
         "apart)}; seeds from tlb.Marshal of reflect-generated values, from subtrees of the repository's real blocks and "
         "from hand-built VM tuples; abi message decoders; account-state / block-header proof decoders on damaged real "
         "proofs; the ~120 get-method result decoders (abi.KnownGetMethodsDecoder) on VM stacks of the right shape with hostile "
         "contents; GetTransactions against an in-process lite server; hand-written UnmarshalTLB methods (listed by go/ast): every seed plus "
         "the flag-combination variants synthesised from it (bit flip + repair until the real decoder accepts again; BlockInfo "
         "crafted for all 16 flag combinations) x exhaustive single-position damage (ref removed/pruned/library/duplicated at "
         "every position, truncation and flip at every bit, flip with each ref removed); processQueryAnswer/decodeLength with "
         "declared lengths real-4..real+8 in len==cap buffers; allocation-class lines (tlb.alloc.*: VM stacks with every "
         "relation between the announced depth and the chain, random/comb BinTrees, snakes, deep inputs to 16000 levels) "
         "compared with the allocation models; value oracles with hand-computed expectations (go.abi.stackval, go.tlb.kat); "
         "package tl built for GOARCH=386 on vector counts around 2^31 (go.tl.int32). "
         "non-trivial = distinct (type, malformed input) for explicit lines, distinct (type, stream, seed) batch for the "
         "seeded TL-B streams (a batch line stands for up to 50 inputs regenerated from its seed)",
    trusted_base=[
        "hand models lean/TongoModel/TlDecode.lean (tl/decoder.go, generated UnmarshalTL bodies, liteclient/client.go "
        "decodeLength/processQueryAnswer, liteclient/decoder.go), Helpers08.lean (index helpers), TlbRead.lean (cell reading "
        "primitives, tlb/hashmap.go labels and walk, countLeafs, SnakeData, BinTree), TlbAlloc.lean (allocation accounting "
        "of the VM stack list, BinTree, SnakeData) tied to the code on every run: TlDecode/Helpers08/TlbRead customs by "
        "exact comparison of outcomes (tld.*, h.*, tlb.label/countleafs/snake/bintree/hashmap), TlbAlloc by tlb.alloc.stack/"
        "bintree/snake/deep: the same cells decoded by the real decoder and by stackFixed/binFixed/snake — number of values "
        "or the error compared exactly, the allocation compared as a CLASS (model: elements <= k per cell; Go: "
        "runtime.MemStats.TotalAlloc <= 64 KiB + 4/1/2 KiB per cell; each of the three repaired quadratic decoders, "
        "reverted, flips the class on inputs from 50 cells). TlbRead.stackList (the step count of "
        "vmStackList_total_by_construction) has NO line of its own: its control flow is the one of TlbAlloc.stackCopy",
        "agent tlb's model of the reflection decoder lean/TongoModel/Tlb/{Ty,Basic,Prims,Dec}.lean and translator X1 "
        "(TongoGen/TlbTypes.lean), tied to the code by property C03's correspondence; lean/TongoModel/Tlb/DecTotal.lean "
        "(weights, ranks, productivity check, fuel bound) is definitions only",
        "translator TldTypes (harness/cmd/extract/tld.go + harness/tldesc, the code the harness derives its op-line "
        "descriptors from): TL descriptors (field order, mode bits, sum tags, request tag table) regenerated from "
        "liteclient/generated.go by go/ast and from reflection on every run into lean/TongoGen/TldTypes.lean; a construct "
        "outside the translator's subset fails the run; each generated term is tied to the text form on the op lines by a "
        "kernel-checked `show_<Name>` and by the model echoing the printed form of what it parsed (tld.consts)",
        "agent bits' bridge lean/TongoProofs/Lemmas/BitsBridgeRd.lean (rd_readBit, rd_readUint(_full), rd_readBits(_full), "
        "rd_skip(_full), rd_readUnary, rd_minBits): the ideal-level reader Tlb.Rd of TlbRead.lean refines C06's byte-level "
        "model of the repaired boc.BitString (negative width = ErrNegativeBitLen first, then > 64, then availability); the "
        "rd_*_full lemmas are conditional on that behaviour of TlbRead.lean, the condition is discharged in "
        "C08.tlb_prims_refine_bitstring (unconditional)",
        "runtime.MemStats.TotalAlloc and wall-clock deadlines as the measure of allocation and time on the Go side",
        "in-process ADNL lite server (copied from agent net's harness) used to drive liteapi.Client.GetTransactions",
    ],
    assumptions=[
        "model allocation counts bytes/elements requested through make / reflect.MakeSlice / append from wire-controlled "
        "sizes (append growth counted once per element, the amortised doubling factor of the Go runtime is not modelled); "
        "model steps count decoder calls, loop iterations, read calls and bytes copied",
        "element decoders (hashmap values/keys/extras, top-of-stack values, Maybe/Either/Ref payloads) are parameters of the "
        "TL-B theorems, assumed not to panic",
        "width of int: the TL model carries the one conversion that matters (decodeVector's count, Cfg.countInt32; the "
        "repaired code keeps it unsigned); byte-string lengths are at most 2^24-1 in any int; liteclient does not build "
        "for 32-bit targets, package tl does and is probed there by go.tl.int32 (cross-compiled, skipped with a note where "
        "no 386 toolchain/kernel support exists)",
        "reflect panics that depend on the Go type alone and not on the input (FieldByName(\"SumType\").SetString on a "
        "non-string field, unexported fields) are outside the TL model (`Ty` is the shape the decoder sees): every "
        "alternative of every shipped sum type is decoded from an accepted encoding on every run instead",
        "Go stack depth is not modelled: recursion depth is bounded by theorems only as fuel/depth of the tree (the known "
        "fatal stack overflow of tlb.HashMapAugExtraList is a divergence of the model, not a stack bound)",
        "Helpers08.lean abstracts the index helpers to their guards over Nat lengths (content: `i < n` before `a[i]`); the "
        "surrounding Go (what the lengths are lengths of) is tied by the h.* correspondence lines only",
        "exotic cells are well formed (what the bag-of-cells parser will accept once the C07 fixes are merged); malformed "
        "exotic cells make Cell.Hash() panic (boc/immutable_cell.go): known finding, kept in a separate stream",
    ],
    partial=[
        "TRUE BY CONSTRUCTION, renamed and not counted as evidence of panic freedom: tlb_prims_total_by_construction, "
        "label_total_by_construction, countLeafs_total_by_construction, binTree_total_by_construction, "
        "vmStackList_total_by_construction, maybe_either_ref_total_by_construction — their models have no panic source "
        "other than the element decoders, which are assumed not to panic; what they do state is the shape of the walk (at "
        "most one visit per cell). Live panics are discharged only by tl_decode_total (u32le/u64le/sliceTo), helpers_total "
        "(decodeLength/processQueryAnswer slices), the index-helper theorems and hashmap_total",
        "generic TL-B decoder: tlb_decode_total is about agent tlb's model Tongo.Tlb.decode (tied to tlb/decoder.go by C03's "
        "correspondence, not by this property); where a descriptor contains an `opaque`/`encErr` node the model stops with an "
        "error, so the theorem says nothing about the Go code behind it; my own models of the customs cover the Hashmap "
        "family (walk and labels: hashmap_total), SnakeData/ChunkedData (snake_steps), BinTree and the VM stack list "
        "(tlb_custom_alloc), NOT: BlockInfo, McBlockExtra, McStateExtraOther, ValueFlow, ShardState, CryptoSignature, DNSRecord, "
        "DNSText, VmStkTuple/VmTuple/VmCont, abi.InMsgBody/ExtOutMsgBody/JettonPayload/NFTPayload/W5Actions/"
        "W5ExtendedActions/WalletV1ToV4Payload, wallet.PayloadHighload/W5ExtendedActions/TextComment: fault-injection "
        "oracles only (go.tlb.fuzz / go.tlb.flags / go.tlb.one / go.abi.dec / go.proof), with every flag branch seeded "
        "(evidence/C08_branches.txt: 349 of 358 non-error blocks of the 56 hand-written UnmarshalTLB methods reached by an "
        "accepted seed)",
        "tlb_decode_steps bounds the DEPTH of the decoder's recursion (fuel), linear in the cells of the unfolded tree; the "
        "TOTAL number of decoder calls is not bounded by a theorem (needs an instrumented copy of the decoder): time is "
        "checked by the deadline oracles",
        "TL-B allocation: tlb_custom_alloc covers the three customs whose allocation is not one value per cell (VM stack "
        "list, BinTree, SnakeData); there is NO allocation theorem for the reflection decoder or the other customs (oracle "
        "TotalAlloc <= 64*|unfolded tree| + 1 MiB only)",
        "NO theorem at all (oracles only): block-header / account-state proof decoders (only the index arithmetic of "
        "accountFromProof, with nValues = nKeys as the dictionary decoder guarantees), abi message decoders, the ~120 "
        "get-method result decoders",
        "no unconditional `decode != panic` theorem is claimed for the generic decoder: in agent tlb's model no path "
        "constructs a panic, the statement would be true by construction; the partiality that IS modelled is divergence "
        "(fuel), and Go-side reflect panics (CanSet, nil cell from a custom decoder) are covered by the oracles",
        "tl_decode_alloc / tl_decode_steps need ty.wf (every vector element consumes >= 1 byte): proved of every shipped "
        "descriptor (wf_<Name> and liteapi_consts, decided by the kernel on the regenerated table on every run); for zero-width elements the step bound is FALSE "
        "(theorem tl_steps_zero_width_elements: 4 bytes drive up to 2^32-1 iterations) — recorded as a limit, not repaired",
        "the constants of the TL bounds depend on the type (largest shipped, theorem liteapi_consts_values: allocA 1186 bytes "
        "per input byte and allocB 160336 for liteServer.partialBlockProof; stepK 115, stepS 123): the Go-side budget 64*|input| + 1 MiB is an oracle on "
        "measurements, not a consequence of the theorem",
        "respTag (the tag/body split at the head of every generated client method) is proved on the model only; the "
        "generated client methods need a connection and are exercised only through GetTransactions",
        "time is measured against deadlines on the Go side (200 ms + 50 us per unfolded cell; 200 ms + 20 us per TL byte); "
        "the proved bounds are on model steps",
        "branches of hand-written UnmarshalTLB methods not reached by any ACCEPTED seed are listed in evidence/C08_branches.txt "
        "(tools_c08_branches.py, coverage-instrumented harness): 349 of 358 non-error blocks reached, 48 of 56 methods "
        "completely; VmCont/VmTuple have no valid encoding (decoders return 'not implemented')",
        "tl.Marshal panics on a struct with an unexported field (reflect.Value.Interface): encoder side, user types only, "
        "not untrusted input — noted, not counted",
    ],
    level="proof",
    level_text=(
        "THEOREMS for all inputs (Lean 4, no sorry, axioms propext/Classical.choice/Quot.sound): "
        "(TL) tl_decode_total: for EVERY type descriptor (generic kinds, generated structs with mode-conditional fields, sum "
        "types, pointer fields, unsupported kinds) and every byte string the repaired decoder returns a value or an error — "
        "the model carries the partial operations of tl/decoder.go that can actually fire (chunk[:k] in readN, "
        "reflect.MakeSlice with a signed capacity; each cited by file:line in the model header; tl_partial_ops_live: they "
        "do panic out of range) and the proof discharges them — two obligations in all: the decoder has few partial "
        "operations, binary.LittleEndian.Uint32 on its constant-length buffers is not one (the round-4 modelling of it was "
        "artificial and is withdrawn); tl_decode_int32_count_panics / tl_decode_int32_only: the code before 730d89f "
        "panics on a count >= 2^31 where int has 32 bits (replayed with GOARCH=386, repaired); panics of reflect that "
        "depend on the Go type only are NOT in the model (assumptions); "
        "tl_decode_alloc / tl_decode_alloc_ok / tl_decode_steps: allocation and steps linear in the input with constants "
        "computed from the descriptor; INSTANTIATED on the regenerated table (TongoGen.TldTypes: 73 descriptors, 29 request "
        "tags; wf_<Name>, show_<Name>, all_wf) by liteapi_decode_bounded / liteapi_type_decode_bounded / "
        "liteapi_request_decode_bounded: no panic, alloc <= 1186*|bs| + 160336, steps <= 115*|bs| + 123 for every shipped "
        "type (liteapi_consts, liteapi_consts_values); the defects of the code as found are theorems with witnesses "
        "(tl_alloc_orig_bytes_violates: fe ff ff ff requests 16 MiB; tl_alloc_orig_vector_violates: ff ff ff ff requests "
        "2^32-1 elements; tl_decode_orig_panics_on_pointer_field), each replayed on Go. "
        "(helpers) helpers_total + processQueryAnswer_length: decodeLength, processQueryAnswer, respTag, "
        "LiteapiRequestDecoder never panic and the answer handed out lies inside the payload (live slice panics in the "
        "model); on the GUARD ABSTRACTION of Helpers08.lean (lengths as Nat, content `i < n` before `a[i]`): "
        "index_helpers_total (hypothesis nKeys <= nValues, read off Hashmap.mapInner, not proved; "
        "accountFromProof_needs_parallel_slices), getTransactions_total, firstRoot_total, vmCellSlice_decoded_total, "
        "tuple_total with the panicking originals as witness theorems (getTransactions_orig_panics, firstRoot_orig_panics, tuple_orig_nil_panics, "
        "vmCellSlice_zero_panics). "
        "(TL-B, modelled customs; TlbRead.lean follows the repaired readers: tlb_prims_negative_width_is_error, "
        "tlb_prims_refine_bitstring: readUint/readBits/skip refine C06's byte-level model for every width) "
        "hashmap_total (the live panic: boc.NewCellWithBits(key) beyond 1023 bits, excluded by keySize <= 1023 and the "
        "capacity of the key prefix), snake_steps (+ snake_orig_quadratic: the decoder as "
        "found copies b*d(d+1)/2 bits on a chain; the no-panic conjunct of snake_steps is true by construction, its content is "
        "the equality of the two decoders and the copy count); tlb_custom_alloc (about the models of TlbAlloc.lean, tied to "
        "Go by the tlb.alloc.* class comparison, see trusted_base): the repaired VM stack list decoder allocates <= 2 "
        "values per cell, BinTree <= 1 leaf slot per cell, SnakeData copies <= the data it returns; the code as found is "
        "quadratic (vmstack_orig_quadratic, bintree_orig_quadratic: d(d+1)/2 copies on a chain / comb of depth d, both "
        "repaired in this round) and the pre-allocation `make(.., 0, depth)` from the depth field violates any bound "
        "(vmstack_prealloc_violates). The six *_by_construction theorems are shape facts only (see `partial`). "
        "TIE: ~13k lines per quick run executed on the real code and on the compiled model and compared exactly (outcome "
        "class, bytes consumed, allocation class for TL; decoded keys / data / counts for the TL-B customs; helper "
        "outcomes). "
        "(TL-B, generic decoder — agent tlb's model) tlb_decode_total: for every PRODUCTIVE type environment (decidable "
        "check prodb: a named type re-enters, before a bit or a reference is consumed, only named types of smaller rank), "
        "EVERY descriptor and EVERY cell tree (exotic cells, pruned branches, short cells, missing refs) the decoder with "
        "`need` fuel or more neither panics nor runs out of fuel and only consumes — `need` is explicit and linear in the "
        "input (tlb_decode_steps: <= 1024*C*cells + R*D + depth(T)); tlb_decode_unproductive_diverges: `type T struct{X *T}` "
        "(the shape of tlb.HashMapAugExtraList, the known fatal stack overflow) is out of fuel for every fuel and is "
        "rejected by the check; tlb_prim_decoders_total: all 19 hand-written decoders modelled as Prim are total and their "
        "internal loops have enough fuel; C08Gen: generated_env_productive (re-decided on every run on the regenerated "
        "environment; ranks and depth bounded by generated_consts) and tlb_decode_total_generated (every descriptor over "
        "it, in particular every regenerated desc_* of TongoGen.TlbTypes). "
        "VALUES (oracles with hand-computed expectations, not totality): go.abi.stackval — six get-method result decoders "
        "(seqno, get_wallet_data, get_nft_data, get_jetton_data, get_wallet_params, get_plugin_list) on stacks written bit "
        "by bit from block.tlb with the last result on top; go.tlb.kat — DNSText chunks, Text, BinTree leaf order, VmStack "
        "order; h.vmstack compares which stack position every struct field is filled from. "
        "ORACLES ONLY (no theorem): the hand-written decoders that are opaque in the descriptors (listed in `partial`), the "
        "reflect glue on the Go side, the abi message decoders and get-method result decoders (VmStack / VmStackValue / VmStkTuple.Unmarshal reflection "
        "glue), the proof decoders: ~100 (quick) / ~3000 (thorough) damaged trees per type, "
        "never a panic or fatal error, TotalAlloc <= 64*|unfolded tree| + 1 MiB, deadline proportional to the unfolded "
        "tree. Types without any valid seed encoding are listed in the evidence (distribution no_valid_seed:*)."
    ),
    level_note="trusted: Lean kernel; the hand models and their correspondence harness; go/ast translator of generated.go; "
               "Go runtime allocation statistics",
    technique="Lean 4 model with explicit Outcome (ok|err|panic), allocation and step accounting; Hoare-style "
              "potential-function specification proved by mutual structural induction over type descriptors; cell-tree "
              "induction for the TL-B customs; differential correspondence + fault-injection oracles on the Go code",
    line_timeout="60s",
)
