PROP = dict(
    id="C09",
    lean_modules=["TongoProofs.C09", "TongoProofs.C09Tlb"],
    gen=[],
    spec_ops=("tl.enc", "tl.dec", "tl.fenc", "tl.fdec", "tlc.req", "tl.ans", "tl.reqdec", "tlbs.enc"),
    rule="random TL schemas (3..40 declarations: liteServer.error, single-constructor types, sum types of 2..5 "
         "constructors, 1..8 functions; fields of every builtin type, bare and boxed references, vectors of builtins / "
         "declared types / vectors, conditional fields flag.N?T over bits 0..31 with up to three flag fields named "
         "mode/flags/f2, conditional `true`); each schema is compiled by tl/parser twice (identical), the output is "
         "built against the repository and run on random values of every type and function. non-trivial = distinct "
         "(schema, declaration, value) triple; TL-B half: 6 (thorough 100) random TL-B schemas of 1..12 declarations, per "
         "declared type 40 (200) random values through one go.tlbc.values line",
    trusted_base=[
        "harness/tlmini: schema generator, tokeniser, reflection binding by the generator's naming convention, "
        "reference encoder (inputs and go. oracles only); harness/tlexec executors",
        "the Go toolchain that compiles the generated packages (offline, module cache)",
    ],
    assumptions=[
        "this is translation validation over sampled programs: the theorems (round trip, prefix-freeness, layout "
        "clauses) are about the schema semantics Tl.encode/Tl.decode for every schema; tl/parser/generator.go itself "
        "is not modelled - it is tied to the semantics only on the generated schemas",
        "subset restrictions imposed by the generator and respected by the schema generator: ids spelled out with 8 "
        "hex digits, a bare reference only to an earlier single-constructor type, no boxed reference to a "
        "single-constructor type, the constructor of a single-constructor type is the lower-cased type name, "
        "liteServer.error present, at least one function, `true` only under a condition, Go names distinct after "
        "CamelCase",
    ],
    partial=[
        "no theorem about generator.go / tlb/parser/generator.go themselves (string templating over a participle AST): "
        "they are tied to the proved semantics by translation validation over the sampled schemas",
        "TL-B half: the model covers the subset uintN intN (## n) # bitsN Bool Coins Grams (VarUInteger n) MsgAddress "
        "Cell ^T (Maybe T) (Maybe ^T) (Either X Y) (HashmapE n X: only the EMPTY dictionary is a value in the model, C05 "
        "owns the rest) with $/# tagged unions; tlb_schema_sound needs declarations to refer to EARLIER types only "
        "(no recursive TL-B types); tlb_schema_roundtrip carries C03's decidable well-formedness check of the "
        "descriptors as a premise, evaluated per schema (op tlbs.ok) - it is not proved for the whole subset",
        "abi/schemas -> abi/*.go: the repository's abi/generator.go cannot regenerate the checked-in files (it panics on "
        "the checked-in schemas: `not defined type: uint257`, get-method stack type of nft_sale.xml) - reported by the "
        "oracle go.regen.abi as a known finding; the checked-in abi structs are not compared with their declarations",
    ],
    level="proof",
    level_text="proof for the schema semantics (tl_decode_encode, tl_prefix_free, tl_layout_* for every well-formed "
               "schema, by functional induction on the encoder); translation validation for the compiler: every "
               "sampled schema is compiled, built and executed, and each answer is compared with the proved "
               "semantics evaluated by the Lean driver on the same schema text. TL-B half: tlb_schema_sound (for every "
               "schema of the subset the reflection codec on the descriptor a declaration denotes writes exactly the "
               "bits and references the declaration prescribes - induction over declarations into C04's matcher) and "
               "tlb_schema_roundtrip (from C03); the compiler is tied to them per generated program: the reflection "
               "descriptor of every GENERATED struct equals goBody of its declaration (op tlbs.desc, exact), the cells "
               "it produces equal the schema semantics (spec op tlbs.enc) and decode back (tlbs.dec)",
    line_timeout="300s",
    go_jobs=4,
    search_cap=60000,
    evidence_counters=dict(programs="programs", tlb_programs="tlb_programs"),
)
