PROP = dict(
    id="C09",
    lean_modules=["TongoProofs.C09", "TongoProofs.C09Tlb"],
    gen=[],
    spec_ops=("tl.enc", "tl.dec", "tl.fenc", "tl.fdec", "tlc.req", "tlc.bind", "tl.ans", "tl.reqdec", "tlbs.enc"),
    rule="on EVERY seed, before the random schemas, fixed coverage schemas: TL (tlCoverageSchema: every builtin, bare / boxed "
         "references, vectors of builtins / declared types / vectors, a five-constructor type and a second sum type whose "
         "constructors are NOT adjacent in the file, conditional fields on every bit 0..31 over every kind of field "
         "type, flags named mode/flags/f2 inside sum constructors, functions with conditional parameters) and TL-B "
         "(tlbCoverageSchema, tlbCoverageSchema2: Go's int8/16/32/64 and uint8/16/32/64, odd and boundary widths 1..64 of "
         "both signs, ## n, #, bitsN, Bool, Coins, VarUInteger, MsgAddress, Cell, every reference form, Maybe / Maybe ^, "
         "every Either form X Y / X ^Y / ^X Y / ^X ^Y / X ^X / ^X ^X, tags $bits / #hex / $_ / #_ / anonymous constructor, "
         "HashmapE key widths 1/8/16/32/63/64/128/256, types with up to five constructors); both generator entry points of "
         "tlb/parser are called twice (GenerateGolangTypes text and GetTlbTypes list, identical incl. order, ascending "
         "names), LoadTypes+LoadFunctions of tl/parser twice. Then random TL schemas (3..40 declarations: liteServer.error, single-constructor types, sum types of 2..5 "
         "constructors, 1..8 functions; fields of every builtin type, bare and boxed references, vectors of builtins / "
         "declared types / vectors, conditional fields flag.N?T over bits 0..31 with up to three flag fields named "
         "mode/flags/f2, conditional `true`); each schema is compiled by tl/parser twice (identical), the output is "
         "built against the repository and run on random values of every type and function. non-trivial = distinct "
         "(schema, declaration, value) triple; TL-B half: 6 (thorough 100) random TL-B schemas of 1..12 declarations, per "
         "declared type 40 (200) random values through one go.tlbc.values line",
    trusted_base=[
        "the specification itself: Tl.encode / Tl.decode (lean/TongoModel/Tl/Codec.lean) and, for TL-B, goBody / specBody "
        "(lean/TongoModel/TlbSchema.lean) - written for this verification; the theorems show their internal "
        "consistency, not their agreement with the TL / TL-B documentation",
        "the Lean-side parsers that read the schema text carried in every op line: lean/TongoModel/Tl/Parser.lean and "
        "TlbSchema.parse (no theorem about them; a misparse shows up as a disagreement with the compiled Go code unless "
        "tl/parser resp. tlb/parser misparse the same way)",
        "harness/tlmini, harness/tlbmini: schema generators, tokenisers, reflection binding by the generator's naming "
        "convention, reference encoder (inputs and go. oracles only); harness/tlexec executors",
        "the Go toolchain that compiles the generated packages (offline, module cache)",
    ],
    assumptions=[
        "this is translation validation over sampled programs: the theorems (round trip, prefix-freeness, layout "
        "clauses) are about the specification Tl.encode/Tl.decode for every schema; tl/parser/generator.go itself "
        "is not modelled - its output is tied to the specification only on the generated schemas (statically by the "
        "matcher of steps_eq_schema, op tlc.bind, and by execution); `compiles`, `deterministic output` are "
        "observations on the samples",
        "subset restrictions imposed by the generator and respected by the schema generator: ids spelled out with 8 "
        "hex digits, a bare reference only to an earlier single-constructor type, no boxed reference to a "
        "single-constructor type, the constructor of a single-constructor type is the lower-cased type name, "
        "liteServer.error present, at least one function, `true` only under a condition, Go names distinct after "
        "CamelCase",
    ],
    partial=[
        "no theorem about generator.go / tlb/parser/generator.go themselves (string templating over a participle AST). "
        "TL compiler: its OUTPUT TEXT is the subject of steps_eq_schema / client_steps_eq_schema (for every schema S and "
        "every output B - as read by translator X7, harness/tlbind - that the decidable matcher agreeAll accepts: the "
        "MarshalTL / UnmarshalTL step sequences, request wrappers, answer handling and decoder table implement the "
        "schema for ALL values). The matcher is evaluated per program: by the compiled Lean driver for every sampled "
        "schema (spec op tlc.bind - compiled evaluation, not kernel; expected answer `ok 1`, an output with a statement "
        "outside the shapes X7 knows is reported as an extraction failure), and by the kernel for the shipped "
        "lite_api.tl / generated.go (C10: Gen.bindings_agree, liteapi_steps_eq_schema). Trusted there: X7 itself and "
        "the hand model of the reflection helpers tl.Marshal / tl.Unmarshal on builtin types; the executed comparison "
        "of every generated program with the specification is kept in full and covers both",
        "TL-B compiler: no theorem mentions its output; tied to goBody per sampled schema by exact comparison of "
        "reflection descriptors (tlbs.desc) and by executed values",
        "tl_spec_builtin, tl_spec_length_escape, tl_spec_composite and the encode conjuncts of tl_spec_padding restate "
        "the defining equations of the specification in bytes (reviewability); tl_layout_le, tl_layout_optional, "
        "tl_layout_items, tl_layout_vector and the padding characterisation of tl_spec_padding are proved by induction / "
        "arithmetic - all of them about the specification",
        "TL-B half: the model covers the subset uintN intN (## n) # bitsN Bool Coins Grams (VarUInteger n) MsgAddress "
        "Cell ^T (Maybe T) (Maybe ^T) (Either X Y) (HashmapE n X: only the EMPTY dictionary is a value in the model, C05 "
        "owns the rest) with $/# tagged unions; tlb_schema_sound is the CONSISTENCY of two translations of a declaration "
        "written by the same author (goBody: descriptor the generated struct must have; specBody: C04 schema language) "
        "through the codec model, for declarations that refer to EARLIER types only (no recursive TL-B types, no "
        "nested Maybe); tlb_schema_roundtrip is C03's decode_encode re-exported at the environment S.goEnv (its only "
        "C09-specific content: goBody yields struct / sum bodies that are well formed as cell contents) and holds on "
        "the decidable sub-class okRT = ok AND C03's descriptor check envOk "
        "(prefix-free tags, cell-consuming types last, ...): ok alone does not imply it (kernel-checked examples "
        "exOverlap `$0`/`$01`, exCellFirst `Cell` before a field); okRT is evaluated per schema (op tlbs.ok), not "
        "characterised in terms of the TL-B text",
        "malformed-leaf encodings (tl.dec / tl.fdec / tl.ans / tl.reqdec) are not generated for schemas that declare a "
        "vector of zero-size items (constructor without fields): a garbage count for such a vector is decodable by the "
        "TL rules with up to 2^32 iterations - tl.decodeVector needs minutes (known finding go.tl.zerovec, property C10)",
        "abi/schemas -> abi/*.go: the repository's abi/generator.go cannot regenerate the checked-in files (it panics on "
        "the checked-in schemas: `not defined type: uint257`, get-method stack type of nft_sale.xml) - reported by the "
        "oracle go.regen.abi as a known finding restricted to exactly this failure (class regen-run-uint257; any other reason why the generator cannot be re-run, and any differing artefact, alarms); the checked-in abi structs are not compared with their declarations",
    ],
    level="translation_validation",
    level_text="TRANSLATION VALIDATION of the two compilers over sampled schemas, against a specification whose sanity "
               "is proved. Proved (about the specification Tl.encode/Tl.decode, for every well-formed schema, by "
               "functional induction on the encoder): tl_decode_encode (with arbitrary trailing bytes), tl_prefix_free, "
               "tl_encode_defined_iff_typed, tl_layout_optional / tl_layout_vector / tl_layout_le, tl_decode_malformed (what "
               "the decoder refuses / tolerates: prefix 255, unknown Bool id, padding content, non-canonical escape form - "
               "pinned on the compiled programs by encodings with one malformed leaf); the tl_spec_* "
               "theorems only restate its definition in bytes. The step semantics behind steps_eq_schema writes and reads "
               "the builtin leaves with the specification's own functions: it covers field order, guards, bits, tags and "
               "ids, not the byte layout of tl.Marshal / tl.Unmarshal on builtin types (executed ops only). Proved about the TL compiler's OUTPUT (as extracted by "
               "X7): steps_eq_schema, method_steps_eq_schema, client_steps_eq_schema - conditional on the decidable "
               "matcher agreeAll, which is EVALUATED per sampled program by the compiled driver (op tlc.bind) and by "
               "the kernel for the shipped schema (C10); so per sampled program the codecs are covered for all values, "
               "the set of programs is a sample. `compiles` and `deterministic` are observations per sampled schema: "
               "each is compiled twice (identical), built, executed, and every answer is compared with the "
               "specification evaluated by the Lean driver on the same schema text. NO theorem mentions the output of "
               "tlb/parser. TL-B half: tlb_schema_sound (consistency of the "
               "twin readings goBody / specBody of a declaration through C04's matcher and the codec model, every schema "
               "of the subset) and tlb_schema_roundtrip (class okRT, from C03); the compiler is tied to them per generated "
               "program: the reflection descriptor of every GENERATED struct equals goBody of its declaration (op "
               "tlbs.desc, exact), the cells it produces equal the schema semantics (spec op tlbs.enc) and decode back "
               "(tlbs.dec)",
    line_timeout="300s",
    go_jobs=4,
    search_cap=60000,
    evidence_counters=dict(programs="programs", tlb_programs="tlb_programs"),
)
