PROP = dict(
    id="C09",
    lean_modules=["TongoProofs.C09"],
    gen=[],
    spec_ops=("tl.enc", "tl.dec", "tl.fenc", "tl.fdec", "tlc.req", "tl.ans", "tl.reqdec"),
    rule="random TL schemas (3..40 declarations: liteServer.error, single-constructor types, sum types of 2..5 "
         "constructors, 1..8 functions; fields of every builtin type, bare and boxed references, vectors of builtins / "
         "declared types / vectors, conditional fields flag.N?T over bits 0..31 with up to three flag fields named "
         "mode/flags/f2, conditional `true`); each schema is compiled by tl/parser twice (identical), the output is "
         "built against the repository and run on random values of every type and function. non-trivial = distinct "
         "(schema, declaration, value) triple; TL-B half: 6 (thorough 100) random TL-B schemas of 1..12 declarations, per "
         "declared type 40 (200) random values through one go.tlbc.values line",
    trusted_base=[
        "harness/tlmini: schema generator, tokeniser, reflection binding by the generator's naming convention, "
        "reference encoder (inputs and go. oracles only); harness/tlexec executors",
        "the Go toolchain that compiles the generated packages (offline, module cache)",
    ],
    assumptions=[
        "this is translation validation over sampled programs: the theorems (round trip, prefix-freeness, layout "
        "clauses) are about the schema semantics Tl.encode/Tl.decode for every schema; tl/parser/generator.go itself "
        "is not modelled - it is tied to the semantics only on the generated schemas",
        "subset restrictions imposed by the generator and respected by the schema generator: ids spelled out with 8 "
        "hex digits, a bare reference only to an earlier single-constructor type, no boxed reference to a "
        "single-constructor type, the constructor of a single-constructor type is the lower-cased type name, "
        "liteServer.error present, at least one function, `true` only under a condition, Go names distinct after "
        "CamelCase",
    ],
    partial=[
        "TL-B half (tlb/parser GenerateGolangTypes): checked by DIRECT ORACLES ONLY (go.tlbc.*): random TL-B schemas over "
        "fixed ints, ## n, bitsN, Bool, Coins, Maybe, Maybe ^, Either (incl. reference sides), ^T, ^Cell, $ and # tagged "
        "unions; generated twice (identical), compiled, driven through tlb.Marshal/Unmarshal on random values and "
        "compared cell-for-cell (hash) with the harness' reference encoder written from the TL-B rules. There is no Lean "
        "model of TL-B in this property and no theorem (tlb_schema_sound of the design is NOT delivered); HashmapE and "
        "implicit fields are not generated",
        "no theorem about generator.go (string templating over a participle AST)",
    ],
    level="proof",
    level_text="proof for the schema semantics (tl_decode_encode, tl_prefix_free, tl_layout_* for every well-formed "
               "schema, by functional induction on the encoder); translation validation for the compiler: every "
               "sampled schema is compiled, built and executed, and each answer is compared with the proved "
               "semantics evaluated by the Lean driver on the same schema text",
    line_timeout="300s",
    go_jobs=4,
    search_cap=60000,
    evidence_counters=dict(programs="programs", tlb_programs="tlb_programs"),
)
