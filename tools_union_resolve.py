#!/usr/bin/env python3
"""Resolve git conflict markers in the given files by keeping BOTH sides (for files where both branches appended)."""
import sys, re
for p in sys.argv[1:]:
    s = open(p).read()
    s = re.sub(r"^<<<<<<< [^\n]*\n", "", s, flags=re.M)
    s = re.sub(r"^=======\n", "", s, flags=re.M)
    s = re.sub(r"^>>>>>>> [^\n]*\n", "", s, flags=re.M)
    open(p, "w").write(s)
