#!/bin/sh
# runs every registered quick check against /repo and prints one summary line each (evidence is rewritten)
cd "$(dirname "$0")"
TIER=${1:-quick}
for p in $(python3 -c "import json;print(' '.join(c['property_id'] for c in json.load(open('MANIFEST.json'))['checks']))"); do
  ./check.py $p --tier $TIER 2>/dev/null | grep -e VIOLATION -e KNOWN-FINDING -e "^\[check\] C" | cut -c1-230
done
