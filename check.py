#!/usr/bin/env python3
"""Orchestrator: ./check.py <Cxx> [--tier quick|thorough] [--seed N] [--replay FILE]

One run, always from /repo's current working tree:
  1. go build (tags verif,<cxx>) of the harness against /repo
  2. translators regenerate lean/TongoGen/* for the property (stale files replaced)
  3. lake build of the property's proof modules + axiom audit + forbidden-token grep  -> obligations/discharged
  4. correspondence: harness generates op lines, the REAL code and the Lean model driver execute them, answers diffed;
     "go." lines are direct property oracles on the implementation alone
  5. if 3 or 4 failed: failing-input search (direct oracles with a doubled budget)
  6. evidence JSON, VIOLATION / KNOWN-FINDING lines, exit status
"""
import argparse, concurrent.futures as cf, fcntl, hashlib, importlib.util, json, os, re, resource, shutil
import subprocess, sys, time

ROOT = os.path.dirname(os.path.abspath(__file__))
REPO = os.environ.get("VERIF_REPO", "/repo")
LEAN = os.path.join(ROOT, "lean")
HARN = os.path.join(ROOT, "harness")
NCPU = max(2, min(16, os.cpu_count() or 4))

GOENV = dict(os.environ, GOFLAGS="-mod=mod", GOPROXY="off", GOSUMDB="off", GOTOOLCHAIN="local",
             CGO_ENABLED="0")
FORBIDDEN = re.compile(r"\bsorry\b|\badmit\b|^\s*axiom\s|native_decide|bv_decide|implemented_by|\bunsafe\s|maxHeartbeats\s+0\b", re.M)
OK_AXIOMS = {"propext", "Classical.choice", "Quot.sound"}
# a regenerated module's own theorems count as obligations of ONE property (its owner); other properties that list it in
# `gen` still regenerate and build it (so a change in the source breaks their proofs too) but do not count it again
GEN_OWNER = {"TlbTypes": "C03", "IntTypes": "C03", "LevelMask": "C02", "CellDesc": "C02", "MinBits": "C06",
             "BocHeader": "C07", "WalletV5Id": "C15", "WalletConsts": "C14"}


def log(*a):
    print("[check]", *a, file=sys.stderr, flush=True)


def load_prop(pid):
    path = os.path.join(ROOT, "props", pid + ".py")
    if not os.path.exists(path):
        sys.exit(f"unknown property {pid}")
    spec = importlib.util.spec_from_file_location("prop_" + pid, path)
    m = importlib.util.module_from_spec(spec)
    spec.loader.exec_module(m)
    return m.PROP


def run(cmd, cwd=None, env=None, timeout=None, stdin=None):
    t = time.time()
    p = subprocess.run(cmd, cwd=cwd, env=env, stdout=subprocess.PIPE, stderr=subprocess.STDOUT, text=True,
                       timeout=timeout, stdin=stdin)
    return p.returncode, p.stdout, time.time() - t


class Lock:
    """serialises go build / lake build across concurrently running checks"""
    def __init__(self, name):
        os.makedirs(os.path.join(ROOT, ".work"), exist_ok=True)
        self.path = os.path.join(ROOT, ".work", name + ".lock")
    def __enter__(self):
        self.f = open(self.path, "w")
        fcntl.flock(self.f, fcntl.LOCK_EX)
    def __exit__(self, *a):
        fcntl.flock(self.f, fcntl.LOCK_UN)
        self.f.close()


# ---------------------------------------------------------------------------------------------------- build steps

def build_harness(prop):
    """go build with an alternate go.mod (-modfile) whose replace directive points at REPO, tags verif,<cxx>"""
    tag = prop["id"].lower()
    suffix = "" if REPO == "/repo" else "_" + hashlib.sha1(REPO.encode()).hexdigest()[:6]
    out = os.path.join(HARN, "bin", "vh_" + tag + suffix)
    wd = os.path.join(ROOT, ".work", "mod_" + tag)
    os.makedirs(wd, exist_ok=True)
    os.makedirs(os.path.join(HARN, "bin"), exist_ok=True)
    gm = open(os.path.join(HARN, "go.mod")).read().replace("=> /repo", "=> " + REPO)
    with open(os.path.join(wd, "go.mod"), "w") as f:
        f.write(gm)
    shutil.copy(os.path.join(REPO, "go.sum"), os.path.join(wd, "go.sum"))
    modfile = "-modfile=" + os.path.join(wd, "go.mod")
    rc, o, dt = run(["go", "build", modfile, "-tags", "verif," + tag, "-o", out, "./cmd/vh"], cwd=HARN, env=GOENV)
    ext = None
    if prop.get("gen") or gen_deps(prop):
        ext = os.path.join(HARN, "bin", "extract_" + tag + suffix)
        rc2, o2, dt2 = run(["go", "build", modfile, "-o", ext, "./cmd/extract"], cwd=HARN, env=GOENV)
        if rc2 != 0:
            return None, None, "extract build failed:\n" + o2
    if rc != 0:
        return None, None, o
    return out, ext, None


def gen_deps(prop):
    """TongoGen modules imported (transitively) by the property's proof modules but not in its own `gen` list"""
    own = set(prop.get("gen", []))
    deps, seen, todo = [], set(), list(prop["lean_modules"])
    while todo:
        m = todo.pop()
        if m in seen:
            continue
        seen.add(m)
        if m.startswith("TongoGen."):
            n = m.split(".", 1)[1]
            if n not in own and n not in deps:
                deps.append(n)
            continue
        p = os.path.join(LEAN, m.replace(".", "/") + ".lean")
        if os.path.exists(p):
            for im in re.findall(r"^import\s+(\S+)", open(p).read(), flags=re.M):
                if im.split(".")[0] in ("TongoModel", "TongoGen", "TongoProofs", "Driver"):
                    todo.append(im)
    return deps


def regenerate(prop, ext):
    """run the translators; returns (list of generated lean modules, error or None)"""
    mods = []
    gdir = os.path.join(LEAN, "TongoGen")
    os.makedirs(gdir, exist_ok=True)
    # modules of OTHER properties that this one imports: only make sure they exist (a fresh tree); they are
    # regenerated and judged by their own property's check
    def ensure_deps():
        """modules of OTHER properties that this one imports are refreshed from the current source as well (a stale file
        left by a run against another tree must never make this check alarm); their obligations are judged by their owner,
        a failing translator leaves the existing file in place"""
        missing = []
        for name in gen_deps(prop):
            dst = os.path.join(gdir, name + ".lean")
            tmp = os.path.join(ROOT, ".work", "gendep_" + prop["id"] + "_" + name + ".lean")
            if os.path.exists(tmp):
                os.remove(tmp)
            rc_, o_, _ = run([ext, name, "-repo", REPO, "-out", tmp], cwd=HARN, env=GOENV)
            if rc_ == 0 and os.path.exists(tmp):
                new_ = open(tmp).read()
                if not os.path.exists(dst) or open(dst).read() != new_:
                    with open(dst, "w") as f:
                        f.write(new_)
            if not os.path.exists(dst):
                missing.append(name)
        return missing
    ensure_deps()
    for name in prop.get("gen", []):
        tmp = os.path.join(ROOT, ".work", "gen_" + name + ".lean")
        if os.path.exists(tmp):
            os.remove(tmp)
        rc, o, dt = run([ext, name, "-repo", REPO, "-out", tmp], cwd=HARN, env=GOENV)
        if "REBUILD-HARNESS" in o:
            # the translator regenerated harness sources (X1 stage i: the type registry); vh must be rebuilt
            regenerate.rebuild = True
        dst = os.path.join(gdir, name + ".lean")
        if rc != 0 or not os.path.exists(tmp):
            # a construct outside the translator's subset: the obligation is broken, not passed
            if os.path.exists(dst):
                os.remove(dst)
            return mods, f"translator {name} failed on the current source:\n{o}"
        new = open(tmp).read()
        old = open(dst).read() if os.path.exists(dst) else None
        if new != old:
            with open(dst, "w") as f:
                f.write(new)
        mods.append("TongoGen." + name)
    # some translators read other regenerated modules (AbiOpcodes reads TlbTypes): second pass for what is still missing
    for _ in range(2):
        if not ensure_deps():
            break
    return mods, None


def theorems_in(path):
    """[(fully qualified name, first_line, last_line)] of theorem declarations in a Lean file (namespaces tracked)"""
    src = strip_comments_keep_lines(open(path).read()).split("\n")
    res, cur, ns = [], None, []
    for i, l in enumerate(src, 1):
        m0 = re.match(r"^\s*namespace\s+(\S+)", l)
        if m0:
            ns.append(m0.group(1)); continue
        m1 = re.match(r"^\s*end\s+(\S+)\s*$", l)
        if m1 and ns and ns[-1] == m1.group(1):
            ns.pop(); continue
        m = re.match(r"^\s*(?:@\[[^\]]*\]\s*)?(?:private\s+|protected\s+)?theorem\s+([^\s:({\[]+)", l)
        if m:
            if cur:
                res.append((cur[0], cur[1], i - 1))
            name = m.group(1)
            if name.startswith("_root_."):
                name = name[len("_root_."):]
            else:
                name = ".".join(ns + [name])
            cur = (name, i)
    if cur:
        res.append((cur[0], cur[1], len(src)))
    return res


def strip_comments_keep_lines(s):
    def blank(m):
        return re.sub(r"[^\n]", " ", m.group(0))
    s = re.sub(r"/-.*?-/", blank, s, flags=re.S)
    return re.sub(r"--.*", "", s)


def strip_comments(s):
    s = re.sub(r"/-.*?-/", "", s, flags=re.S)
    return re.sub(r"--.*", "", s)


def lean_sources_of(mods):
    """transitive project-local imports of the given modules"""
    seen, todo = {}, list(mods)
    while todo:
        m = todo.pop()
        if m in seen:
            continue
        p = os.path.join(LEAN, m.replace(".", "/") + ".lean")
        if not os.path.exists(p):
            continue
        s = open(p).read()
        seen[m] = p
        for im in re.findall(r"^import\s+(\S+)", s, flags=re.M):
            if im.split(".")[0] in ("TongoModel", "TongoGen", "TongoProofs", "TongoSpec", "Driver"):
                todo.append(im)
    return seen


def lake_and_audit(prop, genmods, tier):
    """returns dict(obligations, discharged, failed_theorems, axioms, forbidden, log)"""
    pmods = prop["lean_modules"]
    res = dict(obligations=0, discharged=0, failed=[], axioms={}, forbidden=[], build_log="", theorems=[])
    thms = []
    for m in pmods + genmods:
        p = os.path.join(LEAN, m.replace(".", "/") + ".lean")
        if m.startswith("TongoGen.") and GEN_OWNER.get(m.split(".", 1)[1], prop["id"]) != prop["id"]:
            continue
        if os.path.exists(p):
            for (n, a, b) in theorems_in(p):
                thms.append((m, n, a, b, p))
        else:
            res["failed"].append(m + " (module missing)")
    res["obligations"] = len(thms)
    res["theorems"] = [t[1] for t in thms]
    with Lock("lake"):
        run([sys.executable, os.path.join(ROOT, "tools_gen_driver.py")])
        rc, o, dt = run(["lake", "build"] + pmods + genmods + ["tongo_model"], cwd=LEAN, timeout=3000)
        res["build_log"] = o[-6000:]
        res["build_s"] = round(dt, 1)
        failed = set()
        if rc != 0:
            for m_ in re.finditer(r"error: (\S+?\.lean):(\d+):(\d+)", o):
                f, ln = m_.group(1), int(m_.group(2))
                hit = False
                for (m, n, a, b, p) in thms:
                    if p.endswith(f) and a <= ln <= b:
                        failed.add(n); hit = True
                if not hit:
                    failed.add(f"{f}:{ln}")
            if not failed:
                failed.add("lake build")
            # theorems in modules that import a failed module are not discharged either; count conservatively
            broken_mods = set(re.findall(r"^- (\S+)$", o, flags=re.M))
            for (m, n, a, b, p) in thms:
                if m in broken_mods and n not in failed:
                    pass
        res["failed"] += sorted(failed)
        # axiom audit (only meaningful if the modules built)
        if rc == 0 and thms:
            adir = os.path.join(LEAN, ".lake", "audit")
            os.makedirs(adir, exist_ok=True)
            af = os.path.join(adir, f"Audit_{prop['id']}.lean")
            with open(af, "w") as f:
                for m in sorted(set(t[0] for t in thms)):
                    f.write(f"import {m}\n")
                for (m, n, a, b, p) in thms:
                    ns = prop.get("namespace_of", {}).get(m)
                    f.write(f"#print axioms {n}\n")
            rc2, o2, dt2 = run(["lake", "env", "lean", af], cwd=LEAN, timeout=1200)
            cur = None
            for blk in re.split(r"(?=^'[^']+' (?:depends on axioms|does not depend on any axioms))", o2, flags=re.M):
                m1 = re.match(r"'([^']+)' depends on axioms: \[(.*?)\]", blk, flags=re.S)
                m2 = re.match(r"'([^']+)' does not depend on any axioms", blk)
                if m1:
                    res["axioms"][m1.group(1)] = [x.strip() for x in m1.group(2).replace("\n", " ").split(",") if x.strip()]
                elif m2:
                    res["axioms"][m2.group(1)] = []
            if rc2 != 0 or len(res["axioms"]) < len(thms):
                # names inside namespaces: retry is not attempted; report which are missing
                missing = [t[1] for t in thms if not any(k == t[1] or k.endswith("." + t[1]) for k in res["axioms"])]
                if missing:
                    res["failed"] += ["audit:" + x for x in missing]
                    res["build_log"] += "\nAUDIT OUTPUT:\n" + o2[-3000:]
            for k, ax in res["axioms"].items():
                bad = [a for a in ax if a not in OK_AXIOMS]
                if bad:
                    res["failed"].append(f"axioms:{k}:{','.join(bad)}")
            if tier == "thorough" and not res["failed"]:
                rc3, o3, dt3 = run(["lake", "env", "leanchecker"] + pmods + genmods, cwd=LEAN, timeout=3000)
                res["leanchecker"] = "ok" if rc3 == 0 else "FAILED: " + o3[-1500:]
                if rc3 != 0:
                    res["failed"].append("leanchecker")
    # forbidden tokens in every project-local source the theorems depend on
    for m, p in lean_sources_of(pmods + genmods).items():
        for hit in FORBIDDEN.finditer(strip_comments(open(p).read())):
            res["forbidden"].append(f"{m}: {hit.group(0).strip()}")
    if res["forbidden"]:
        res["failed"].append("forbidden-token")
    res["discharged"] = max(0, res["obligations"] - len([x for x in res["failed"]])) if res["failed"] else res["obligations"]
    return res


# ------------------------------------------------------------------------------------------------ execution of lines

def _limits():
    try:
        resource.setrlimit(resource.RLIMIT_AS, (12 << 30, 12 << 30))
    except Exception:
        pass


def exec_lines(cmd, lines, env=None, limit_mem=False):
    """feed lines to an executor process; survive crashes: a missing answer marks that line 'fatal' (or 'timeout')."""
    out = []
    i = 0
    guard = 0
    while i < len(lines):
        chunk = lines[i:]
        p = subprocess.Popen(cmd, stdin=subprocess.PIPE, stdout=subprocess.PIPE, stderr=subprocess.PIPE, text=True,
                             env=env, preexec_fn=_limits if limit_mem else None)
        try:
            o, e = p.communicate("\n".join(chunk) + "\n", timeout=3600)
        except subprocess.TimeoutExpired:
            p.kill(); o, e = p.communicate()
        got = o.split("\n")
        if got and got[-1] == "":
            got.pop()
        out += got[:len(chunk)]
        if len(got) >= len(chunk):
            break
        # crashed before answering line i+len(got)
        out.append("fatal " + (e.strip().split("\n")[0][:120] if e.strip() else f"rc={p.returncode}"))
        i += len(got) + 1
        guard += 1
        if guard > 200:
            out += ["fatal too-many-crashes"] * (len(lines) - len(out))
            break
    if out and len(out) > len(lines):
        out = out[:len(lines)]
    return out


def par_exec(cmd, lines, env=None, limit_mem=False, jobs=NCPU):
    if not lines:
        return []
    n = max(1, min(jobs, len(lines) // 200 + 1))
    size = (len(lines) + n - 1) // n
    chunks = [lines[k:k + size] for k in range(0, len(lines), size)]
    with cf.ThreadPoolExecutor(max_workers=n) as ex:
        parts = list(ex.map(lambda c: exec_lines(cmd, c, env, limit_mem), chunks))
    return [x for p in parts for x in p]


def compare(prop, lines, vh, seedinfo):
    """returns (failures, stats). failure = dict(kind, line, go, model)"""
    go_cmd = [vh, "exec", "-prop", prop["id"], "-timeout", prop.get("line_timeout", "30s")]
    model_cmd = [os.path.join(LEAN, ".lake", "build", "bin", "tongo_model")]
    go_out = par_exec(go_cmd, lines, env=GOENV, limit_mem=True, jobs=prop.get("go_jobs", NCPU))
    midx = [k for k, l in enumerate(lines) if not l.startswith("go.")]
    mlines = [lines[k] for k in midx]
    m_out = par_exec(model_cmd, mlines)   # no address-space limit: the thorough tier feeds 32 MB lines (2^24-byte strings) whose parsing needs several GB
    model = dict(zip(midx, m_out))
    fails = []
    stats = dict(go_only=len(lines) - len(midx), compared=len(midx), go_panic=0, go_err=0, go_ok=0)
    spec_ops = tuple(prop.get("spec_ops", ()))
    info_ops = tuple(prop.get("info_ops", ()))   # compared and counted, never a failure (facts outside the property)
    stats["info_mismatch"] = {}
    for k, l in enumerate(lines):
        g = go_out[k] if k < len(go_out) else "fatal missing"
        op = l.split(" ", 1)[0]
        if g.startswith("panic"): stats["go_panic"] += 1
        elif g.startswith("err"): stats["go_err"] += 1
        else: stats["go_ok"] += 1
        if g == "bad-op":
            fails.append(dict(kind="harness:bad-op:" + op, line=l, go=g, model=None, cls="machinery"))
            continue
        if l.startswith("go."):
            if g != "ok" and not g.startswith("ok "):
                cls = g.split(" ")[1] if g.startswith("FAIL ") and len(g.split(" ")) > 1 else g.split(" ")[0]
                fails.append(dict(kind=f"{op}:{cls}", line=l, go=g, model=None, cls="oracle"))
            continue
        m = model.get(k, "fatal missing")
        if m == "bad-op":
            fails.append(dict(kind="model:bad-op:" + op, line=l, go=g, model=m, cls="machinery"))
        elif g != m and info_ops and op.startswith(info_ops):
            stats["info_mismatch"].setdefault(op, []).append(l[:160])
        elif g != m:
            c = "spec" if op.startswith(spec_ops) and spec_ops else "corr"
            fails.append(dict(kind=f"{c}:{op}", line=l, go=g, model=m, cls=c))
    return fails, stats


# ------------------------------------------------------------------------------------------------------- findings

def load_known():
    known, fixed = [], []
    p = os.path.join(ROOT, "known_findings.txt")
    if os.path.exists(p):
        for l in open(p):
            l = l.strip()
            m = re.match(r"finding:\s*property=(\S+)\s+kind=(\S+)\s*(.*)", l)
            if m:
                known.append((m.group(1), m.group(2), m.group(3)))
            elif l.startswith("fixed:"):
                fixed.append(l)
    return known, fixed


def is_known(known, pid, f):
    for (p, kind, desc) in known:
        if p != pid:
            continue
        # kind may carry an input restriction:  kind=<kind>@<substring of the op line>
        k, _, sub = kind.partition("@")
        if k == f["kind"] and (not sub or sub in f["line"]):
            return (p, kind, desc)
    return None


# ------------------------------------------------------------------------------------------------------------ main

def main():
    ap = argparse.ArgumentParser()
    ap.add_argument("prop")
    ap.add_argument("--tier", default=os.environ.get("VERIF_TIER", "quick"))
    ap.add_argument("--seed", type=int, default=int(os.environ.get("VERIF_SEED", "1") or 1))
    ap.add_argument("--replay")
    ap.add_argument("--skip-lean", action="store_true", help="development only: skip the proof step")
    a = ap.parse_args()
    if a.tier not in ("quick", "thorough"):
        a.tier = "quick"
    t0 = time.time()
    prop = load_prop(a.prop)
    pid = prop["id"]
    work = os.path.join(ROOT, ".work", pid)
    shutil.rmtree(work, ignore_errors=True)
    os.makedirs(work, exist_ok=True)
    os.makedirs(os.path.join(ROOT, "evidence"), exist_ok=True)
    os.makedirs(os.path.join(ROOT, "replays", pid), exist_ok=True)
    evpath = os.path.join(ROOT, "evidence", pid + ".json")
    if REPO != "/repo" or a.replay:
        # runs against a scratch copy of the repository (seeded changes, agents' private worktrees) never touch the
        # evidence of the registered checks
        os.makedirs(os.path.join(ROOT, ".work", "evidence_alt"), exist_ok=True)
        evpath = os.path.join(ROOT, ".work", "evidence_alt", pid + ".json")
    known, fixed = load_known()
    violations = []   # dict(kind, replay, found_input(bool), detail)
    notes = []

    # 1. harness
    vh, ext, err = build_harness(prop)
    if err:
        violations.append(dict(kind="tie:harness-build", found=False, detail=err[-3000:], lines=[]))
    # 2. translators
    genmods, gerr = ([], None)
    if ext:
        regenerate.rebuild = False
        genmods, gerr = regenerate(prop, ext)
        if gerr:
            violations.append(dict(kind="tie:translator", found=False, detail=gerr[-3000:], lines=[]))
        elif regenerate.rebuild:
            vh, ext, err = build_harness(prop)
            if err:
                violations.append(dict(kind="tie:harness-build", found=False, detail=err[-3000:], lines=[]))
    # 3. proofs
    if a.skip_lean:
        pr = dict(obligations=0, discharged=0, failed=[], axioms={}, forbidden=[], build_log="", theorems=[])
        with Lock("lake"):
            run([sys.executable, os.path.join(ROOT, "tools_gen_driver.py")])
            run(["lake", "build", "tongo_model"], cwd=LEAN)
    else:
        pr = lake_and_audit(prop, genmods, a.tier)
    proof_broken = bool(pr["failed"])
    if proof_broken:
        log("proof obligations not discharged:", pr["failed"])
        log(pr["build_log"][-3000:])

    # 4. correspondence
    fails, stats, meta, lines = [], {}, {}, []
    if vh:
        if a.replay:
            rp = json.load(open(a.replay))
            lines = rp.get("lines", [])
            meta = dict(evaluations=len(lines), distinct_nontrivial=0, distribution={}, samples=lines[:5], per_op={})
        else:
            corpus = []
            cdir = os.path.join(ROOT, "corpus", pid)
            if os.path.isdir(cdir):
                for fn in sorted(os.listdir(cdir)):
                    corpus += [l.rstrip("\n") for l in open(os.path.join(cdir, fn)) if l.strip() and not l.startswith("#")]
            rc, o, dt = run([vh, "gen", "-prop", pid, "-seed", str(a.seed), "-tier", a.tier, "-out", work], env=GOENV)
            if rc != 0:
                violations.append(dict(kind="tie:harness-gen", found=False, detail=o[-3000:], lines=[]))
            else:
                meta = json.load(open(os.path.join(work, "meta.json")))
                lines = corpus + [l.rstrip("\n") for l in open(os.path.join(work, "ops.txt"))]
                meta["corpus_lines"] = len(corpus)
        if lines:
            fails, stats = compare(prop, lines, vh, a.seed)
            log(f"{len(lines)} lines, {len(fails)} failures, stats {stats}")

    # 5. classify; failing-input search when only the proof or the exact correspondence broke
    oracle_f = [f for f in fails if f["cls"] in ("oracle", "spec")]
    corr_f = [f for f in fails if f["cls"] == "corr"]
    mach_f = [f for f in fails if f["cls"] == "machinery"]
    searched = 0
    if (proof_broken or corr_f or any(v["kind"].startswith("tie:translator") for v in violations)) and not oracle_f and vh and not a.replay:
        # doubled budget on the direct oracles, three further seeds
        for s in range(1, 4):
            sd = os.path.join(work, f"search{s}")
            rc, o, dt = run([vh, "gen", "-prop", pid, "-seed", str(a.seed * 1000 + s), "-tier", "thorough", "-out", sd], env=GOENV)
            if rc != 0:
                break
            sl = [l.rstrip("\n") for l in open(os.path.join(sd, "ops.txt"))]
            cap = prop.get("search_cap", 400000)
            sl = sl[:cap]
            searched += len(sl)
            f2, st2 = compare(prop, sl, vh, a.seed)
            o2 = [f for f in f2 if f["cls"] in ("oracle", "spec")]
            shutil.rmtree(sd, ignore_errors=True)
            if o2:
                oracle_f += o2
                break

    def write_replay(tag, payload):
        h = hashlib.sha1(json.dumps(payload, sort_keys=True).encode()).hexdigest()[:10]
        p = os.path.join(ROOT, "replays", pid, f"{tag}-{h}.json")
        with open(p, "w") as f:
            json.dump(payload, f, indent=1)
        return p

    out_lines = []
    bykind = {}
    for f in oracle_f + corr_f + mach_f:
        bykind.setdefault(f["kind"], []).append(f)
    known_hits, new_viol = [], []
    for kind, fs in bykind.items():
        # partition by known / unknown
        unk = [f for f in fs if not is_known(known, pid, f)]
        kn = [f for f in fs if is_known(known, pid, f)]
        if kn:
            k = is_known(known, pid, kn[0])
            known_hits.append((k, len(kn)))
        if unk:
            new_viol.append((kind, unk))
    for (k, n) in known_hits:
        out_lines.append(f"KNOWN-FINDING: property={pid} kind={k[1]} {k[2]} ({n} inputs this run)")
    have_input = any(fs[0]["cls"] in ("oracle", "spec") for kind, fs in new_viol)
    for kind, fs in new_viol:
        f0 = fs[0]
        found = f0["cls"] in ("oracle", "spec")
        if f0["cls"] == "corr" and have_input:
            # the exact correspondence broke AND a direct oracle produced a failing input: the latter is the replay
            notes.append(f"correspondence {kind} also broken on {len(fs)} lines, e.g. {f0['line'][:200]}")
            continue
        payload = dict(property=pid, kind=kind, relation=f0["cls"], seed=a.seed, tier=a.tier, count=len(fs),
                       lines=[f["line"] for f in fs[:20]], go=[f["go"] for f in fs[:20]],
                       model=[f["model"] for f in fs[:20]],
                       how="./check.py %s --replay <this file>" % pid)
        if not found:
            payload["no_longer_checks"] = f"correspondence relation {kind}: implementation and model disagree on the listed lines; no direct-oracle failure found in {searched} further inputs"
        rp = write_replay(kind.replace(":", "_").replace("/", "_"), payload)
        out_lines.append(f"VIOLATION property={pid} replay={rp}" + ("" if found else " no-failing-input-found"))
        violations.append(dict(kind=kind, found=found, replay=rp))
    if proof_broken:
        # if a direct oracle already produced an input, that is the replay; otherwise name the theorems
        if not any(v.get("found") for v in violations):
            if not any(k for k in known_hits) or True:
                payload = dict(property=pid, kind="proof", no_longer_checks=pr["failed"], build_log=pr["build_log"][-4000:],
                               forbidden=pr["forbidden"], searched_inputs=searched,
                               note="theorem(s)/obligation(s) listed no longer check against the current source; no failing input found by the direct oracles")
                rp = write_replay("proof", payload)
                out_lines.append(f"VIOLATION property={pid} replay={rp} no-failing-input-found")
                violations.append(dict(kind="proof", found=False, replay=rp))
        else:
            notes.append("proof obligations broken as well: " + ", ".join(pr["failed"]))
    for v in [v for v in violations if v["kind"].startswith("tie:")]:
        if not any(x.get("found") for x in violations):
            rp = write_replay(v["kind"].replace(":", "_"), dict(property=pid, kind=v["kind"], no_longer_checks=v["kind"], detail=v["detail"]))
            out_lines.append(f"VIOLATION property={pid} replay={rp} no-failing-input-found")

    # 6. evidence
    nviol = len([l for l in out_lines if l.startswith("VIOLATION")])
    tb = list(prop.get("trusted_base", [])) + [
        "Lean 4.33.0 kernel" + ("; leanchecker re-check: " + str(pr.get("leanchecker")) if a.tier == "thorough" else ""),
        "axioms used by this property's theorems: " + (", ".join(sorted({x for v in pr["axioms"].values() for x in v})) or "none"),
        "translators/correspondence harness (/verif/harness), check.py line diff",
    ]
    cov = dict(
        obligations=pr["obligations"], discharged=pr["discharged"],
        checker_cmd=f"cd lean && lake build {' '.join(prop['lean_modules'] + genmods)} && lake env lean .lake/audit/Audit_{pid}.lean",
        trusted_base=tb,
        theorems=pr["theorems"], undischarged=pr["failed"], regenerated_modules=genmods,
        evaluations=int(meta.get("evaluations", 0)) + searched,
        distinct_nontrivial=int(meta.get("distinct_nontrivial", 0)),
        rule=prop.get("rule", ""),
        samples=meta.get("samples", [])[:12] or ["(no cases generated)"],
        traces_validated_against_impl=stats.get("compared", 0) - len(corr_f) if stats else 0,
        lines_compared_with_model=stats.get("compared", 0), direct_oracle_lines=stats.get("go_only", 0),
        go_outcomes=dict(ok=stats.get("go_ok", 0), err=stats.get("go_err", 0), panic=stats.get("go_panic", 0)),
        distribution=meta.get("distribution", {}), per_op=meta.get("per_op", {}),
        informational_mismatches={k: dict(count=len(v), examples=v[:6]) for k, v in (stats.get("info_mismatch") or {}).items()},
        partial=prop.get("partial", []), known_findings_hit=[k[1] for k, n in known_hits],
        notes=notes, build_s=pr.get("build_s"),
    )
    if prop.get("exhaustive"):
        cov["exhaustive"] = True
    # translation-validation properties: named counters of the generator (e.g. programs compiled and executed) and the
    # number of answers of the implementation that were checked for disagreement with the model / the direct oracles
    for key, counter in prop.get("evidence_counters", {}).items():
        cov[key] = int(meta.get("distribution", {}).get(counter, 0))
    if prop.get("evidence_counters"):
        cov["disagreements_checked"] = stats.get("compared", 0) + stats.get("go_only", 0) if stats else 0
    ev = dict(property_id=pid, tier=a.tier, seed=a.seed, level=prop.get("level", "proof"), coverage=cov,
              assumptions=prop.get("assumptions", []), wall_s=round(time.time() - t0, 1), violations=nviol)
    with open(evpath, "w") as f:
        json.dump(ev, f, indent=1)
    for l in out_lines:
        print(l)
    print(f"[check] {pid} tier={a.tier} seed={a.seed} obligations={pr['obligations']} discharged={pr['discharged']} "
          f"lines={len(lines)} violations={nviol} wall={ev['wall_s']}s")
    sys.exit(1 if nviol else 0)


if __name__ == "__main__":
    main()
