#!/usr/bin/env python3
"""Regenerates MANIFEST.json from props/*.py (run by hand after editing a props file; the result is committed)."""
import importlib.util, json, os, glob
ROOT = os.path.dirname(os.path.abspath(__file__))
ALL = ["C%02d" % i for i in range(1, 21)]
checks, na = [], []
for pid in ALL:
    p = os.path.join(ROOT, "props", pid + ".py")
    if not os.path.exists(p):
        na.append(dict(property_id=pid, reason="not built yet: no model/theorem/correspondence for this property is committed; see DESIGN.md section 6 for the plan"))
        continue
    spec = importlib.util.spec_from_file_location("p", p); m = importlib.util.module_from_spec(spec); spec.loader.exec_module(m)
    P = m.PROP
    if P.get("not_applicable"):
        na.append(dict(property_id=pid, reason=P["not_applicable"])); continue
    checks.append(dict(
        property_id=pid,
        quick_cmd=f"./check.py {pid} --tier quick",
        thorough_cmd=f"./check.py {pid} --tier thorough",
        evidence_file=f"evidence/{pid}.json",
        replay_cmd_template=f"./check.py {pid} --replay {{path}}",
        engine="lean4+correspondence",
        level_claimed=dict(category=P.get("level", "proof"), text=P.get("level_text", ""), design_ref=P.get("design_ref", "DESIGN.md section 6, " + pid)),
        level_note=P.get("level_note") or ("Trusted base: " + "; ".join(P.get("trusted_base", [])) + (" Assumptions: " + "; ".join(P.get("assumptions", [])) if P.get("assumptions") else ""))[:3000],
        technique=P.get("technique", "Lean 4 theorems about a functional model + differential correspondence model/implementation"),
    ))
import subprocess
hooks_commits = [l.split()[0] for l in subprocess.run(
    "git -C /repo log --reverse --format='%h %s' f6dbd3e..HEAD", shell=True, capture_output=True, text=True).stdout.split("\n")
    if "verif hooks" in l]
man = dict(
    version=1,
    setup_cmd="./setup.sh",
    hooks=dict(guard="verif", enable="go build -tags verif (the harness builds /repo through a replace directive with -tags verif,<cxx>)",
               baseline_off_cmd="cd /repo && go test -mod=mod -json -vet=off -count=1 -timeout 25m ./...",
               source_commits=hooks_commits, add_only=True),
    engines=[dict(name="lean4+correspondence", path="check.py", serves_properties=[c["property_id"] for c in checks],
                  kind_free_text="Lean 4 model (lean/TongoModel), property theorems (lean/TongoProofs/Cxx.lean), regenerated obligations (lean/TongoGen, translators in harness/cmd/extract), Go harness (harness/cmd/vh) driving the real code and the compiled model driver over a line protocol")],
    checks=checks,
    notes="See DESIGN.md. Every check rebuilds the harness against /repo's working tree, regenerates translator output, re-elaborates the property's theorems, audits axioms, then runs the correspondence and the direct property oracles.",
    not_applicable=na,
)
json.dump(man, open(os.path.join(ROOT, "MANIFEST.json"), "w"), indent=1)
print("checks:", [c["property_id"] for c in checks], "not claimed:", [n["property_id"] for n in na])
