#!/usr/bin/env python3
"""Reports theorem/def names declared in more than one file of lean/TongoProofs or lean/TongoModel (same namespace stack):
they clash as soon as one module imports both."""
import glob, os, re, collections
ROOT = os.path.dirname(os.path.abspath(__file__))
seen = collections.defaultdict(set)
for p in glob.glob(os.path.join(ROOT, "lean", "Tongo*", "**", "*.lean"), recursive=True):
    ns = []
    for l in open(p):
        m = re.match(r"^\s*namespace\s+(\S+)", l)
        if m: ns.append(m.group(1)); continue
        m = re.match(r"^\s*end\s+(\S+)\s*$", l)
        if m and ns and ns[-1] == m.group(1): ns.pop(); continue
        m = re.match(r"^\s*(?:@\[[^\]]*\]\s*)?(theorem|lemma|def|abbrev|structure|inductive)\s+([^\s:({\[]+)", l)
        if m and not l.lstrip().startswith("private"):
            seen[".".join(ns + [m.group(2)])].add(os.path.relpath(p, ROOT))
for k, v in sorted(seen.items()):
    if len(v) > 1 and not k.endswith(".wf") :
        print(k, sorted(v))
