#!/usr/bin/env python3
"""Run a property's check against a seeded change:  tools_seeded.py <seeded/Cxx-N dir>... [--tier quick|thorough]

Applies seeded/<id>/patch.diff to a scratch worktree of /repo's HEAD (never to /repo itself), runs
`VERIF_REPO=<scratch> ./check.py <property>`, prints whether a VIOLATION line was produced (and whether it carries a failing
input), restores the scratch tree. The scratch worktree lives under /tmp/seedrun and is removed at the end."""
import json, os, subprocess, sys, shutil
ROOT = os.path.dirname(os.path.abspath(__file__))
SCR = "/tmp/seedrun_%d/repo" % os.getpid()

def sh(cmd, **kw):
    return subprocess.run(cmd, shell=True, stdout=subprocess.PIPE, stderr=subprocess.STDOUT, text=True, **kw)

def main():
    args = [a for a in sys.argv[1:] if not a.startswith("--")]
    tier = "quick"
    if "--tier" in sys.argv:
        tier = sys.argv[sys.argv.index("--tier") + 1]
        args = [a for a in args if a != tier]
    keep = "--keep" in sys.argv
    sh(f"git -C /repo worktree remove --force {SCR}; rm -rf {os.path.dirname(SCR)}; mkdir -p {os.path.dirname(SCR)} && git -C /repo worktree add --detach {SCR} HEAD")
    results = []
    for d in args:
        d = d.rstrip("/")
        meta = json.load(open(os.path.join(d, "meta.json")))
        pid = meta["property"]
        sh(f"git -C {SCR} checkout -- . && git -C {SCR} clean -fdq")
        r = sh(f"git -C {SCR} apply {os.path.abspath(os.path.join(d, 'patch.diff'))}")
        if r.returncode != 0:
            results.append((d, pid, "PATCH-DOES-NOT-APPLY", r.stdout[-300:])); continue
        env = dict(os.environ, VERIF_REPO=SCR)
        r = subprocess.run([os.path.join(ROOT, "check.py"), pid, "--tier", tier], cwd=ROOT, env=env,
                           stdout=subprocess.PIPE, stderr=subprocess.PIPE, text=True)
        vl = [l for l in r.stdout.split("\n") if l.startswith("VIOLATION")]
        if vl:
            withinput = any("no-failing-input-found" not in l for l in vl)
            results.append((d, pid, "DETECTED" + ("" if withinput else " (no-failing-input-found)"), vl[0]))
        else:
            results.append((d, pid, "MISSED", (r.stdout + r.stderr)[-400:].replace("\n", " | ")))
    if not keep:
        sh(f"git -C /repo worktree remove --force {SCR}; rm -rf {os.path.dirname(SCR)}")
    for (d, pid, res, detail) in results:
        print(f"{os.path.basename(d):12s} {pid} {res:40s} {detail[:200]}")

if __name__ == "__main__":
    main()
